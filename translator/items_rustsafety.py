"""Generated layer for the Rust safety linters unwrap-abuse / clone-abuse / blocking-async (C17).

Every literal the model depends on is read from /repo with `ast`: node-type names, method names,
substring needles, tables, the order of the classifiers, the `_matches_*` path patterns, the
`_should_skip_call` rules, option keys and defaults, rule ids, the `+ 1` of the reported line.
Small functions are matched against a *template* (a regex over `ast.unparse` of the body without
docstring): an edit that changes their shape makes the item fail closed.
"""
import ast
import re

from translator.lib import (Unsupported, coq_list, coq_str_list, coq_string, defn, dict_str_str, find_assign,
                            find_class, find_func, fstring_parts, parse, str_elems)

GEN_FILE = "RustSafetyGen"
HEADER = "From TL Require Import Lib.Base Lib.GenTypes Model.RustSafetyTypes."
SERVES = ["C17"]
CTX = "src/analyzers/rust_context.py"
UW = "src/linters/unwrap_abuse/"
CL = "src/linters/clone_abuse/"
BL = "src/linters/blocking_async/"
FINGERPRINTS = [
    (CTX, ["has_test_attribute", "has_cfg_test_attribute", "is_inside_test", "_is_test_context", "is_async_function", "_has_async_modifier"]),
    ("src/analyzers/rust_base.py", ["RustBaseAnalyzer"]),
    (UW + "rust_analyzer.py", ["RustUnwrapAnalyzer"]),
    (UW + "linter.py", ["UnwrapAbuseRule", "_build_violation_for_call"]),
    (CL + "rust_analyzer.py", ["RustCloneAnalyzer", "_get_field_expression", "_get_receiver_node", "_find_parent_let_declaration",
                               "_find_parent_block", "_identifier_used_after", "_node_contains_identifier", "_is_matching_identifier"]),
    (CL + "linter.py", ["CloneAbuseRule", "_should_skip_call", "_build_violation_for_call"]),
    (BL + "rust_analyzer.py", ["RustBlockingAsyncAnalyzer", "_classify_blocking_pattern", "_is_inside_blocking_wrapper", "_is_wrapper_call",
                               "_child_is_wrapper_name", "_node_text_matches_wrapper", "_scoped_name_matches_wrapper"]),
    (BL + "linter.py", ["BlockingAsyncRule", "_should_skip_call", "_build_violation_for_call"]),
    ("src/core/linter_utils.py", ["get_line_context"]),
]

S = r"'((?:[^'\\]|\\.)*)'"  # a single-quoted string literal as printed by ast.unparse


def body_text(rel: str, func: str, cls: str | None = None) -> str:
    scope = parse(rel)
    if cls:
        scope = find_class(scope, cls)
    f = find_func(scope, func)
    b = f.body
    if b and isinstance(b[0], ast.Expr) and isinstance(b[0].value, ast.Constant) and isinstance(b[0].value.value, str):
        b = b[1:]
    return "\n".join(ast.unparse(s) for s in b)


def tmpl(rel: str, func: str, pattern: str, cls: str | None = None):
    text = body_text(rel, func, cls)
    m = re.fullmatch(pattern, text)
    if not m:
        raise Unsupported(f"{rel}::{func} no longer has the expected shape: {text[:200]!r}")
    return m


def lit(s: str) -> str:
    return ast.literal_eval("'" + s + "'")


# ------------------------------------------------------------------ rust_context.py
# shape before def5e3f: the scan stops at the first sibling that is not of the one type it looks at
SIB_WALK_SINGLE = (r"prev_sibling = (\w+)\.prev_sibling\n"
                   r"while prev_sibling is not None and prev_sibling\.type == " + S + r":\n"
                   r"    if " + S + r" in _get_node_text\(prev_sibling\):\n"
                   r"        return True\n"
                   r"    prev_sibling = prev_sibling\.prev_sibling\n"
                   r"return False")
# current shape: the scan passes over every sibling type of a table and tests siblings of one type
SIB_WALK_TABLE = (r"prev_sibling = (\w+)\.prev_sibling\n"
                  r"while prev_sibling is not None and prev_sibling\.type in (\w+):\n"
                  r"    if prev_sibling\.type == " + S + r" and " + S + r" in _get_node_text\(prev_sibling\):\n"
                  r"        return True\n"
                  r"    prev_sibling = prev_sibling\.prev_sibling\n"
                  r"return False")


def _sib_walk(func):
    """(types the scan passes over, type it tests, needle) of has_test_attribute / has_cfg_test_attribute"""
    text = body_text(CTX, func)
    m = re.fullmatch(SIB_WALK_TABLE, text)
    if m:
        run = str_elems(find_assign(parse(CTX), m.group(2)))
        if lit(m.group(3)) not in run:
            raise Unsupported(f"{func}: tested sibling type is not in the run table")
        return run, lit(m.group(3)), lit(m.group(4))
    m = re.fullmatch(SIB_WALK_SINGLE, text)
    if m:
        return [lit(m.group(2))], lit(m.group(2)), lit(m.group(3))
    raise Unsupported(f"{CTX}::{func} no longer has an expected shape: {text[:200]!r}")


def ctx_attr_walks():
    tmpl(CTX, "_get_node_text", r"return node\.text\.decode\(\) if node\.text else ''")
    ra, ta, na = _sib_walk("has_test_attribute")
    rb, tb, nb = _sib_walk("has_cfg_test_attribute")
    return (defn("test_attr_run_types", "list string", coq_str_list(ra)) + defn("test_attr_sibling_type", "string", coq_string(ta))
            + defn("test_attr_needle", "string", coq_string(na))
            + defn("cfg_attr_run_types", "list string", coq_str_list(rb)) + defn("cfg_attr_sibling_type", "string", coq_string(tb))
            + defn("cfg_attr_needle", "string", coq_string(nb)))


def ctx_dispatch():
    tmpl(CTX, "is_inside_test", r"current: Node \| None = node\nwhile current is not None:\n    if _is_test_context\(current\):\n        return True\n"
                                r"    current = current\.parent\nreturn False")
    m = tmpl(CTX, "_is_test_context", r"if node\.type == " + S + r":\n    return has_test_attribute\(node\)\nif node\.type == " + S +
             r":\n    return has_cfg_test_attribute\(node\)\nreturn False")
    return defn("ctx_fn_type", "string", coq_string(lit(m.group(1)))) + defn("ctx_mod_type", "string", coq_string(lit(m.group(2))))


def ctx_async():
    a = tmpl(CTX, "is_async_function", r"return any\(\(child\.type == " + S + r" and _has_async_modifier\(child\) for child in node\.children\)\)")
    b = tmpl(CTX, "_has_async_modifier", r"return any\(\(modifier\.type == " + S + r" for modifier in modifiers_node\.children\)\)")
    tmpl("src/analyzers/rust_base.py", "is_inside_test", r"return rust_context\.is_inside_test\(node\)", cls="RustBaseAnalyzer")
    tmpl("src/analyzers/rust_base.py", "is_async_function", r"return rust_context\.is_async_function\(node\)", cls="RustBaseAnalyzer")
    return defn("async_modifiers_type", "string", coq_string(lit(a.group(1)))) + defn("async_token_type", "string", coq_string(lit(b.group(1))))


# ------------------------------------------------------------------ shared analyzer pieces
METHOD_NAME = (r"for child in call_node\.children:\n    if child\.type == " + S + r":\n        return self\._extract_field_identifier\(child\)\nreturn ''")
FIELD_IDENT = (r"for subchild in field_expr\.children:\n    if subchild\.type == " + S + r":\n        return self\.extract_node_text\(subchild\)\nreturn ''")


def _method_name_types(rel, cls):
    a = tmpl(rel, "_get_method_name", METHOD_NAME, cls)
    b = tmpl(rel, "_extract_field_identifier", FIELD_IDENT, cls)
    return lit(a.group(1)), lit(b.group(1))


def _offset(txt: str) -> int:
    """`node.start_point[0] + 1` -> 1 ; `node.start_point[0]` -> 0"""
    m = re.fullmatch(r"\w+\.start_point\[(\d)\](?: \+ (\d+))?", txt)
    if not m:
        raise Unsupported(f"position expression {txt!r}")
    return int(m.group(2) or 0)


def _point_index(txt: str) -> int:
    m = re.fullmatch(r"\w+\.start_point\[(\d)\](?: \+ (\d+))?", txt)
    if not m:
        raise Unsupported(f"position expression {txt!r}")
    return int(m.group(1))


def _position(prefix, line_txt, col_txt):
    if _point_index(line_txt) != 0 or _point_index(col_txt) != 1:
        raise Unsupported(f"{prefix}: line/column read from unexpected start_point components")
    return defn(prefix + "_line_offset", "nat", str(_offset(line_txt))) + defn(prefix + "_col_offset", "nat", str(_offset(col_txt)))


# ------------------------------------------------------------------ unwrap-abuse
def unwrap_find():
    m = tmpl(UW + "rust_analyzer.py", "_find_unwrap_recursive",
             r"if node\.type == " + S + r":\n    method_name = self\._get_method_name\(node\)\n    if method_name in \(([^)]*)\):\n"
             r"        calls\.append\(UnwrapCall\(line=([^,]+), column=([^,]+), method=method_name, is_in_test=self\.is_inside_test\(node\), "
             r"context=get_line_context\(code, node\.start_point\[0\]\)\)\)\n"
             r"for child in node\.children:\n    self\._find_unwrap_recursive\(child, code, calls\)", cls="RustUnwrapAnalyzer")
    methods = ast.literal_eval("(" + m.group(2).rstrip(", ") + ",)")
    if not all(isinstance(x, str) for x in methods):
        raise Unsupported("method tuple")
    fe, fi = _method_name_types(UW + "rust_analyzer.py", "RustUnwrapAnalyzer")
    return (defn("unwrap_call_type", "string", coq_string(lit(m.group(1)))) + defn("unwrap_methods", "list string", coq_str_list(list(methods)))
            + defn("unwrap_field_expr_type", "string", coq_string(fe)) + defn("unwrap_field_ident_type", "string", coq_string(fi))
            + _position("unwrap", m.group(3), m.group(4)))


def _atoms(cond: str) -> str:
    out = []
    for part in cond.split(" and "):
        part = part.strip()
        if part == "call.is_in_test":
            out.append("SkInTest")
        elif re.fullmatch(r"config\.(\w+)", part):
            out.append(f"SkCfg {coq_string(part.split('.')[1])}")
        elif re.fullmatch(r"call\.method == " + S, part):
            out.append(f"SkMethodIs {coq_string(lit(re.fullmatch(r'call.method == ' + S, part).group(1)))}")
        else:
            raise Unsupported(f"skip condition atom {part!r}")
    return coq_list(out)


def _skip_rules(rel, cls=None):
    """if A and B: return True ... [key = KEYS.get(call.pattern); if key and not getattr(config, key): return True] return False"""
    text = body_text(rel, "_should_skip_call", cls)
    rules = []
    rest = text
    while True:
        m = re.match(r"if ([^\n:]+):\n    return True\n", rest)
        if m and "getattr" not in m.group(1):
            rules.append(_atoms(m.group(1)))
            rest = rest[m.end():]
            continue
        m = re.match(r"config_key = _PATTERN_CONFIG_KEYS\.get\(call\.pattern\)\nif config_key and \(not getattr\(config, config_key\)\):\n    return True\n", rest)
        if m:
            rules.append("[SkPatternOff]")
            rest = rest[m.end():]
            continue
        break
    if rest != "return False" or not rules:
        raise Unsupported(f"{rel}::_should_skip_call no longer has the expected shape: {text[:200]!r}")
    return coq_list(rules)


def _builder(rel, builder):
    """(rule id, message prefix) of a violation builder: message = f"<prefix>{context}", line/column passed through"""
    f = find_func(parse(rel), builder)
    kws = [k for n in ast.walk(f) if isinstance(n, ast.Call) and isinstance(n.func, ast.Name) and n.func.id == "Violation"
           for k in n.keywords if k.arg in ("rule_id", "line", "column", "message")]
    got = {k.arg: k.value for k in kws}
    if set(got) != {"rule_id", "line", "column", "message"} or not isinstance(got["rule_id"], ast.Constant) or not isinstance(got["rule_id"].value, str):
        raise Unsupported(f"{builder}: Violation(rule_id=..., line=..., column=..., message=...)")
    if ast.unparse(got["line"]) != "line" or ast.unparse(got["column"]) != "column" or ast.unparse(got["message"]) != "message":
        raise Unsupported(f"{builder}: line/column/message are not passed through unchanged")
    args = [a.arg for a in f.args.args]
    if args[:4] != ["file_path", "line", "column", "context"]:
        raise Unsupported(f"{builder}: parameter order {args}")
    msgs = [st.value for st in f.body if isinstance(st, ast.Assign) and len(st.targets) == 1 and ast.unparse(st.targets[0]) == "message"]
    if len(msgs) != 1:
        raise Unsupported(f"{builder}: message assignment")
    parts = fstring_parts(msgs[0])
    if len(parts) != 2 or parts[0][0] != "lit" or parts[1] != ("var", "context"):
        raise Unsupported(f"{builder}: message is not f\"<text>{{context}}\"")
    return got["rule_id"].value, parts[0][1]


def _rule_id(rel, builder):
    return _builder(rel, builder)[0]


def line_context():
    """get_line_context: the stripped text of row `line_index` of code.split("\\n")"""
    m = tmpl("src/core/linter_utils.py", "get_line_context",
             r"lines = code\.split\(" + S + r"\)\nif 0 <= line_index < len\(lines\):\n    return lines\[line_index\]\.strip\(\)\nreturn ''")
    if lit(m.group(1)) != "\n":
        raise Unsupported("line separator")
    return defn("line_context_strips", "bool", "true")


def unwrap_linter():
    rules = _skip_rules(UW + "linter.py", "UnwrapAbuseRule")
    tmpl(UW + "linter.py", "_build_violations",
         r"return \[_build_violation_for_call\(call, file_path\) for call in calls if not self\._should_skip_call\(call, config\)\]", cls="UnwrapAbuseRule")
    m = tmpl(UW + "linter.py", "_build_violation_for_call",
             r"if call\.method == " + S + r":\n    return (\w+)\(file_path, call\.line, call\.column, call\.context\)\n"
             r"return (\w+)\(file_path, call\.line, call\.column, call\.context\)")
    return (defn("unwrap_skip_rules", "list (list skip_atom)", rules)
            + defn("unwrap_builder_method", "string", coq_string(lit(m.group(1))))
            + defn("unwrap_rule_then", "string", coq_string(_rule_id(UW + "violation_builder.py", m.group(2))))
            + defn("unwrap_rule_else", "string", coq_string(_rule_id(UW + "violation_builder.py", m.group(3))))
            + defn("unwrap_msg_then", "string", coq_string(_builder(UW + "violation_builder.py", m.group(2))[1]))
            + defn("unwrap_msg_else", "string", coq_string(_builder(UW + "violation_builder.py", m.group(3))[1])))


def _config(rel, cls, name):
    """(field, key, default) from `from_dict`, checked against the dataclass defaults"""
    c = find_class(parse(rel), cls)
    fields = {}
    for st in c.body:
        if isinstance(st, ast.AnnAssign) and isinstance(st.target, ast.Name) and isinstance(st.value, ast.Constant) and isinstance(st.value.value, bool):
            fields[st.target.id] = st.value.value
    f = find_func(c, "from_dict")
    calls = [n for n in ast.walk(f) if isinstance(n, ast.Call) and isinstance(n.func, ast.Name) and n.func.id == "cls"]
    if len(calls) != 1 or calls[0].args:
        raise Unsupported("from_dict: cls(...) call")
    out = []
    for kw in calls[0].keywords:
        v = kw.value
        if kw.arg == "ignore":
            continue
        if not (isinstance(v, ast.Call) and ast.unparse(v.func) == "config.get" and len(v.args) == 2 and isinstance(v.args[0], ast.Constant)
                and isinstance(v.args[1], ast.Constant) and isinstance(v.args[1].value, bool)):
            raise Unsupported(f"from_dict: {ast.unparse(kw)}")
        if kw.arg not in fields:
            raise Unsupported(f"from_dict sets unknown field {kw.arg}")
        if fields[kw.arg] != v.args[1].value:
            raise Unsupported(f"default of {kw.arg} differs between dataclass ({fields[kw.arg]}) and from_dict ({v.args[1].value})")
        out.append(f"({coq_string(kw.arg)}, ({coq_string(v.args[0].value)}, {'true' if v.args[1].value else 'false'}))")
    if {k for k in fields} - {"enabled"} - {x.arg for x in calls[0].keywords}:
        raise Unsupported("a boolean field is not read by from_dict")
    return defn(name, "list (string * (string * bool))", coq_list(out))


def unwrap_config():
    return _config(UW + "config.py", "UnwrapAbuseConfig", "unwrap_cfg")


# ------------------------------------------------------------------ clone-abuse
def clone_tables():
    v = find_assign(parse(CL + "rust_analyzer.py"), "_LOOP_NODE_TYPES")
    return defn("loop_node_types", "list string", coq_str_list(str_elems(v)))


def clone_find():
    r = CL + "rust_analyzer.py"
    m = tmpl(r, "_find_clone_recursive",
             r"if node\.type == " + S + r":\n    method_name = self\._get_method_name\(node\)\n    if method_name == " + S + r":\n"
             r"        pattern = self\._classify_clone\(node, code\)\n        if pattern is not None:\n"
             r"            calls\.append\(CloneCall\(line=([^,]+), column=([^,]+), pattern=pattern, is_in_test=self\.is_inside_test\(node\), "
             r"context=get_line_context\(code, node\.start_point\[0\]\)\)\)\n"
             r"for child in node\.children:\n    self\._find_clone_recursive\(child, code, calls\)", cls="RustCloneAnalyzer")
    fe, fi = _method_name_types(r, "RustCloneAnalyzer")
    ch = tmpl(r, "_is_chained_clone",
              r"field_expr = _get_field_expression\(node\)\nif field_expr is None:\n    return False\nreceiver = _get_receiver_node\(field_expr\)\n"
              r"if receiver is None or receiver\.type != " + S + r":\n    return False\nreturn self\._get_method_name\(receiver\) == " + S, cls="RustCloneAnalyzer")
    gf = tmpl(r, "_get_field_expression", r"for child in call_node\.children:\n    if child\.type == " + S + r":\n        return child\nreturn None")
    tmpl(r, "_get_receiver_node", r"children = field_expr\.children\nif children:\n    return children\[0\]\nreturn None")
    if lit(gf.group(1)) != fe:
        raise Unsupported("field expression type differs between helpers")
    return (defn("clone_call_type", "string", coq_string(lit(m.group(1)))) + defn("clone_method", "string", coq_string(lit(m.group(2))))
            + defn("clone_field_expr_type", "string", coq_string(fe)) + defn("clone_field_ident_type", "string", coq_string(fi))
            + defn("clone_chain_receiver_type", "string", coq_string(lit(ch.group(1)))) + defn("clone_chain_method", "string", coq_string(lit(ch.group(2))))
            + _position("clone", m.group(3), m.group(4)))


def clone_classify():
    r = CL + "rust_analyzer.py"
    text = body_text(r, "_classify_clone", "RustCloneAnalyzer")
    m = re.fullmatch(r"_ = code\n((?:if self\.\w+\(node\):\n    return " + S + r"\n)+)return None", text)
    if not m:
        raise Unsupported(f"_classify_clone shape: {text[:200]!r}")
    pairs = re.findall(r"if self\.(\w+)\(node\):\n    return " + S, m.group(1))
    tmpl(r, "_is_inside_loop", r"current: Node \| None = node\.parent\nwhile current is not None:\n    if current\.type in _LOOP_NODE_TYPES:\n        return True\n"
                               r"    current = current\.parent\nreturn False", cls="RustCloneAnalyzer")
    return defn("clone_classify_order", "list (string * string)", coq_list([f"({coq_string(a)}, {coq_string(lit(b))})" for a, b in pairs]))


def clone_unnecessary():
    r = CL + "rust_analyzer.py"
    tmpl(r, "_is_unnecessary_clone",
         r"let_node = _find_parent_let_declaration\(node\)\nif let_node is None:\n    return False\n"
         r"identifier = self\._get_clone_receiver_identifier\(node\)\nif identifier is None:\n    return False\n"
         r"block_node = _find_parent_block\(let_node\)\nif block_node is None:\n    return False\n"
         r"return not _identifier_used_after\(identifier, let_node, block_node\)", cls="RustCloneAnalyzer")
    a = tmpl(r, "_find_parent_let_declaration",
             r"current: Node \| None = node\.parent\nwhile current is not None:\n    if current\.type == " + S + r":\n        return current\n"
             r"    if current\.type in \(([^)]*)\):\n        return None\n    current = current\.parent\nreturn None")
    stops = ast.literal_eval("(" + a.group(2).rstrip(", ") + ",)")
    b = tmpl(r, "_find_parent_block",
             r"current: Node \| None = node\.parent\nwhile current is not None:\n    if current\.type == " + S + r":\n        return current\n"
             r"    current = current\.parent\nreturn None")
    c = tmpl(r, "_get_clone_receiver_identifier",
             r"field_expr = _get_field_expression\(node\)\nif field_expr is None:\n    return None\nreceiver = _get_receiver_node\(field_expr\)\n"
             r"if receiver is None:\n    return None\nif receiver\.type != " + S + r":\n    return None\nreturn self\.extract_node_text\(receiver\)", cls="RustCloneAnalyzer")
    tmpl(r, "_identifier_used_after",
         r"found_let = False\nfor child in block_node\.children:\n    if child\.id == let_node\.id:\n        found_let = True\n        continue\n"
         r"    if found_let and _node_contains_identifier\(child, identifier\):\n        return True\nreturn False")
    tmpl(r, "_node_contains_identifier",
         r"if _is_matching_identifier\(node, identifier\):\n    return True\nreturn any\(\(_node_contains_identifier\(child, identifier\) for child in node\.children\)\)")
    d = tmpl(r, "_is_matching_identifier",
             r"if node\.type != " + S + r":\n    return False\ntext = node\.text\nreturn text is not None and text\.decode\(\) == identifier")
    return (defn("let_node_type", "string", coq_string(lit(a.group(1)))) + defn("let_walk_stops", "list string", coq_str_list(list(stops)))
            + defn("let_block_type", "string", coq_string(lit(b.group(1)))) + defn("clone_receiver_ident_type", "string", coq_string(lit(c.group(1))))
            + defn("use_ident_type", "string", coq_string(lit(d.group(1)))))


def _pattern_dicts(rel, vb, prefix):
    mod = parse(rel)
    keys = dict_str_str(find_assign(mod, "_PATTERN_CONFIG_KEYS"))
    b = find_assign(mod, "_PATTERN_BUILDERS")
    if not isinstance(b, ast.Dict):
        raise Unsupported("_PATTERN_BUILDERS")
    rules = []
    for k, v in zip(b.keys, b.values):
        if not (isinstance(k, ast.Constant) and isinstance(k.value, str) and isinstance(v, ast.Name)):
            raise Unsupported("_PATTERN_BUILDERS entry")
        rules.append((k.value, _rule_id(vb, v.id), _builder(vb, v.id)[1]))
    m = tmpl(rel, "_build_violation_for_call",
             r"builder = _PATTERN_BUILDERS\.get\(call\.pattern, (\w+)\)\nreturn builder\(file_path, call\.line, call\.column, call\.context\)")
    tmpl(rel, "_build_violations", r"return \[_build_violation_for_call\(call, file_path\) for call in calls if not _should_skip_call\(call, config\)\]")
    return (defn(prefix + "_pattern_keys", "list (string * string)", coq_list([f"({coq_string(a)}, {coq_string(c)})" for a, c in keys]))
            + defn(prefix + "_pattern_rules", "list (string * string)", coq_list([f"({coq_string(a)}, {coq_string(c)})" for a, c, _ in rules]))
            + defn(prefix + "_default_rule", "string", coq_string(_rule_id(vb, m.group(1))))
            + defn(prefix + "_pattern_msgs", "list (string * string)", coq_list([f"({coq_string(a)}, {coq_string(c)})" for a, _, c in rules]))
            + defn(prefix + "_default_msg", "string", coq_string(_builder(vb, m.group(1))[1]))
            + defn(prefix + "_skip_rules", "list (list skip_atom)", _skip_rules(rel)))


def clone_linter():
    return _pattern_dicts(CL + "linter.py", CL + "violation_builder.py", "clone")


def clone_config():
    return _config(CL + "config.py", "CloneAbuseConfig", "clone_cfg")


# ------------------------------------------------------------------ blocking-async
def blocking_tables():
    mod = parse(BL + "rust_analyzer.py")
    return (defn("blocking_fs_functions", "list string", coq_str_list(str_elems(find_assign(mod, "_BLOCKING_FS_FUNCTIONS"))))
            + defn("blocking_net_types", "list string", coq_str_list(str_elems(find_assign(mod, "_BLOCKING_NET_TYPES"))))
            + defn("async_wrapper_functions", "list string", coq_str_list(str_elems(find_assign(mod, "_ASYNC_WRAPPER_FUNCTIONS")))))


TABLES = {"_BLOCKING_FS_FUNCTIONS": "blocking_fs_functions", "_BLOCKING_NET_TYPES": "blocking_net_types"}


def _conj_tests(expr: str):
    tests = []
    for part in expr.split(" and "):
        part = part.strip()
        if part.startswith("(") and part.endswith(")"):
            part = part[1:-1]
        m = re.fullmatch(r"parts\[(\d+)\] == " + S, part)
        if m:
            tests.append(f"({m.group(1)}, PEq {coq_string(lit(m.group(2)))})")
            continue
        m = re.fullmatch(r"parts\[(\d+)\] in (\w+)", part)
        if m and m.group(2) in TABLES:
            tests.append(f"({m.group(1)}, PIn {TABLES[m.group(2)]})")
            continue
        raise Unsupported(f"path test {part!r}")
    return tests


def _pat(minlen: str, conj: str) -> str:
    return f"{{| pp_min := {minlen}; pp_tests := {coq_list(_conj_tests(conj))} |}}"


def _path_pats(func: str) -> list[str]:
    """the alternatives a `_matches_*` helper accepts, each `len(parts) >= n and parts[i] == .. / in ..`"""
    text = body_text(BL + "rust_analyzer.py", func)
    m = re.fullmatch(r"if len\(parts\) < (\d+):\n    return False\nreturn ([^\n]+)", text)
    if m:
        return [_pat(m.group(1), m.group(2))]
    m = re.fullmatch(r"if len\(parts\) >= (\d+) and ([^\n]+):\n    return True\nreturn False", text)
    if m:
        return [_pat(m.group(1), m.group(2))]
    m = re.fullmatch(r"if len\(parts\) >= (\d+) and ([^\n]+):\n    return True\nreturn len\(parts\) >= (\d+) and ([^\n]+)", text)
    if m:
        return [_pat(m.group(1), m.group(2)), _pat(m.group(3), m.group(4))]
    raise Unsupported(f"{func} no longer has an expected shape: {text[:160]!r}")


def blocking_classes():
    r = BL + "rust_analyzer.py"
    text = body_text(r, "_classify_blocking_pattern")
    m = re.fullmatch(r"((?:if \w+\(path\):\n    return " + S + r"\n)+)return None", text)
    if not m:
        raise Unsupported(f"_classify_blocking_pattern shape: {text[:200]!r}")
    classes = []
    for pred, pat in re.findall(r"if (\w+)\(path\):\n    return " + S, m.group(1)):
        p = tmpl(r, pred, r"parts = path\.split\(" + S + r"\)\nreturn ((?:\w+\(parts\))(?: or \w+\(parts\))*)")
        if lit(p.group(1)) != "::":
            raise Unsupported(f"{pred}: separator {p.group(1)!r}")
        pats = [x for fn in re.findall(r"(\w+)\(parts\)", p.group(2)) for x in _path_pats(fn)]
        classes.append(f"({coq_string(lit(pat))}, {coq_list(pats)})")
    return defn("blocking_classes", "list (string * list path_pat)", coq_list(classes))


def blocking_scan():
    r, c = BL + "rust_analyzer.py", "RustBlockingAsyncAnalyzer"
    a = tmpl(r, "_scan_for_blocking_calls",
             r"if node\.type == " + S + r" and self\._is_in_async_context\(node\):\n    blocking_call = self\._check_blocking_call\(node, code\)\n"
             r"    if blocking_call is not None:\n        calls\.append\(blocking_call\)\n"
             r"for child in node\.children:\n    self\._scan_for_blocking_calls\(child, code, calls\)", cls=c)
    b = tmpl(r, "_is_in_async_context",
             r"current: Node \| None = node\.parent\nwhile current is not None:\n    if current\.type == " + S + r" and self\.is_async_function\(current\):\n"
             r"        return True\n    current = current\.parent\nreturn False", cls=c)
    d = tmpl(r, "_check_blocking_call",
             r"path = self\._extract_call_path\(call_node\)\nif not path:\n    return None\npattern = _classify_blocking_pattern\(path\)\n"
             r"if pattern is None:\n    return None\nif _is_inside_blocking_wrapper\(call_node\):\n    return None\n"
             r"return BlockingCall\(line=([^,]+), column=([^,]+), pattern=pattern, is_in_test=self\.is_inside_test\(call_node\), "
             r"context=get_line_context\(code, call_node\.start_point\[0\]\), blocking_api=path\)", cls=c)
    e = tmpl(r, "_extract_call_path", r"for child in call_node\.children:\n    if child\.type == " + S + r":\n        return self\.extract_node_text\(child\)\nreturn ''", cls=c)
    return (defn("blocking_call_type", "string", coq_string(lit(a.group(1)))) + defn("async_fn_type", "string", coq_string(lit(b.group(1))))
            + defn("call_path_type", "string", coq_string(lit(e.group(1)))) + _position("blocking", d.group(1), d.group(2)))


def blocking_wrapper():
    r = BL + "rust_analyzer.py"
    tmpl(r, "_is_inside_blocking_wrapper",
         r"current: Node \| None = node\.parent\nwhile current is not None:\n    if _is_wrapper_call\(current\):\n        return True\n"
         r"    current = current\.parent\nreturn False")
    a = tmpl(r, "_is_wrapper_call", r"if node\.type != " + S + r":\n    return False\nreturn any\(\(_child_is_wrapper_name\(child\) for child in node\.children\)\)")
    b = tmpl(r, "_child_is_wrapper_name",
             r"if child\.type == " + S + r":\n    return _node_text_matches_wrapper\(child\)\nif child\.type == " + S +
             r":\n    return _scoped_name_matches_wrapper\(child\)\nreturn False")
    tmpl(r, "_node_text_matches_wrapper", r"text = node\.text\nreturn text is not None and text\.decode\(\) in _ASYNC_WRAPPER_FUNCTIONS")
    c = tmpl(r, "_scoped_name_matches_wrapper",
             r"text = node\.text\nif text is None:\n    return False\nfunc_name = text\.decode\(\)\.split\(" + S + r"\)\[-1\]\nreturn func_name in _ASYNC_WRAPPER_FUNCTIONS")
    if lit(c.group(1)) != "::":
        raise Unsupported("wrapper name separator")
    return (defn("wrapper_call_type", "string", coq_string(lit(a.group(1)))) + defn("wrapper_ident_type", "string", coq_string(lit(b.group(1))))
            + defn("wrapper_scoped_type", "string", coq_string(lit(b.group(2)))))


def blocking_linter():
    return _pattern_dicts(BL + "linter.py", BL + "violation_builder.py", "blocking")


def blocking_config():
    return _config(BL + "config.py", "BlockingAsyncConfig", "blocking_cfg")


# ------------------------------------------------------------------ the gate in front of the three analyzers
def analyze_gate():
    """check(): config, gate, analyzer, violations; _should_analyze: language, content, config.<enabled>, ignore patterns"""
    fields, langs = set(), set()
    for rel, cls, finder in ((UW + "linter.py", "UnwrapAbuseRule", "find_unwrap_calls"), (CL + "linter.py", "CloneAbuseRule", "find_clone_calls"),
                             (BL + "linter.py", "BlockingAsyncRule", "find_blocking_calls")):
        tmpl(rel, "check", r"config = self\._get_config\(context\)\nif not self\._should_analyze\(context, config\):\n    return \[\]\n"
                           r"file_path = resolve_file_path\(context\)\ncalls = self\._analyzer\." + finder + r"\(context\.file_content or ''\)\n"
                           r"return self\._build_violations\(calls, config, file_path\)", cls=cls)
        m = tmpl(rel, "_should_analyze", r"if context\.language != " + S + r":\n    return False\nif not has_file_content\(context\):\n    return False\n"
                                         r"if not config\.(\w+):\n    return False\nreturn not is_ignored_path\(resolve_file_path\(context\), config\.ignore\)", cls=cls)
        langs.add(lit(m.group(1)))
        fields.add(m.group(2))
    if len(fields) != 1 or len(langs) != 1:
        raise Unsupported(f"the three gates differ: {sorted(fields)} {sorted(langs)}")
    return defn("analyze_language", "string", coq_string(langs.pop())) + defn("analyze_enabled_field", "string", coq_string(fields.pop()))


ITEMS = [
    ("line_context", line_context),
    ("ctx_attr_walks", ctx_attr_walks),
    ("ctx_dispatch", ctx_dispatch),
    ("ctx_async", ctx_async),
    ("unwrap_find", unwrap_find),
    ("unwrap_linter", unwrap_linter),
    ("unwrap_config", unwrap_config),
    ("clone_tables", clone_tables),
    ("clone_find", clone_find),
    ("clone_classify", clone_classify),
    ("clone_unnecessary", clone_unnecessary),
    ("clone_linter", clone_linter),
    ("clone_config", clone_config),
    ("blocking_tables", blocking_tables),
    ("blocking_classes", blocking_classes),
    ("blocking_scan", blocking_scan),
    ("blocking_wrapper", blocking_wrapper),
    ("blocking_linter", blocking_linter),
    ("blocking_config", blocking_config),
    ("analyze_gate", analyze_gate),
]
