"""Generated layer for the long-lived orchestrator / entry-point agreement models (C08, C10).

What is read from /repo with `ast` (never imported), fail-closed:
  * which Orchestrator entry points run the rules' finalize() loop and in what guard order lint_file skips files;
  * which attributes DRYRule.finalize / StringlyTypedRule.finalize reset (the cross-file state that survives a run
    is exactly what is NOT in these lists);
  * how Linter._lint_path and cli.utils.execute_linting_on_paths dispatch files / directories to entry points,
    the API's rule filter operator, every per-command rule_id filter of src/cli/linters/*.py;
  * the memoisation keys of IgnoreDirectiveParser._ignore_cache / FilePlacementRule._linter_cache / get_ignore_parser;
  * the two DRY SQL queries whose ORDER BY / HAVING clauses make the block report insensitive to insertion order.
"""
import ast
import re

from translator.lib import (Unsupported, coq_list, coq_str_list, coq_string, defn, find_class, find_func, parse)

GEN_FILE = "OrchHistGen"
HEADER = "From TL Require Import Lib.Base Lib.GenTypes."
SERVES = ["C08", "C10"]
CORE = "src/orchestrator/core.py"
API = "src/api.py"
UTILS = "src/cli/utils.py"
DRY = "src/linters/dry/linter.py"
ST = "src/linters/stringly_typed/linter.py"
IGN = "src/linter_config/ignore.py"
FP = "src/linters/file_placement/linter.py"
CM = "src/linters/dry/constant_matcher.py"
FINGERPRINTS = [
    (CORE, ["lint_file", "lint_files", "lint_directory", "_execute_rules", "_safe_check_rule", "_get_rules_for_file",
            "_collect_files_fast", "_collect_files_from_walk", "_is_hardcoded_excluded", "_should_include_dir", "FileLintContext"]),
    (API, ["Linter"]),
    (UTILS, ["execute_linting_on_paths", "separate_files_and_dirs", "setup_base_orchestrator", "get_or_detect_project_root"]),
    (DRY, ["DRYRule"]),
    ("src/linters/dry/cache.py", ["DRYCache"]),
    ("src/linters/dry/cache_query.py", ["CacheQueryService"]),
    ("src/linters/dry/inline_ignore.py", ["InlineIgnoreParser"]),
    ("src/linters/dry/constant_violation_builder.py", ["_format_locations_text", "_get_other_locations", "_format_message"]),
    (CM, ["UnionFind", "find_constant_groups", "_merge_fuzzy_groups", "_is_fuzzy_match", "_group_by_exact_name", "_union_matching_pairs",
          "_build_merged_groups"]),
    (ST, ["StringlyTypedRule"]),
    ("src/linters/stringly_typed/storage.py", ["StringlyTypedStorage"]),
    (IGN, ["IgnoreDirectiveParser", "get_ignore_parser", "_load_repo_ignores"]),
    (FP, ["FilePlacementRule"]),
]


def _body(fn):
    b = list(fn.body)
    if b and isinstance(b[0], ast.Expr) and isinstance(b[0].value, ast.Constant) and isinstance(b[0].value.value, str):
        b = b[1:]
    return b


def _is_finalize_loop(st) -> bool:
    """for rule in self.registry.list_all(): violations.extend(rule.finalize())"""
    if not isinstance(st, ast.For) or st.orelse or len(st.body) != 1:
        return False
    if ast.unparse(st.iter) != "self.registry.list_all()" or not isinstance(st.target, ast.Name):
        return False
    return ast.unparse(st.body[0]) == f"violations.extend({st.target.id}.finalize())"


def _perfile_loop(st):
    """for x in <iter>: violations.extend(self.lint_file(x))  ->  text of <iter>"""
    if not isinstance(st, ast.For) or st.orelse or len(st.body) != 1 or not isinstance(st.target, ast.Name):
        return None
    if ast.unparse(st.body[0]) != f"violations.extend(self.lint_file({st.target.id}))":
        return None
    return ast.unparse(st.iter)


def entry_points():
    """shape of Orchestrator.lint_files / lint_directory / lint_file"""
    cls = find_class(parse(CORE), "Orchestrator")
    fin = []
    loops = []
    for name in ("lint_files", "lint_directory"):
        f = find_func(cls, name)
        body = _body(f)
        n_final = sum(1 for n in ast.walk(f) if isinstance(n, ast.Attribute) and n.attr == "finalize")
        top_final = [i for i, st in enumerate(body) if _is_finalize_loop(st)]
        if n_final != len(top_final) or len(top_final) > 1:
            raise Unsupported(f"{name}: finalize() is called in an unexpected place ({n_final} calls, {len(top_final)} top-level loops)")
        per = [(i, _perfile_loop(st)) for i, st in enumerate(body) if _perfile_loop(st) is not None]
        n_lf = sum(1 for n in ast.walk(f) if isinstance(n, ast.Attribute) and n.attr == "lint_file")
        if len(per) != 1 or n_lf != 1:
            raise Unsupported(f"{name}: expected exactly one per-file loop calling self.lint_file")
        if top_final and top_final[0] < per[0][0]:
            raise Unsupported(f"{name}: finalize loop precedes the per-file loop")
        if not (isinstance(body[-1], ast.Return) and ast.unparse(body[-1].value) == "violations"):
            raise Unsupported(f"{name}: does not return the accumulated violations")
        it = per[0][1]
        if name == "lint_directory":
            # file_paths = _collect_files_fast(dir_path, recursive); for file_path in file_paths
            assigns = [st for st in body if isinstance(st, ast.Assign) and ast.unparse(st.targets[0]) == it]
            if len(assigns) != 1:
                raise Unsupported("lint_directory: iterated collection is not a single assignment")
            it = ast.unparse(assigns[0].value)
        loops.append((name, it))
        fin.append((name, bool(top_final)))
    f = find_func(cls, "lint_file")
    if any(isinstance(n, ast.Attribute) and n.attr == "finalize" for n in ast.walk(f)):
        raise Unsupported("lint_file calls finalize")
    fin.insert(0, ("lint_file", False))
    guards = []
    body = _body(f)
    for st in body:
        if isinstance(st, ast.If) and not st.orelse and len(st.body) == 1 and isinstance(st.body[0], ast.Return) \
                and ast.unparse(st.body[0].value) == "[]" and isinstance(st.test, ast.Call):
            # the guard looks at the path as given, or at the path made relative to the project root
            if [ast.unparse(a) for a in st.test.args] not in (["file_path"], ["self._path_inside_project(file_path)"]) or st.test.keywords:
                raise Unsupported("lint_file: guard is not a predicate of file_path alone")
            fn = st.test.func
            guards.append(fn.attr if isinstance(fn, ast.Attribute) else ast.unparse(fn))
        else:
            break
    rest = body[len(guards):]
    if any(isinstance(n, ast.Return) and n is not rest[-1] for st in rest for n in ast.walk(st)):
        raise Unsupported("lint_file: further early returns")
    if ast.unparse(rest[-1]) != "return self._execute_rules(rules, context)":
        raise Unsupported("lint_file: unexpected tail")
    out = defn("entry_finalize", "list (string * bool)",
               coq_list([f"({coq_string(n)}, {'true' if b else 'false'})" for n, b in fin]))
    out += defn("entry_iterates", "list (string * string)", coq_list([f"({coq_string(n)}, {coq_string(i)})" for n, i in loops]))
    out += defn("lint_file_guards", "list string", coq_str_list(guards))
    return out


def _self_resets(fn) -> list[str]:
    """attributes reset at the top level of a finalize(): `self.X = <None/False/[]/{}>`, `<...>.Y.clear()`, `self.X.close()`"""
    out = []
    for st in _body(fn):
        if isinstance(st, ast.Assign) and len(st.targets) == 1 and isinstance(st.targets[0], ast.Attribute) \
                and ast.unparse(st.targets[0].value) == "self":
            v = st.value
            empty = (isinstance(v, ast.Constant) and v.value in (None, False)) or \
                    (isinstance(v, (ast.List, ast.Dict, ast.Set, ast.Tuple)) and not (getattr(v, "elts", None) or getattr(v, "keys", None)))
            if not empty:
                raise Unsupported(f"finalize assigns a non-empty value: {ast.unparse(st)}")
            out.append(st.targets[0].attr)
        elif isinstance(st, ast.Expr) and isinstance(st.value, ast.Call) and isinstance(st.value.func, ast.Attribute) \
                and st.value.func.attr in ("clear", "close") and not st.value.args:
            tgt = st.value.func.value
            if isinstance(tgt, ast.Attribute):
                out.append(("close:" if st.value.func.attr == "close" else "") + tgt.attr)
            else:
                raise Unsupported(f"finalize: unexpected call {ast.unparse(st)}")
    return out


def _check_finalize_shape(fn, guard: str):
    """first statement `if <guard>: return []`; exactly one other return, the last statement, returning `violations`;
    resets only after the report has been computed (no reset before the last use of the state)"""
    body = _body(fn)
    st0 = body[0]
    if not (isinstance(st0, ast.If) and ast.unparse(st0.test) == guard and ast.unparse(st0.body[0]) == "return []" and not st0.orelse):
        raise Unsupported(f"finalize: unexpected guard {ast.unparse(st0.test) if isinstance(st0, ast.If) else ast.unparse(st0)[:40]}")
    if ast.unparse(body[-1]) != "return violations":
        raise Unsupported("finalize: unexpected tail")
    rets = [n for st in body[1:] for n in ast.walk(st) if isinstance(n, ast.Return)]
    if len(rets) != 1:
        raise Unsupported("finalize: several returns")
    seen_reset = False
    for st in body[1:-1]:
        is_reset = (isinstance(st, ast.Assign) and isinstance(st.targets[0], ast.Attribute) and ast.unparse(st.targets[0].value) == "self") or \
                   (isinstance(st, ast.Expr) and isinstance(st.value, ast.Call) and isinstance(st.value.func, ast.Attribute)
                    and st.value.func.attr in ("clear", "close"))
        if is_reset:
            seen_reset = True
        elif seen_reset:
            raise Unsupported("finalize: state is used after a reset")


def dry_finalize():
    fn = find_func(find_class(parse(DRY), "DRYRule"), "finalize")
    _check_finalize_shape(fn, "not self._storage or not self._config")
    return defn("dry_finalize_resets", "list string", coq_str_list(_self_resets(fn)))


def st_finalize():
    fn = find_func(find_class(parse(ST), "StringlyTypedRule"), "finalize")
    _check_finalize_shape(fn, "not self._storage or not self._config")
    return defn("st_finalize_resets", "list string", coq_str_list(_self_resets(fn)))


def dry_check_shape():
    """DRYRule.check returns [] on every path (all DRY findings come from finalize) and stores evidence unconditionally
    once the file is processable and the linter enabled; `self._config = self._config or config` (sticky config)"""
    cls = find_class(parse(DRY), "DRYRule")
    fn = find_func(cls, "check")
    rets = [ast.unparse(n.value) for n in ast.walk(fn) if isinstance(n, ast.Return)]
    if set(rets) != {"[]"}:
        raise Unsupported(f"DRYRule.check returns {rets}")
    sticky = [ast.unparse(st) for st in _body(fn) if isinstance(st, ast.Assign) and ast.unparse(st.targets[0]) == "self._config"]
    if len(sticky) != 1:
        raise Unsupported("DRYRule.check: config assignment")
    init = find_func(cls, "__init__")
    attrs = [st.target.attr if isinstance(st, ast.AnnAssign) else st.targets[0].attr for st in _body(init)
             if isinstance(st, (ast.Assign, ast.AnnAssign)) and isinstance(st.target if isinstance(st, ast.AnnAssign) else st.targets[0], ast.Attribute)]
    return (defn("dry_config_assignment", "string", coq_string(sticky[0]))
            + defn("dry_state_attrs", "list string", coq_str_list(attrs)))


def st_state():
    cls = find_class(parse(ST), "StringlyTypedRule")
    init = find_func(cls, "__init__")
    attrs = [st.target.attr if isinstance(st, ast.AnnAssign) else st.targets[0].attr for st in _body(init)
             if isinstance(st, (ast.Assign, ast.AnnAssign)) and isinstance(st.target if isinstance(st, ast.AnnAssign) else st.targets[0], ast.Attribute)]
    for name in ("_check_python", "_check_typescript"):
        fn = find_func(cls, name)
        rets = [ast.unparse(n.value) for n in ast.walk(fn) if isinstance(n, ast.Return)]
        if set(rets) != {"[]"}:
            raise Unsupported(f"StringlyTypedRule.{name} returns {rets}")
    return defn("st_state_attrs", "list string", coq_str_list(attrs))


def api_dispatch():
    cls = find_class(parse(API), "Linter")
    f = find_func(cls, "_lint_path")
    pairs = []
    rec = None
    body = _body(f)
    for st in body[:-1]:
        if not (isinstance(st, ast.If) and not st.orelse and len(st.body) == 1 and isinstance(st.body[0], ast.Return)):
            raise Unsupported("_lint_path: unexpected statement")
        t = st.test
        if not (isinstance(t, ast.Call) and isinstance(t.func, ast.Attribute) and ast.unparse(t.func.value) == "path_obj" and not t.args):
            raise Unsupported("_lint_path: unexpected test")
        call = st.body[0].value
        if not (isinstance(call, ast.Call) and isinstance(call.func, ast.Attribute) and ast.unparse(call.func.value) == "self.orchestrator"
                and call.args and ast.unparse(call.args[0]) == ("[path_obj]" if call.func.attr == "lint_files" else "path_obj")):
            raise Unsupported("_lint_path: unexpected call")
        pairs.append((t.func.attr, call.func.attr))
        for kw in call.keywords:
            if kw.arg == "recursive":
                if not isinstance(kw.value, ast.Constant) or not isinstance(kw.value.value, bool):
                    raise Unsupported("_lint_path: recursive is not a literal")
                rec = kw.value.value
            else:
                raise Unsupported("_lint_path: unexpected keyword")
        if len(call.args) != 1:
            raise Unsupported("_lint_path: extra positional arguments")
    if ast.unparse(body[-1]) != "return []":
        raise Unsupported("_lint_path: tail")
    if rec is None:
        raise Unsupported("_lint_path: no recursive keyword")
    lint = find_func(cls, "lint")
    lb = _body(lint)
    missing = [st for st in lb if isinstance(st, ast.If) and ast.unparse(st.test) == "not path_obj.exists()" and ast.unparse(st.body[0]) == "return []"]
    if len(missing) != 1:
        raise Unsupported("lint: missing-path guard")
    if ast.unparse(lb[-1]) != "return self._filter_violations(violations, rules)" or \
            not any(ast.unparse(st) == "violations = self._lint_path(path_obj)" for st in lb):
        raise Unsupported("lint: unexpected body")
    flt = find_func(cls, "_filter_violations")
    fb = _body(flt)
    if not (len(fb) == 2 and isinstance(fb[0], ast.If) and ast.unparse(fb[0].test) == "rules" and ast.unparse(fb[1]) == "return violations"):
        raise Unsupported("_filter_violations: shape")
    comp = fb[0].body[0].value
    if not (isinstance(comp, ast.ListComp) and ast.unparse(comp.elt) == "v" and len(comp.generators) == 1
            and ast.unparse(comp.generators[0].iter) == "violations" and len(comp.generators[0].ifs) == 1):
        raise Unsupported("_filter_violations: comprehension")
    cond = comp.generators[0].ifs[0]
    if not (isinstance(cond, ast.Compare) and len(cond.ops) == 1 and ast.unparse(cond.left) == "v.rule_id" and ast.unparse(cond.comparators[0]) == "rules"):
        raise Unsupported("_filter_violations: condition")
    op = {ast.In: "FIn", ast.NotIn: "FNotIn"}.get(type(cond.ops[0]))
    if op is None:
        raise Unsupported("_filter_violations: operator")
    ctor = find_func(cls, "__init__")
    if not any(ast.unparse(st) == "self.orchestrator = Orchestrator(project_root=self.project_root, config=self.config)" for st in _body(ctor)):
        raise Unsupported("Linter.__init__: orchestrator construction")
    return (defn("api_dispatch", "list (string * string)", coq_list([f"({coq_string(a)}, {coq_string(b)})" for a, b in pairs]))
            + defn("api_dir_recursive", "bool", "true" if rec else "false")
            + defn("api_rules_filter", "string", coq_string(op)))


def cli_dispatch():
    f = find_func(parse(UTILS), "execute_linting_on_paths")
    body = _body(f)
    files_entry = dirs_entry = None
    guard = None
    for st in body:
        if isinstance(st, ast.If) and ast.unparse(st.test) == "files":
            guard = "files"
            inner = st.body[0]
            if not (isinstance(inner, ast.If) and ast.unparse(inner.test) == "parallel"):
                raise Unsupported("execute_linting_on_paths: files branch")
            call = inner.orelse[0].value.args[0]
            if ast.unparse(call.args[0]) != "files" or len(call.args) != 1 or call.keywords:
                raise Unsupported("execute_linting_on_paths: files call")
            files_entry = call.func.attr
        if isinstance(st, ast.For) and ast.unparse(st.iter) == "dirs":
            inner = st.body[0]
            if not (isinstance(inner, ast.If) and ast.unparse(inner.test) == "parallel"):
                raise Unsupported("execute_linting_on_paths: dirs branch")
            call = inner.orelse[0].value.args[0]
            if ast.unparse(call.args[0]) != st.target.id or [k.arg for k in call.keywords] != ["recursive"] or ast.unparse(call.keywords[0].value) != "recursive":
                raise Unsupported("execute_linting_on_paths: dirs call")
            dirs_entry = call.func.attr
    if not files_entry or not dirs_entry or guard != "files":
        raise Unsupported("execute_linting_on_paths: dispatch not found")
    order = [("files" if isinstance(st, ast.If) else "dirs") for st in body if (isinstance(st, ast.If) and ast.unparse(st.test) == "files") or (isinstance(st, ast.For) and ast.unparse(st.iter) == "dirs")]
    if order != ["files", "dirs"] or ast.unparse(body[-1]) != "return violations":
        raise Unsupported("execute_linting_on_paths: order")
    sep = find_func(parse(UTILS), "separate_files_and_dirs")
    sb = [ast.unparse(st) for st in _body(sep)]
    if sb != ["files = [p for p in path_objs if p.is_file()]", "dirs = [p for p in path_objs if p.is_dir()]", "return (files, dirs)"]:
        raise Unsupported("separate_files_and_dirs: shape")
    return (defn("cli_files_entry", "string", coq_string(files_entry)) + defn("cli_dirs_entry", "string", coq_string(dirs_entry)))


def cli_filters():
    """every `[v for v in <xs> if <pred on v.rule_id>]` in src/cli/linters/*.py, keyed by the enclosing function"""
    from translator.lib import REPO
    rows = []
    for p in sorted((REPO / "src/cli/linters").glob("*.py")):
        rel = f"src/cli/linters/{p.name}"
        mod = parse(rel)
        for fn in ast.walk(mod):
            if not isinstance(fn, (ast.FunctionDef, ast.AsyncFunctionDef)):
                continue
            for n in ast.walk(fn):
                if not (isinstance(n, ast.ListComp) and len(n.generators) == 1 and n.generators[0].ifs):
                    continue
                g = n.generators[0]
                if not any("rule_id" in ast.unparse(c) for c in g.ifs):
                    continue
                if len(g.ifs) != 1 or ast.unparse(n.elt) != ast.unparse(g.target):
                    raise Unsupported(f"{rel}:{fn.name}: unexpected filter comprehension")
                c = g.ifs[0]
                v = ast.unparse(g.target)
                if isinstance(c, ast.Call) and isinstance(c.func, ast.Attribute) and c.func.attr == "startswith" and ast.unparse(c.func.value) == f"{v}.rule_id" and len(c.args) == 1:
                    kind, needle = "FStartswith", c.args[0]
                elif isinstance(c, ast.Compare) and len(c.ops) == 1 and isinstance(c.ops[0], ast.In) and ast.unparse(c.comparators[0]) == f"{v}.rule_id":
                    kind, needle = "FContains", c.left
                elif isinstance(c, ast.Compare) and len(c.ops) == 1 and isinstance(c.ops[0], ast.Eq) and ast.unparse(c.left) == f"{v}.rule_id":
                    kind, needle = "FEquals", c.comparators[0]
                else:
                    raise Unsupported(f"{rel}:{fn.name}: unsupported rule_id predicate {ast.unparse(c)}")
                if isinstance(needle, ast.Constant) and isinstance(needle.value, str):
                    rows.append((fn.name, kind, needle.value))
                elif isinstance(needle, ast.Name):
                    rows.append((fn.name, kind + "Param", needle.id))
                else:
                    raise Unsupported(f"{rel}:{fn.name}: needle {ast.unparse(needle)}")
    if len(rows) < 10:
        raise Unsupported(f"only {len(rows)} CLI filters found")
    return defn("cli_filters", "list (string * string * string)",
                coq_list([f"({coq_string(a)}, {coq_string(k)}, {coq_string(s)})" for a, k, s in rows]))


def cache_keys():
    cls = find_class(parse(IGN), "IgnoreDirectiveParser")
    f = find_func(cls, "is_ignored")
    src = [ast.unparse(st) for st in _body(f)]
    if src[0] != "path_str = str(file_path)" or "self._ignore_cache[path_str] = result" not in src or src[-1] != "return result":
        raise Unsupported("is_ignored: cache key / store shape changed")
    if not any(isinstance(st, ast.With) and "return self._ignore_cache[path_str]" in ast.unparse(st) for st in _body(f)):
        raise Unsupported("is_ignored: cache lookup shape changed")
    res = [st for st in _body(f) if isinstance(st, ast.Assign) and ast.unparse(st.targets[0]) == "result"]
    if len(res) != 1 or ast.unparse(res[0].value) != "any((matches_pattern(check_path, p) for p in self.repo_patterns))":
        raise Unsupported("is_ignored: result expression changed")
    g = find_func(parse(IGN), "get_ignore_parser")
    conds = [ast.unparse(n.test) for n in ast.walk(g) if isinstance(n, ast.If)]
    if conds != ["_CACHED_PARSER is None or _CACHED_PROJECT_ROOT != effective_root"]:
        raise Unsupported(f"get_ignore_parser: cache condition {conds}")
    fp = find_func(find_class(parse(FP), "FilePlacementRule"), "_get_or_create_linter")
    fsrc = ast.unparse(fp)
    if "return self._linter_cache[project_root]" not in fsrc or "self._linter_cache[project_root] = linter" not in fsrc:
        raise Unsupported("_get_or_create_linter: cache key changed")
    return (defn("ignore_cache_key", "string", coq_string("str(file_path)"))
            + defn("ignore_parser_singleton_key", "string", coq_string("effective_root"))
            + defn("fp_linter_cache_key", "string", coq_string("project_root")))


def _sql(fn) -> str:
    hits = [n.value for n in ast.walk(fn) if isinstance(n, ast.Constant) and isinstance(n.value, str) and "SELECT" in n.value]
    if len(hits) != 1:
        raise Unsupported("SQL text")
    return re.sub(r"\s+", " ", hits[0]).strip()


def dry_sql():
    cls = find_class(parse("src/linters/dry/cache_query.py"), "CacheQueryService")
    a = _sql(find_func(cls, "get_duplicate_hashes"))
    b = _sql(find_func(cls, "find_blocks_by_hash"))
    return defn("dry_sql_duplicate_hashes", "string", coq_string(a)) + defn("dry_sql_blocks_by_hash", "string", coq_string(b))


def const_refs():
    """constant-duplicate messages list the other locations in list order (= order in which files were processed)"""
    mod = parse("src/linters/dry/constant_violation_builder.py")
    f = find_func(mod, "_format_locations_text")
    src = ast.unparse(f)
    m = re.search(r"for loc in (others\[:MAX_DISPLAYED_LOCATIONS\]|sorted\(.*?\)\[:MAX_DISPLAYED_LOCATIONS\])", src)
    if not m:
        raise Unsupported("_format_locations_text: shape")
    sorted_refs = m.group(1).startswith("sorted(")
    return defn("dry_const_refs_sorted", "bool", "true" if sorted_refs else "false")


# the fuzzy grouping of constant names, statement by statement (ast.unparse of each body without its docstring); H_DIR is the one
# hole: which root is attached under which.  Any other change of shape fails closed (Model/OrchConsts.v transcribes exactly this)
CM_TEMPLATES = {
    ("UnionFind", "__init__"): ["self._parent = {item: item for item in items}"],
    ("UnionFind", "find"): ["if self._parent[x] != x:\n    self._parent[x] = self.find(self._parent[x])", "return self._parent[x]"],
    ("UnionFind", "union"): ["px, py = (self.find(x), self.find(y))", "H_DIR"],
    (None, "find_constant_groups"): ["if not constants:\n    return []", "locations = _build_locations(constants)",
                                     "exact_groups = _group_by_exact_name(locations)", "return _merge_fuzzy_groups(exact_groups)"],
    (None, "_merge_fuzzy_groups"): ["names = list(groups.keys())", "uf = UnionFind(names)", "_union_matching_pairs(names, uf, _is_fuzzy_match)",
                                    "return _build_merged_groups(names, groups, uf)"],
    (None, "_is_fuzzy_match"): ["if name1 == name2:\n    return True", "return _is_fuzzy_similar(name1, name2)"],
    (None, "_group_by_exact_name"): ["groups: dict[str, ConstantGroup] = {}",
                                     "for loc in locations:\n    if loc.name not in groups:\n        groups[loc.name] = ConstantGroup(canonical_name=loc.name, "
                                     "locations=[], all_names=set(), is_fuzzy_match=False)\n    groups[loc.name].add_location(loc)", "return groups"],
    (None, "_union_matching_pairs"): ["for name1, name2 in combinations(names, 2):\n    if is_match(name1, name2):\n        uf.union(name1, name2)"],
    (None, "_build_merged_groups"): ["merged: dict[str, ConstantGroup] = {}",
                                     "for name in names:\n    root = uf.find(name)\n    if root not in merged:\n        merged[root] = ConstantGroup(canonical_name=root, "
                                     "locations=[], all_names=set(), is_fuzzy_match=False)\n    for loc in groups[name].locations:\n        merged[root].add_location(loc)\n"
                                     "    if name != root:\n        merged[root].is_fuzzy_match = True", "return list(merged.values())"],
}
CM_DIRS = {"if px != py:\n    self._parent[px] = py": True, "if px != py:\n    self._parent[py] = px": False}


def const_grouping():
    """find_constant_groups: exact groups by name, then every pair of names (itertools.combinations, list order) that matches is
    united in a union-find whose find() returns the root; groups are keyed by root in order of first appearance.  Emits the
    direction of union (first root attached under the second) and the edit-distance bound; everything else is shape-checked."""
    mod = parse(CM)
    direction = None
    for (cls, fname), want in CM_TEMPLATES.items():
        scope = find_class(mod, cls) if cls else mod
        got = [ast.unparse(st) for st in _body(find_func(scope, fname))]
        if len(got) != len(want):
            raise Unsupported(f"{fname}: {len(got)} statements, expected {len(want)}")
        for g, w in zip(got, want):
            if w == "H_DIR":
                if g not in CM_DIRS:
                    raise Unsupported(f"UnionFind.union: unexpected attachment {g!r}")
                direction = CM_DIRS[g]
            elif g != w:
                raise Unsupported(f"{fname}: statement changed shape: {g[:120]!r}")
    imports = [ast.unparse(n) for n in mod.body if isinstance(n, ast.ImportFrom) and n.module == "itertools"]
    if imports != ["from itertools import combinations"]:
        raise Unsupported("constant_matcher: `combinations` is not itertools.combinations")
    from translator.lib import find_assign
    med = find_assign(mod, "MAX_EDIT_DISTANCE")
    if not (isinstance(med, ast.Constant) and isinstance(med.value, int) and not isinstance(med.value, bool) and med.value >= 0):
        raise Unsupported("MAX_EDIT_DISTANCE is not a natural-number literal")
    lin = ast.unparse(find_func(parse(DRY), "_generate_constant_violations"))
    if "groups = find_constant_groups(constants)" not in lin:
        raise Unsupported("_generate_constant_violations: grouping call changed")
    return (defn("uf_first_root_under_second", "bool", "true" if direction else "false")
            + defn("uf_pairs_source", "string", coq_string("combinations(names, 2)"))
            + defn("const_max_edit_distance", "nat", str(med.value)))


def package_rule_ids():
    """per package of src/linters: the rule ids its code can put on a violation, as far as they are literals
    (`rule_id` property returning a literal, `rule_id="..."` keyword arguments)"""
    from translator.lib import REPO
    rows = []
    base = REPO / "src/linters"
    for pkg in sorted(p.name for p in base.iterdir() if p.is_dir() and (p / "__init__.py").exists()):
        ids = set()
        for f in sorted((base / pkg).rglob("*.py")):
            mod = parse(str(f.relative_to(REPO)))
            for n in ast.walk(mod):
                if isinstance(n, (ast.FunctionDef, ast.AsyncFunctionDef)) and n.name == "rule_id":
                    for r in ast.walk(n):
                        if isinstance(r, ast.Return) and isinstance(r.value, ast.Constant) and isinstance(r.value.value, str):
                            ids.add(r.value.value)
                if isinstance(n, ast.Call):
                    for kw in n.keywords:
                        if kw.arg == "rule_id" and isinstance(kw.value, ast.Constant) and isinstance(kw.value.value, str):
                            ids.add(kw.value.value)
        if not ids:
            raise Unsupported(f"package {pkg}: no literal rule id found")
        rows.append((pkg, sorted(ids)))
    return defn("package_rule_ids", "list (string * list string)",
                coq_list([f"({coq_string(p)}, {coq_str_list(i)})" for p, i in rows]))


ITEMS = [
    ("entry_points", entry_points),
    ("dry_finalize_resets", dry_finalize),
    ("st_finalize_resets", st_finalize),
    ("dry_check_shape", dry_check_shape),
    ("st_state", st_state),
    ("api_dispatch", api_dispatch),
    ("cli_dispatch", cli_dispatch),
    ("cli_filters", cli_filters),
    ("cache_keys", cache_keys),
    ("dry_sql", dry_sql),
    ("dry_const_refs", const_refs),
    ("const_grouping", const_grouping),
    ("package_rule_ids", package_rule_ids),
]
