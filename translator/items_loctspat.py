"""Generated layer for the TypeScript pattern-linter location model of C12 (Gen/LocTsPatGen.v).

  ts_pat_sites   for the TypeScript string-concat-in-loop detector and the TypeScript CQS analyzer: the tree-sitter node type(s) of the
                 node whose position is reported and how line / column are computed from it.  Each row is extracted with a shape check
                 that ties the reported position to THAT node and fails closed on anything else:
                   perf-ts  _find_concat_in_loops: `node.type == "<T>" and current_loop` guards the only call of
                            _check_augmented_assignment(node, ..), which holds the only call of _create_violation(node, ..), which
                            reports node.start_point; the linter forwards v.line_number / v.column (checked by items_locpat._perf_rows);
                   cqs-ts   TypeScriptFunctionExtractor.extract_function_info returns `self._extract_x(node)` behind `node.type == "<T>"`
                            tests only, every _extract_x returns the node it was given as first component; collect_all_functions hands
                            exactly those nodes on; analyze() gives each (func_node, name) to _analyze_function, which reports
                            func_node.start_point; build_cqs_violation forwards pattern.line / pattern.column (items_loc._builders).
"""
import ast

from translator.lib import Unsupported, coq_list, coq_str_list, coq_string, defn, find_class, find_func, parse
from translator.items_loc import classify_col, classify_line, site_expr

GEN_FILE = "LocTsPatGen"
HEADER = "From TL Require Import Lib.Base Lib.GenTypes Model.LocTypes."
SERVES = ["C12"]
L = "src/linters/"
FINGERPRINTS = [
    (L + "performance/typescript_analyzer.py", ["_find_concat_in_loops", "_check_augmented_assignment", "_create_violation"]),
    (L + "cqs/typescript_function_analyzer.py", ["_filter_duplicate_functions", "TypeScriptFunctionAnalyzer"]),
    (L + "nesting/typescript_function_extractor.py", ["TypeScriptFunctionExtractor"]),
]


def _calls(scope, fname):
    return [n for n in ast.walk(scope) if isinstance(n, ast.Call) and ast.unparse(n.func) == fname]


def _perf_ts_row():
    rel = L + "performance/typescript_analyzer.py"
    cls = find_class(parse(rel), "TypeScriptStringConcatAnalyzer")
    fl, ca, cv = find_func(cls, "_find_concat_in_loops"), find_func(cls, "_check_augmented_assignment"), find_func(cls, "_create_violation")
    for f in (fl, ca, cv):
        if [a.arg for a in f.args.args][:2] != ["self", "node"]:
            raise Unsupported(f"{f.name}: first parameter is not node")
        for n in ast.walk(f):
            if isinstance(n, (ast.Assign, ast.AugAssign, ast.AnnAssign, ast.NamedExpr)):
                tg = n.targets if isinstance(n, ast.Assign) else [n.target]
                if any(isinstance(t, ast.Name) and t.id == "node" for t0 in tg for t in ast.walk(t0)):
                    raise Unsupported(f"{f.name} rebinds node")
    # the guard
    types = []
    guarded = []
    for n in ast.walk(fl):
        if isinstance(n, ast.If) and any(c in _calls(n, "self._check_augmented_assignment") for c in ast.walk(n) if isinstance(c, ast.Call)):
            t = n.test
            if not (isinstance(t, ast.BoolOp) and isinstance(t.op, ast.And) and len(t.values) == 2 and ast.unparse(t.values[1]) == "current_loop"
                    and isinstance(t.values[0], ast.Compare) and ast.unparse(t.values[0].left) == "node.type" and len(t.values[0].ops) == 1
                    and isinstance(t.values[0].ops[0], ast.Eq) and isinstance(t.values[0].comparators[0], ast.Constant)):
                raise Unsupported("_find_concat_in_loops: guard of _check_augmented_assignment")
            types.append(t.values[0].comparators[0].value)
            guarded += _calls(n, "self._check_augmented_assignment")
    all_ca = _calls(cls, "self._check_augmented_assignment")
    if len(types) != 1 or len(all_ca) != 1 or len(guarded) != 1 or ast.unparse(all_ca[0].args[0]) != "node":
        raise Unsupported("_check_augmented_assignment is not called exactly once, guarded, with the visited node")
    all_cv = _calls(cls, "self._create_violation")
    if len(all_cv) != 1 or not any(c is all_cv[0] for c in ast.walk(ca)) or ast.unparse(all_cv[0].args[0]) != "node":
        raise Unsupported("_create_violation is not called exactly once from _check_augmented_assignment with its node")
    # recursion of _find_concat_in_loops visits children only
    rec = _calls(fl, "self._find_concat_in_loops")
    if len(rec) != 1 or ast.unparse(rec[0].args[0]) != "child":
        raise Unsupported("_find_concat_in_loops recursion")
    le, ce = site_expr(rel, "_create_violation", "line_number", "TypeScriptStringConcatAnalyzer"), site_expr(rel, "_create_violation", "column", "TypeScriptStringConcatAnalyzer")
    if ast.unparse(le) != "node.start_point[0] + 1" and not ast.unparse(le).startswith("node."):
        raise Unsupported("_create_violation: line is not the node's")
    if not ast.unparse(ce).startswith("node."):
        raise Unsupported("_create_violation: column is not the node's")
    return ("perf-ts", [types[0]], classify_line(le), classify_col(ce))


def _cqs_ts_row():
    ex = find_class(parse(L + "nesting/typescript_function_extractor.py"), "TypeScriptFunctionExtractor")
    efi = find_func(ex, "extract_function_info")
    body = [st for st in efi.body if not (isinstance(st, ast.Expr) and isinstance(st.value, ast.Constant))]
    types = []
    for st in body[:-1]:
        if not (isinstance(st, ast.If) and not st.orelse and len(st.body) == 1 and isinstance(st.body[0], ast.Return)
                and isinstance(st.test, ast.Compare) and ast.unparse(st.test.left) == "node.type" and len(st.test.ops) == 1 and isinstance(st.test.ops[0], ast.Eq)
                and isinstance(st.test.comparators[0], ast.Constant) and isinstance(st.test.comparators[0].value, str)):
            raise Unsupported("extract_function_info: statement shape")
        call = st.body[0].value
        if not (isinstance(call, ast.Call) and isinstance(call.func, ast.Attribute) and ast.unparse(call.func.value) == "self" and [ast.unparse(a) for a in call.args] == ["node"]):
            raise Unsupported("extract_function_info: return shape")
        helper = find_func(ex, call.func.attr)
        if [a.arg for a in helper.args.args] != ["self", "node"]:
            raise Unsupported(f"{helper.name}: parameters")
        rets = [n for n in ast.walk(helper) if isinstance(n, ast.Return)]
        if not rets or any(not (isinstance(r.value, ast.Tuple) and len(r.value.elts) == 2 and ast.unparse(r.value.elts[0]) == "node") for r in rets):
            raise Unsupported(f"{helper.name}: does not return the node it was given")
        if any(isinstance(n, ast.Assign) and any(isinstance(t, ast.Name) and t.id == "node" for t in n.targets) for n in ast.walk(helper)):
            raise Unsupported(f"{helper.name} rebinds node")
        types.append(st.test.comparators[0].value)
    if not (isinstance(body[-1], ast.Return) and ast.unparse(body[-1].value) == "None") or not types:
        raise Unsupported("extract_function_info: final return")
    rec = find_func(ex, "_collect_functions_recursive")
    src = ast.unparse(rec)
    for need in ("func_info = self.extract_function_info(node)", "functions.append(func_info)", "self._collect_functions_recursive(child, functions)"):
        if need not in src:
            raise Unsupported(f"_collect_functions_recursive: `{need}` not found")
    caf = ast.unparse(find_func(ex, "collect_all_functions"))
    if "self._collect_functions_recursive(root_node, functions)" not in caf or "return functions" not in caf:
        raise Unsupported("collect_all_functions")
    rel = L + "cqs/typescript_function_analyzer.py"
    mod = parse(rel)
    an = find_class(mod, "TypeScriptFunctionAnalyzer")
    asrc = ast.unparse(find_func(an, "analyze"))
    for need in ("functions = self._function_extractor.collect_all_functions(root_node)", "functions = _filter_duplicate_functions(functions)",
                 "self._analyze_function(func_node, func_name, file_path) for func_node, func_name in functions"):
        if need not in asrc:
            raise Unsupported(f"analyze: `{need}` not found")
    fd = find_func(mod, "_filter_duplicate_functions")
    ret = [n for n in ast.walk(fd) if isinstance(n, ast.Return)]
    if len(ret) != 1 or not (isinstance(ret[0].value, ast.ListComp) and ast.unparse(ret[0].value.elt) == "(func_node, func_name)"
                             and ast.unparse(ret[0].value.generators[0].iter) == "functions"):
        raise Unsupported("_filter_duplicate_functions does not return a sublist of its argument")
    le, ce = site_expr(rel, "_analyze_function", "line", "TypeScriptFunctionAnalyzer"), site_expr(rel, "_analyze_function", "column", "TypeScriptFunctionAnalyzer")
    if not ast.unparse(le).startswith("func_node.") or not ast.unparse(ce).startswith("func_node."):
        raise Unsupported("_analyze_function: position is not the function node's")
    return ("cqs-ts", types, classify_line(le), classify_col(ce))


def ts_pat_sites():
    rows = [_perf_ts_row(), _cqs_ts_row()]
    return defn("ts_pat_sites", "list (string * list string * lexpr * cexpr)",
                coq_list([f"({coq_string(k)}, {coq_str_list(cl)}, {le}, {ce})" for k, cl, le, ce in rows]))


ITEMS = [
    ("ts_pat_sites", ts_pat_sites),
]
