"""Generated layer for the nesting linter (C01, also C05/C12/C15)."""
import ast

from translator.lib import (Unsupported, attr_elems, cmp_op, coq_str_list, coq_string, const_value, defn, find_assign,
                            find_class, find_func, fstring_parts, parse, str_elems)

GEN_FILE = "NestingGen"
HEADER = "From TL Require Import Lib.Base Lib.GenTypes."
SERVES = ["C01", "C05", "C12"]
D = "src/linters/nesting/"
FINGERPRINTS = [
    (D + "python_analyzer.py", ["_visit_node", "_visit_if_node", "_visit_control_structure", "_visit_children", "_is_elif_chain", "_DepthTracker", "calculate_max_depth", "find_all_functions"]),
    (D + "typescript_analyzer.py", ["calculate_max_depth", "_find_function_body", "find_all_functions"]),
    (D + "rust_analyzer.py", ["calculate_max_depth", "_find_function_body", "find_all_functions", "_collect_functions_recursive"]),
    (D + "typescript_function_extractor.py", ["TypeScriptFunctionExtractor"]),
    (D + "linter.py", ["NestingDepthRule"]),
    (D + "violation_builder.py", ["NestingViolationBuilder"]),
]


def py_controls():
    v = find_assign(parse(D + "python_analyzer.py"), "_CONTROL_STRUCTURES")
    return defn("py_control_structures", "list string", coq_str_list(attr_elems(v, "ast")))


def _types(rel, cls):
    c = find_class(parse(rel), cls)
    return str_elems(find_assign(c, "NESTING_NODE_TYPES"))


def ts_types():
    return defn("ts_nesting_types", "list string", coq_str_list(_types(D + "typescript_analyzer.py", "TypeScriptNestingAnalyzer")))


def rs_types():
    return defn("rs_nesting_types", "list string", coq_str_list(_types(D + "rust_analyzer.py", "RustNestingAnalyzer")))


def _start_depth(rel, cls, callee):
    """the literal start depth in `for x in <body>: <callee>(x, <k>, ...)` inside calculate_max_depth"""
    f = find_func(find_class(parse(rel), cls), "calculate_max_depth")
    hits = []
    for n in ast.walk(f):
        if isinstance(n, ast.For):
            for st in n.body:
                if isinstance(st, ast.Expr) and isinstance(st.value, ast.Call) and isinstance(st.value.func, ast.Name) \
                        and st.value.func.id == callee and len(st.value.args) >= 2:
                    if isinstance(st.value.args[1], ast.Name):
                        continue  # the recursive call `visit_node(child, new_depth)`
                    hits.append(const_value(st.value.args[1]))
    if len(hits) != 1 or not isinstance(hits[0], int) or hits[0] < 0:
        raise Unsupported(f"start depth of {callee} in {rel}: {hits}")
    return hits[0]


def start_depths():
    py = _start_depth(D + "python_analyzer.py", "PythonNestingAnalyzer", "_visit_node")
    ts = _start_depth(D + "typescript_analyzer.py", "TypeScriptNestingAnalyzer", "visit_node")
    rs = _start_depth(D + "rust_analyzer.py", "RustNestingAnalyzer", "visit_node")
    return (defn("py_start_depth", "nat", str(py)) + defn("ts_start_depth", "nat", str(ts)) + defn("rs_start_depth", "nat", str(rs)))


def _body_type(rel, cls):
    f = find_func(find_class(parse(rel), cls), "_find_function_body")
    hits = [n for n in ast.walk(f) if isinstance(n, ast.Compare)]
    if len(hits) != 1:
        raise Unsupported("body type comparison")
    c = hits[0]
    if not (isinstance(c.ops[0], ast.Eq) and ast.unparse(c.left) == "child.type"):
        raise Unsupported("body type comparison shape")
    return const_value(c.comparators[0])


def body_types():
    return (defn("ts_body_type", "string", coq_string(_body_type(D + "typescript_analyzer.py", "TypeScriptNestingAnalyzer")))
            + defn("rs_body_type", "string", coq_string(_body_type(D + "rust_analyzer.py", "RustNestingAnalyzer"))))


def ts_function_types():
    f = find_func(parse(D + "typescript_function_extractor.py"), "extract_function_info")
    out = []
    for st in f.body:
        if isinstance(st, ast.Expr) and isinstance(st.value, ast.Constant):
            continue  # docstring
        if isinstance(st, ast.If) and not st.orelse and len(st.body) == 1 and isinstance(st.body[0], ast.Return):
            t = st.test
            if isinstance(t, ast.Compare) and len(t.ops) == 1 and isinstance(t.ops[0], ast.Eq) and ast.unparse(t.left) == "node.type":
                out.append(const_value(t.comparators[0]))
                continue
            if isinstance(t, ast.Compare) and len(t.ops) == 1 and isinstance(t.ops[0], ast.In) and ast.unparse(t.left) == "node.type":
                out.extend(str_elems(t.comparators[0]))      # node.type in ("a", "b")
                continue
        if isinstance(st, ast.Return) and isinstance(st.value, ast.Constant) and st.value.value is None:
            continue
        raise Unsupported(f"extract_function_info: unexpected statement {ast.unparse(st)[:60]}")
    return defn("ts_function_types", "list string", coq_str_list(out))


def rs_function_types():
    f = find_func(parse(D + "rust_analyzer.py"), "_collect_functions_recursive")
    hits = [n for n in ast.walk(f) if isinstance(n, ast.Compare) and ast.unparse(n.left) == "node.type" and isinstance(n.ops[0], ast.Eq)]
    if len(hits) != 1:
        raise Unsupported("rust function type test")
    return defn("rs_function_types", "list string", coq_str_list([const_value(hits[0].comparators[0])]))


def py_function_types():
    f = find_func(find_class(parse(D + "python_analyzer.py"), "PythonNestingAnalyzer"), "find_all_functions")
    hits = [n for n in ast.walk(f) if isinstance(n, ast.Call) and isinstance(n.func, ast.Name) and n.func.id == "isinstance"]
    if len(hits) != 1:
        raise Unsupported("find_all_functions isinstance")
    return defn("py_function_types", "list string", coq_str_list(attr_elems(hits[0].args[1], "ast")))


def skip_cmps():
    """`if max_depth <op> config.max_nesting_depth: continue` in the three _process_* loops"""
    cls = find_class(parse(D + "linter.py"), "NestingDepthRule")
    out = ""
    for lang, fn in (("py", "_process_python_functions"), ("ts", "_process_typescript_functions"), ("rs", "_process_rust_functions")):
        f = find_func(cls, fn)
        hits = []
        for n in ast.walk(f):
            if isinstance(n, ast.If) and len(n.body) == 1 and isinstance(n.body[0], ast.Continue) and not n.orelse:
                t = n.test
                if isinstance(t, ast.Compare) and ast.unparse(t.left) == "max_depth" and ast.unparse(t.comparators[0]) == "config.max_nesting_depth":
                    hits.append(cmp_op(t))
                else:
                    raise Unsupported(f"{fn}: unexpected skip test {ast.unparse(t)}")
        if len(hits) != 1:
            raise Unsupported(f"{fn}: {len(hits)} skip tests")
        out += defn(f"{lang}_skip_cmp", "cmp", hits[0])
    return out


def messages():
    cls = find_class(parse(D + "violation_builder.py"), "NestingViolationBuilder")
    out = ""
    for lang, fn, namevar in (("py", "create_nesting_violation", "func.name"), ("ts", "create_typescript_nesting_violation", "func_name"),
                              ("rs", "create_rust_nesting_violation", "func_name")):
        f = find_func(cls, fn)
        kws = [k for n in ast.walk(f) if isinstance(n, ast.Call) for k in n.keywords if k.arg == "message"]
        if len(kws) != 1:
            raise Unsupported(f"{fn}: message keyword")
        parts = []
        for kind, v in fstring_parts(kws[0].value):
            if kind == "lit":
                parts.append(f"MLit {coq_string(v)}")
            elif v == namevar:
                parts.append("MName")
            elif v == "max_depth":
                parts.append("MDepth")
            else:
                raise Unsupported(f"{fn}: unknown message variable {v}")
        out += defn(f"{lang}_msg", "list msgpart", "[" + "; ".join(parts) + "]")
    return out


def default_limit():
    v = const_value(find_assign(parse(D + "config.py"), "DEFAULT_MAX_NESTING_DEPTH"))
    if not isinstance(v, int) or v < 0:
        raise Unsupported("default")
    return defn("default_max_nesting_depth", "nat", str(v))


# ---------------------------------------------------------------- control-flow templates (fail closed)
# The expected source of a function with holes: a name H_<x> in expression position matches any expression and
# binds it.  Everything else (statement structure, call targets, argument order, operators, attribute names) must
# coincide with the source after dropping docstrings, annotations and defaults' annotations.  A function whose
# shape differs from its template makes the item fail closed, so the hand-written Gallina control flow that the
# template describes can not silently drift from the code; the holes become Gen constants the model reads.
def _norm(fn):
    import copy
    fn = copy.deepcopy(fn)
    for x in ast.walk(fn):
        if isinstance(x, (ast.FunctionDef, ast.AsyncFunctionDef)):
            b = x.body
            if b and isinstance(b[0], ast.Expr) and isinstance(b[0].value, ast.Constant) and isinstance(b[0].value.value, str):
                x.body = b[1:] or [ast.Pass()]
            x.returns = None
            x.type_comment = None
        if isinstance(x, ast.arg):
            x.annotation = None

    class _Ann(ast.NodeTransformer):      # `x: T = v` is `x = v` for control flow
        def visit_AnnAssign(self, n):
            self.generic_visit(n)
            if n.value is None:
                return n
            return ast.Assign(targets=[n.target], value=n.value)
    return _Ann().visit(fn)


def _match(t, a, binds, where):
    if isinstance(t, ast.Name) and t.id.startswith("H_"):
        if not isinstance(a, ast.expr):
            raise Unsupported(f"{where}: hole {t.id} against a non-expression")
        if t.id in binds and ast.dump(binds[t.id]) != ast.dump(a):
            raise Unsupported(f"{where}: hole {t.id} bound to two different expressions ({ast.unparse(binds[t.id])} / {ast.unparse(a)})")
        binds[t.id] = a
        return
    if type(t) is not type(a):
        raise Unsupported(f"{where}: expected {type(t).__name__} `{_short(t)}`, found {type(a).__name__} `{_short(a)}`")
    for field in t._fields:
        if field in ("ctx", "type_comment", "kind"):
            continue
        tv, av = getattr(t, field, None), getattr(a, field, None)
        if isinstance(tv, list):
            if not isinstance(av, list) or len(tv) != len(av):
                raise Unsupported(f"{where}: `{_short(t)}` expected {len(tv)} {field}, found {len(av) if isinstance(av, list) else av!r} in `{_short(a)}`")
            for x, y in zip(tv, av):
                if isinstance(x, ast.AST):
                    _match(x, y, binds, where)
                elif x != y:
                    raise Unsupported(f"{where}: {field} {x!r} != {y!r}")
        elif isinstance(tv, ast.AST):
            if not isinstance(av, ast.AST):
                raise Unsupported(f"{where}: `{_short(t)}` lacks {field} in `{_short(a)}`")
            _match(tv, av, binds, where)
        elif tv != av:
            raise Unsupported(f"{where}: {field} expected {tv!r}, found {av!r} in `{_short(a)}`")


def _short(n):
    try:
        return ast.unparse(n).split("\n")[0][:70]
    except Exception:  # noqa: BLE001
        return type(n).__name__


def match_template(template_src: str, scope, name: str, binds=None):
    t = _norm(ast.parse(template_src).body[0])
    a = _norm(find_func(scope, name))
    binds = {} if binds is None else binds
    _match(t, a, binds, name)
    return binds


def _nat(binds, hole, where):
    v = const_value(binds[hole])
    if not isinstance(v, int) or isinstance(v, bool) or v < 0:
        raise Unsupported(f"{where}: {hole} is not a natural-number literal: {v!r}")
    return v


PY_VISITOR_TEMPLATES = {
    "_visit_node": """
def _visit_node(node, current_depth, tracker, default_line, is_elif=False):
    if isinstance(node, ast.If):
        _visit_if_node(node, current_depth, tracker, default_line, is_elif)
    elif isinstance(node, _CONTROL_STRUCTURES):
        _visit_control_structure(node, current_depth, tracker, default_line)
    else:
        _visit_children(node, current_depth, tracker, default_line)
""",
    "_visit_if_node": """
def _visit_if_node(node, current_depth, tracker, default_line, is_elif):
    if not is_elif:
        current_depth += H_if_inc
        tracker.record(node, current_depth, default_line)
    for child in node.body:
        _visit_node(child, current_depth, tracker, default_line)
    if _is_elif_chain(node.orelse):
        _visit_node(node.orelse[0], current_depth, tracker, default_line, is_elif=True)
    else:
        for child in node.orelse:
            _visit_node(child, current_depth, tracker, default_line)
""",
    "_visit_control_structure": """
def _visit_control_structure(node, current_depth, tracker, default_line):
    current_depth += H_ctl_inc
    tracker.record(node, current_depth, default_line)
    _visit_children(node, current_depth, tracker, default_line)
""",
    "_visit_children": """
def _visit_children(node, current_depth, tracker, default_line):
    for child in ast.iter_child_nodes(node):
        _visit_node(child, current_depth, tracker, default_line)
""",
    "_is_elif_chain": """
def _is_elif_chain(orelse):
    return len(orelse) == H_elif_len and isinstance(orelse[0], ast.If)
""",
    "record": """
def record(self, node, depth, default_line):
    if depth > self.max_depth:
        self.max_depth = depth
        self.max_depth_line = getattr(node, "lineno", default_line)
""",
    "calculate_max_depth": """
def calculate_max_depth(self, func_node):
    tracker = _DepthTracker(func_node.lineno)
    for stmt in func_node.body:
        _visit_node(stmt, H_start, tracker, func_node.lineno)
    return (tracker.max_depth, tracker.max_depth_line)
""",
    "find_all_functions": """
def find_all_functions(self, tree):
    functions = []
    for node in ast.walk(tree):
        if isinstance(node, H_fn_classes):
            functions.append(node)
    return functions
""",
}


def py_visitor_shape():
    """control flow of the Python depth visitor and of the function search: shape checked against the templates
    above; the increments and the elif-chain length become constants of the model (Model/Nesting.v py_visit_g)"""
    mod = parse(D + "python_analyzer.py")
    binds = {}
    for name, tpl in PY_VISITOR_TEMPLATES.items():
        scope = mod
        if name == "record":
            scope = find_class(mod, "_DepthTracker")
        elif name in ("calculate_max_depth", "find_all_functions"):
            scope = find_class(mod, "PythonNestingAnalyzer")
        match_template(tpl, scope, name, binds)
    init = find_func(find_class(mod, "_DepthTracker"), "__init__")
    zero = [st for st in init.body if isinstance(st, ast.Assign) and ast.unparse(st.targets[0]) == "self.max_depth"]
    if len(zero) != 1 or const_value(zero[0].value) != 0:
        raise Unsupported("_DepthTracker.__init__: max_depth does not start at literal 0")
    return (defn("py_if_inc", "nat", str(_nat(binds, "H_if_inc", "_visit_if_node")))
            + defn("py_ctl_inc", "nat", str(_nat(binds, "H_ctl_inc", "_visit_control_structure")))
            + defn("py_elif_len", "nat", str(_nat(binds, "H_elif_len", "_is_elif_chain"))))


TS_COLLECT_TEMPLATE = """
def _collect_functions_recursive(self, node, functions):
    func_info = self.extract_function_info(node)
    if func_info:
        functions.append(func_info)
    for child in node.children:
        self._collect_functions_recursive(child, functions)
"""
RS_COLLECT_TEMPLATE = """
def _collect_functions_recursive(self, node, functions):
    if node.type == H_fn_type:
        name = self.extract_identifier_name(node)
        functions.append((node, name))
    for child in node.children:
        self._collect_functions_recursive(child, functions)
"""


def collectors_shape():
    """pre-order collection over ALL children in both tree-sitter analyzers (Model/NestingDisc.v ts_collect)"""
    match_template(TS_COLLECT_TEMPLATE, find_class(parse(D + "typescript_function_extractor.py"), "TypeScriptFunctionExtractor"),
                   "_collect_functions_recursive")
    match_template("""
def collect_all_functions(self, root_node):
    functions = []
    self._collect_functions_recursive(root_node, functions)
    return functions
""", find_class(parse(D + "typescript_function_extractor.py"), "TypeScriptFunctionExtractor"), "collect_all_functions")
    match_template("""
def find_all_functions(self, root_node):
    return self.function_extractor.collect_all_functions(root_node)
""", find_class(parse(D + "typescript_analyzer.py"), "TypeScriptNestingAnalyzer"), "find_all_functions")
    match_template(RS_COLLECT_TEMPLATE, find_class(parse(D + "rust_analyzer.py"), "RustNestingAnalyzer"), "_collect_functions_recursive")
    match_template("""
def find_all_functions(self, root_node):
    if not TREE_SITTER_RUST_AVAILABLE or root_node is None:
        return []
    functions = []
    self._collect_functions_recursive(root_node, functions)
    return functions
""", find_class(parse(D + "rust_analyzer.py"), "RustNestingAnalyzer"), "find_all_functions")
    return defn("collectors_preorder_all_children", "bool", "true")


def limit_chain():
    """NestingConfig.from_dict and the --max-depth override: shape checked; key names, the fallback inside a
    language block and the languages the override reaches become constants of Model/NestingDisc.v"""
    cfg = find_class(parse(D + "config.py"), "NestingConfig")
    b = match_template("""
@classmethod
def from_dict(cls, config, language=None):
    if language and language in config:
        lang_config = config[language]
        max_nesting_depth = lang_config.get(H_key, H_fallback)
    else:
        max_nesting_depth = config.get(H_key, H_default)
    return cls(max_nesting_depth=max_nesting_depth, enabled=config.get('enabled', True))
""", cfg, "from_dict")
    key = const_value(b["H_key"])
    if not isinstance(key, str):
        raise Unsupported("from_dict: key is not a string literal")
    if ast.unparse(b["H_default"]) != "DEFAULT_MAX_NESTING_DEPTH":
        raise Unsupported(f"from_dict: default is {ast.unparse(b['H_default'])}")
    fb = ast.unparse(b["H_fallback"])
    if fb == f"config.get({key!r}, DEFAULT_MAX_NESTING_DEPTH)":
        fallback_top = "true"
    elif fb == "DEFAULT_MAX_NESTING_DEPTH":
        fallback_top = "false"
    else:
        raise Unsupported(f"from_dict: unexpected fallback inside a language block: {fb}")
    cli = parse("src/cli/linters/structure_quality.py")
    c = match_template("""
def _apply_nesting_config_override(orchestrator, max_depth, verbose):
    if max_depth is None:
        return
    nesting_config = ensure_config_section(orchestrator, H_section)
    nesting_config[H_key] = max_depth
    _apply_nesting_to_languages(nesting_config, max_depth)
    logger.debug(H_text)
""", cli, "_apply_nesting_config_override")
    d = match_template("""
def _apply_nesting_to_languages(nesting_config, max_depth):
    for lang in H_langs:
        with suppress(KeyError):
            nesting_config[lang][H_key] = max_depth
""", cli, "_apply_nesting_to_languages")
    if const_value(c["H_section"]) != "nesting" or const_value(c["H_key"]) != key or const_value(d["H_key"]) != key:
        raise Unsupported("--max-depth override writes another section/key than from_dict reads")
    lr = find_func(find_class(parse(D + "linter.py"), "NestingDepthRule"), "_load_config")
    match_template("""
def _load_config(self, context):
    return load_linter_config(context, 'nesting', NestingConfig)
""", find_class(parse(D + "linter.py"), "NestingDepthRule"), "_load_config")
    return (defn("limit_key", "string", coq_string(key)) + defn("lang_block_fallback_top", "bool", fallback_top)
            + defn("cli_override_languages", "list string", coq_str_list(str_elems(d["H_langs"]))))


ITEMS = [
    ("py_control_structures", py_controls),
    ("ts_nesting_types", ts_types),
    ("rs_nesting_types", rs_types),
    ("start_depths", start_depths),
    ("body_types", body_types),
    ("ts_function_types", ts_function_types),
    ("rs_function_types", rs_function_types),
    ("py_function_types", py_function_types),
    ("skip_cmps", skip_cmps),
    ("messages", messages),
    ("default_max_nesting_depth", default_limit),
    ("py_visitor_shape", py_visitor_shape),
    ("collectors_shape", collectors_shape),
    ("limit_chain", limit_chain),
]
