"""Generated layer for the nesting linter (C01, also C05/C12/C15)."""
import ast

from translator.lib import (Unsupported, attr_elems, cmp_op, coq_str_list, coq_string, const_value, defn, find_assign,
                            find_class, find_func, fstring_parts, parse, str_elems)

GEN_FILE = "NestingGen"
HEADER = "From TL Require Import Lib.Base Lib.GenTypes."
SERVES = ["C01", "C05", "C12"]
D = "src/linters/nesting/"
FINGERPRINTS = [
    (D + "python_analyzer.py", ["_visit_node", "_visit_if_node", "_visit_control_structure", "_visit_children", "_is_elif_chain", "_DepthTracker", "calculate_max_depth", "find_all_functions"]),
    (D + "typescript_analyzer.py", ["calculate_max_depth", "_find_function_body", "find_all_functions"]),
    (D + "rust_analyzer.py", ["calculate_max_depth", "_find_function_body", "find_all_functions", "_collect_functions_recursive"]),
    (D + "typescript_function_extractor.py", ["TypeScriptFunctionExtractor"]),
    (D + "linter.py", ["NestingDepthRule"]),
    (D + "violation_builder.py", ["NestingViolationBuilder"]),
]


def py_controls():
    v = find_assign(parse(D + "python_analyzer.py"), "_CONTROL_STRUCTURES")
    return defn("py_control_structures", "list string", coq_str_list(attr_elems(v, "ast")))


def _types(rel, cls):
    c = find_class(parse(rel), cls)
    return str_elems(find_assign(c, "NESTING_NODE_TYPES"))


def ts_types():
    return defn("ts_nesting_types", "list string", coq_str_list(_types(D + "typescript_analyzer.py", "TypeScriptNestingAnalyzer")))


def rs_types():
    return defn("rs_nesting_types", "list string", coq_str_list(_types(D + "rust_analyzer.py", "RustNestingAnalyzer")))


def _start_depth(rel, cls, callee):
    """the literal start depth in `for x in <body>: <callee>(x, <k>, ...)` inside calculate_max_depth"""
    f = find_func(find_class(parse(rel), cls), "calculate_max_depth")
    hits = []
    for n in ast.walk(f):
        if isinstance(n, ast.For):
            for st in n.body:
                if isinstance(st, ast.Expr) and isinstance(st.value, ast.Call) and isinstance(st.value.func, ast.Name) \
                        and st.value.func.id == callee and len(st.value.args) >= 2:
                    if isinstance(st.value.args[1], ast.Name):
                        continue  # the recursive call `visit_node(child, new_depth)`
                    hits.append(const_value(st.value.args[1]))
    if len(hits) != 1 or not isinstance(hits[0], int) or hits[0] < 0:
        raise Unsupported(f"start depth of {callee} in {rel}: {hits}")
    return hits[0]


def start_depths():
    py = _start_depth(D + "python_analyzer.py", "PythonNestingAnalyzer", "_visit_node")
    ts = _start_depth(D + "typescript_analyzer.py", "TypeScriptNestingAnalyzer", "visit_node")
    rs = _start_depth(D + "rust_analyzer.py", "RustNestingAnalyzer", "visit_node")
    return (defn("py_start_depth", "nat", str(py)) + defn("ts_start_depth", "nat", str(ts)) + defn("rs_start_depth", "nat", str(rs)))


def _body_type(rel, cls):
    f = find_func(find_class(parse(rel), cls), "_find_function_body")
    hits = [n for n in ast.walk(f) if isinstance(n, ast.Compare)]
    if len(hits) != 1:
        raise Unsupported("body type comparison")
    c = hits[0]
    if not (isinstance(c.ops[0], ast.Eq) and ast.unparse(c.left) == "child.type"):
        raise Unsupported("body type comparison shape")
    return const_value(c.comparators[0])


def body_types():
    return (defn("ts_body_type", "string", coq_string(_body_type(D + "typescript_analyzer.py", "TypeScriptNestingAnalyzer")))
            + defn("rs_body_type", "string", coq_string(_body_type(D + "rust_analyzer.py", "RustNestingAnalyzer"))))


def ts_function_types():
    f = find_func(parse(D + "typescript_function_extractor.py"), "extract_function_info")
    out = []
    for st in f.body:
        if isinstance(st, ast.Expr) and isinstance(st.value, ast.Constant):
            continue  # docstring
        if isinstance(st, ast.If) and not st.orelse and len(st.body) == 1 and isinstance(st.body[0], ast.Return):
            t = st.test
            if isinstance(t, ast.Compare) and isinstance(t.ops[0], ast.Eq) and ast.unparse(t.left) == "node.type":
                out.append(const_value(t.comparators[0]))
                continue
        if isinstance(st, ast.Return) and isinstance(st.value, ast.Constant) and st.value.value is None:
            continue
        raise Unsupported(f"extract_function_info: unexpected statement {ast.unparse(st)[:60]}")
    return defn("ts_function_types", "list string", coq_str_list(out))


def rs_function_types():
    f = find_func(parse(D + "rust_analyzer.py"), "_collect_functions_recursive")
    hits = [n for n in ast.walk(f) if isinstance(n, ast.Compare) and ast.unparse(n.left) == "node.type" and isinstance(n.ops[0], ast.Eq)]
    if len(hits) != 1:
        raise Unsupported("rust function type test")
    return defn("rs_function_types", "list string", coq_str_list([const_value(hits[0].comparators[0])]))


def py_function_types():
    f = find_func(find_class(parse(D + "python_analyzer.py"), "PythonNestingAnalyzer"), "find_all_functions")
    hits = [n for n in ast.walk(f) if isinstance(n, ast.Call) and isinstance(n.func, ast.Name) and n.func.id == "isinstance"]
    if len(hits) != 1:
        raise Unsupported("find_all_functions isinstance")
    return defn("py_function_types", "list string", coq_str_list(attr_elems(hits[0].args[1], "ast")))


def skip_cmps():
    """`if max_depth <op> config.max_nesting_depth: continue` in the three _process_* loops"""
    cls = find_class(parse(D + "linter.py"), "NestingDepthRule")
    out = ""
    for lang, fn in (("py", "_process_python_functions"), ("ts", "_process_typescript_functions"), ("rs", "_process_rust_functions")):
        f = find_func(cls, fn)
        hits = []
        for n in ast.walk(f):
            if isinstance(n, ast.If) and len(n.body) == 1 and isinstance(n.body[0], ast.Continue) and not n.orelse:
                t = n.test
                if isinstance(t, ast.Compare) and ast.unparse(t.left) == "max_depth" and ast.unparse(t.comparators[0]) == "config.max_nesting_depth":
                    hits.append(cmp_op(t))
                else:
                    raise Unsupported(f"{fn}: unexpected skip test {ast.unparse(t)}")
        if len(hits) != 1:
            raise Unsupported(f"{fn}: {len(hits)} skip tests")
        out += defn(f"{lang}_skip_cmp", "cmp", hits[0])
    return out


def messages():
    cls = find_class(parse(D + "violation_builder.py"), "NestingViolationBuilder")
    out = ""
    for lang, fn, namevar in (("py", "create_nesting_violation", "func.name"), ("ts", "create_typescript_nesting_violation", "func_name"),
                              ("rs", "create_rust_nesting_violation", "func_name")):
        f = find_func(cls, fn)
        kws = [k for n in ast.walk(f) if isinstance(n, ast.Call) for k in n.keywords if k.arg == "message"]
        if len(kws) != 1:
            raise Unsupported(f"{fn}: message keyword")
        parts = []
        for kind, v in fstring_parts(kws[0].value):
            if kind == "lit":
                parts.append(f"MLit {coq_string(v)}")
            elif v == namevar:
                parts.append("MName")
            elif v == "max_depth":
                parts.append("MDepth")
            else:
                raise Unsupported(f"{fn}: unknown message variable {v}")
        out += defn(f"{lang}_msg", "list msgpart", "[" + "; ".join(parts) + "]")
    return out


def default_limit():
    v = const_value(find_assign(parse(D + "config.py"), "DEFAULT_MAX_NESTING_DEPTH"))
    if not isinstance(v, int) or v < 0:
        raise Unsupported("default")
    return defn("default_max_nesting_depth", "nat", str(v))


ITEMS = [
    ("py_control_structures", py_controls),
    ("ts_nesting_types", ts_types),
    ("rs_nesting_types", rs_types),
    ("start_depths", start_depths),
    ("body_types", body_types),
    ("ts_function_types", ts_function_types),
    ("rs_function_types", rs_function_types),
    ("py_function_types", py_function_types),
    ("skip_cmps", skip_cmps),
    ("messages", messages),
    ("default_max_nesting_depth", default_limit),
]
