"""Fail-closed Python-source -> Coq translator library (tables and small leaf predicates).

Every item is produced by a function that reads /repo sources with `ast` (never imports
them) and returns Coq text.  Anything unexpected raises `Unsupported`; the caller records
the item as a broken generated obligation `Gen:<file>.<item>` and emits no definition, so
that every Coq file depending on the item fails to compile (fail closed).
"""
from __future__ import annotations

import ast
import hashlib
import os
from pathlib import Path

REPO = Path(os.environ.get("VERIF_REPO", "/repo"))


class Unsupported(Exception):
    pass


_parse_cache: dict[str, ast.Module] = {}


def parse(rel: str) -> ast.Module:
    if rel not in _parse_cache:
        p = REPO / rel
        try:
            _parse_cache[rel] = ast.parse(p.read_text(encoding="utf-8"))
        except (OSError, SyntaxError) as e:  # fail closed
            raise Unsupported(f"cannot parse {rel}: {e}") from e
    return _parse_cache[rel]


def source(rel: str) -> str:
    try:
        return (REPO / rel).read_text(encoding="utf-8")
    except OSError as e:
        raise Unsupported(f"cannot read {rel}: {e}") from e


# ---------------------------------------------------------------- finding things
def find_class(mod: ast.AST, name: str) -> ast.ClassDef:
    for n in ast.walk(mod):
        if isinstance(n, ast.ClassDef) and n.name == name:
            return n
    raise Unsupported(f"class {name} not found")


def find_func(scope: ast.AST, name: str) -> ast.FunctionDef:
    hits = [n for n in ast.walk(scope) if isinstance(n, (ast.FunctionDef, ast.AsyncFunctionDef)) and n.name == name]
    if len(hits) != 1:
        raise Unsupported(f"function {name}: {len(hits)} definitions")
    return hits[0]


def find_assign(scope: ast.AST, name: str) -> ast.expr:
    """value assigned to NAME at the top level of `scope` (module or class body)."""
    body = scope.body if hasattr(scope, "body") else []
    hits = []
    for st in body:
        if isinstance(st, ast.Assign) and len(st.targets) == 1 and isinstance(st.targets[0], ast.Name) and st.targets[0].id == name:
            hits.append(st.value)
        if isinstance(st, ast.AnnAssign) and isinstance(st.target, ast.Name) and st.target.id == name and st.value is not None:
            hits.append(st.value)
    if len(hits) != 1:
        raise Unsupported(f"assignment {name}: {len(hits)} found")
    return hits[0]


def unwrap_call(e: ast.expr, fnames=("frozenset", "set", "tuple", "list")) -> ast.expr:
    if isinstance(e, ast.Call) and isinstance(e.func, ast.Name) and e.func.id in fnames and len(e.args) == 1 and not e.keywords:
        return e.args[0]
    return e


def str_elems(e: ast.expr) -> list[str]:
    e = unwrap_call(e)
    if not isinstance(e, (ast.Set, ast.Tuple, ast.List)):
        raise Unsupported(f"expected literal collection, got {type(e).__name__}")
    out = []
    for x in e.elts:
        if isinstance(x, ast.Constant) and isinstance(x.value, str):
            out.append(x.value)
        else:
            raise Unsupported("non-string element")
    return out


def attr_elems(e: ast.expr, base: str) -> list[str]:
    """(ast.For, ast.While, ...) -> ["For", "While", ...]"""
    if not isinstance(e, (ast.Tuple, ast.List, ast.Set)):
        raise Unsupported("expected tuple of attributes")
    out = []
    for x in e.elts:
        if isinstance(x, ast.Attribute) and isinstance(x.value, ast.Name) and x.value.id == base:
            out.append(x.attr)
        else:
            raise Unsupported("non-attribute element")
    return out


def const_value(e: ast.expr):
    if isinstance(e, ast.Constant):
        return e.value
    if isinstance(e, ast.UnaryOp) and isinstance(e.op, ast.USub) and isinstance(e.operand, ast.Constant):
        return -e.operand.value
    raise Unsupported("expected constant")


def dict_str_str(e: ast.expr) -> list[tuple[str, str]]:
    if not isinstance(e, ast.Dict):
        raise Unsupported("expected dict literal")
    out = []
    for k, v in zip(e.keys, e.values):
        if isinstance(k, ast.Constant) and isinstance(k.value, str) and isinstance(v, ast.Constant) and isinstance(v.value, str):
            out.append((k.value, v.value))
        else:
            raise Unsupported("non str:str dict entry")
    return out


CMP = {ast.LtE: "CLe", ast.Lt: "CLt", ast.GtE: "CGe", ast.Gt: "CGt", ast.Eq: "CEq", ast.NotEq: "CNe"}


def cmp_op(e: ast.expr) -> str:
    if isinstance(e, ast.Compare) and len(e.ops) == 1 and type(e.ops[0]) in CMP:
        return CMP[type(e.ops[0])]
    raise Unsupported("expected single comparison")


def dump_expr(e: ast.AST) -> str:
    return ast.unparse(e)


def fstring_parts(e: ast.expr) -> list[tuple[str, str]]:
    """f"..{x}.." -> [("lit","..") , ("var","x"), ...]; plain str -> [("lit", s)]"""
    if isinstance(e, ast.Constant) and isinstance(e.value, str):
        return [("lit", e.value)]
    if not isinstance(e, ast.JoinedStr):
        raise Unsupported("expected f-string")
    out = []
    for v in e.values:
        if isinstance(v, ast.Constant):
            out.append(("lit", v.value))
        elif isinstance(v, ast.FormattedValue) and v.format_spec is None and v.conversion == -1:
            out.append(("var", ast.unparse(v.value)))
        else:
            raise Unsupported("f-string with format spec/conversion")
    return out


def fingerprint(rel: str, names: list[str]) -> str:
    """hash of the normalised AST of the named functions/classes (docstrings dropped): used to
    notice that hand-modelled code changed (=> larger correspondence budget), never as proof."""
    mod = parse(rel)
    h = hashlib.sha256()
    for name in names:
        hits = [n for n in ast.walk(mod) if isinstance(n, (ast.FunctionDef, ast.AsyncFunctionDef, ast.ClassDef)) and n.name == name]
        if not hits:
            h.update(f"<missing {name}>".encode())
            continue
        for n in hits:
            n = _strip_doc(n)
            h.update(ast.dump(n, include_attributes=False).encode())
    return h.hexdigest()[:16]


def _strip_doc(n):
    import copy
    n = copy.deepcopy(n)
    for x in ast.walk(n):
        if isinstance(x, (ast.FunctionDef, ast.AsyncFunctionDef, ast.ClassDef, ast.Module)):
            b = x.body
            if b and isinstance(b[0], ast.Expr) and isinstance(b[0].value, ast.Constant) and isinstance(b[0].value.value, str):
                x.body = b[1:] or [ast.Pass()]
    return n


# ---------------------------------------------------------------- emitting Coq
def coq_string(s: str) -> str:
    """Coq string literal for a printable-ASCII string; other bytes via String (ascii_of_nat n)."""
    b = s.encode("utf-8")
    if all(32 <= c < 127 for c in b):
        return '"' + s.replace('"', '""') + '"'
    # mixed: concatenate printable runs and single bytes
    parts, run = [], bytearray()
    for c in b:
        if 32 <= c < 127:
            run.append(c)
        else:
            if run:
                parts.append('"' + run.decode().replace('"', '""') + '"')
                run = bytearray()
            parts.append(f"(String (ascii_of_nat {c}) EmptyString)")
    if run:
        parts.append('"' + run.decode().replace('"', '""') + '"')
    return "(" + " ++ ".join(parts) + ")%string" if len(parts) > 1 else parts[0] if parts else '""'


def coq_list(items: list[str]) -> str:
    return "[" + "; ".join(items) + "]"


def coq_str_list(xs: list[str]) -> str:
    return coq_list([coq_string(x) for x in xs])


def defn(name: str, ty: str, body: str) -> str:
    return f"Definition {name} : {ty} := {body}.\n"
