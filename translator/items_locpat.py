"""Generated layer for the pattern-linter location models of C12 (Gen/LocPatGen.v).

  pat_sites        for lbyl, method-property, stateless-class, collection-pipeline: the ast class(es) of the node whose
                   position is reported and how line / column are computed from it.  Each row is extracted with a shape
                   check that ties the reported position to THAT node (visit_If -> _create_pattern(node, ..) ->
                   line_number=node.lineno -> line=pattern.line_number; method: ast.FunctionDef behind an isinstance
                   guard; ...) and fails closed on anything else.
  console_*        the TypeScript console detector (print_statements/typescript_analyzer.py): a TEMPLATE check of its five
                   functions (their source with every string constant blanked must equal the recorded template) plus the
                   constants the template leaves open: node types, the object name, the default method set, the test-path
                   markers of the rule.
"""
import ast

from translator.lib import Unsupported, coq_list, coq_str_list, coq_string, defn, find_class, find_func, parse, str_elems
from translator.items_loc import _param_passthrough, classify_col, classify_line, site_expr

GEN_FILE = "LocPatGen"
HEADER = "From TL Require Import Lib.Base Lib.GenTypes Model.LocTypes."
SERVES = ["C12"]
L = "src/linters/"
FINGERPRINTS = [
    (L + "print_statements/typescript_analyzer.py", ["TypeScriptPrintStatementAnalyzer"]),
    (L + "method_property/python_analyzer.py", ["_check_method", "_process_class_item", "_analyze_class", "_visit_node"]),
    (L + "stateless_class/python_analyzer.py", ["_find_stateless_classes"]),
    (L + "collection_pipeline/detector.py", ["create_any_match", "create_all_match", "create_embedded_filter_match"]),
    (L + "lbyl/python_analyzer.py", ["PythonLBYLAnalyzer"]),
]


# ---------------------------------------------------------------- python pattern linters
def _kw(call: ast.Call, name: str):
    v = [k.value for k in call.keywords if k.arg == name]
    if len(v) != 1:
        raise Unsupported(f"keyword {name}")
    return v[0]


def _lbyl_row():
    import os
    from translator.lib import REPO
    d = REPO / (L + "lbyl/pattern_detectors")
    files = sorted(p.name for p in d.glob("*.py") if p.name not in ("__init__.py", "base.py"))
    if not files:
        raise Unsupported("no lbyl detectors")
    lines, cols = [], []
    for fn in files:
        rel = L + "lbyl/pattern_detectors/" + fn
        mod = parse(rel)
        dets = [c for c in mod.body if isinstance(c, ast.ClassDef) and any(isinstance(m, ast.FunctionDef) and m.name.startswith("visit_") for m in c.body)]
        if len(dets) != 1:
            raise Unsupported(f"{fn}: {len(dets)} detector classes")
        det = dets[0]
        visits = [m for m in det.body if isinstance(m, ast.FunctionDef) and m.name.startswith("visit_")]
        if [m.name for m in visits] != ["visit_If"]:
            raise Unsupported(f"{fn}: visitor methods {[m.name for m in visits]}")
        v = visits[0]
        if [a.arg for a in v.args.args] != ["self", "node"] or ast.unparse(v.args.args[1].annotation) != "ast.If":
            raise Unsupported(f"{fn}: visit_If signature")
        creates = [n for n in ast.walk(det) if isinstance(n, ast.Call) and ast.unparse(n.func) == "self._create_pattern"]
        if not creates or any(not n.args or ast.unparse(n.args[0]) != "node" for n in creates):
            raise Unsupported(f"{fn}: _create_pattern is not called with the visited node")
        for c in creates:
            owner = [m for m in det.body if isinstance(m, ast.FunctionDef) and any(c is n for n in ast.walk(m))]
            if len(owner) != 1:
                raise Unsupported(f"{fn}: _create_pattern call site")
            o = owner[0]
            if o is v:
                continue
            # a helper that receives the visited If node unchanged from visit_If
            if [a.arg for a in o.args.args][:2] != ["self", "node"] or ast.unparse(o.args.args[1].annotation) != "ast.If":
                raise Unsupported(f"{fn}: _create_pattern called from {o.name} whose node is not an ast.If")
            hc = [n for n in ast.walk(v) if isinstance(n, ast.Call) and ast.unparse(n.func) == f"self.{o.name}"]
            others = [n for m in det.body if isinstance(m, ast.FunctionDef) and m is not v for n in ast.walk(m)
                      if isinstance(n, ast.Call) and ast.unparse(n.func) == f"self.{o.name}"]
            if len(hc) != 1 or others or [ast.unparse(a) for a in hc[0].args] != ["node"]:
                raise Unsupported(f"{fn}: {o.name} is not called exactly once from visit_If with the visited node")
            if any(isinstance(n, (ast.Assign, ast.AugAssign, ast.AnnAssign)) and any(isinstance(t, ast.Name) and t.id == "node" for t in ast.walk(n.targets[0] if isinstance(n, ast.Assign) else n.target)) for n in ast.walk(o)):
                raise Unsupported(f"{fn}: {o.name} rebinds node")
        cp = find_func(det, "_create_pattern")
        if [a.arg for a in cp.args.args][:2] != ["self", "node"]:
            raise Unsupported(f"{fn}: _create_pattern signature")
        lines.append(classify_line(site_expr(rel, "_create_pattern", "line_number", det.name)))
        cols.append(classify_col(site_expr(rel, "_create_pattern", "column", det.name)))
    # every violation is built from pattern.line_number / pattern.column
    pa = parse(L + "lbyl/python_analyzer.py")
    n_build = 0
    for n in ast.walk(pa):
        if isinstance(n, ast.Call) and isinstance(n.func, ast.Name) and n.func.id.startswith("build_") and n.func.id.endswith("_violation"):
            if ast.unparse(_kw(n, "line")) != "pattern.line_number" or ast.unparse(_kw(n, "column")) != "pattern.column":
                raise Unsupported(f"lbyl {n.func.id}: line/column are not the pattern's")
            n_build += 1
    if n_build != len(files):
        raise Unsupported(f"lbyl: {n_build} violation builders for {len(files)} detectors")
    if len(set(lines)) != 1 or len(set(cols)) != 1:
        raise Unsupported("lbyl detectors disagree on the position expression")
    return ("lbyl", ["If"], lines[0], cols[0])


def _method_property_row():
    rel = L + "method_property/python_analyzer.py"
    mod = parse(rel)
    cm = find_func(mod, "_check_method")
    if [a.arg for a in cm.args.args][:2] != ["self", "method"] or ast.unparse(cm.args.args[1].annotation) != "ast.FunctionDef":
        raise Unsupported("_check_method signature")
    pci = find_func(mod, "_process_class_item")
    guard_ok = False
    for n in ast.walk(pci):
        if isinstance(n, ast.If) and ast.unparse(n.test) == "isinstance(item, ast.FunctionDef)":
            guard_ok = any(isinstance(c, ast.Call) and ast.unparse(c.func) == "self._check_method" and ast.unparse(c.args[0]) == "item" for c in ast.walk(n))
    callers = [n for n in ast.walk(mod) if isinstance(n, ast.Call) and ast.unparse(n.func) == "self._check_method"]
    if not guard_ok or len(callers) != 1:
        raise Unsupported("_check_method is not called exactly once behind isinstance(item, ast.FunctionDef)")
    le = classify_line(site_expr(rel, "_check_method", "line"))
    ce = classify_col(site_expr(rel, "_check_method", "column"))
    if ast.unparse(site_expr(rel, "_check_method", "line")) != "method.lineno" or ast.unparse(site_expr(rel, "_check_method", "method_name")) != "method.name":
        raise Unsupported("_check_method position / name are not the method's")
    lin = L + "method_property/linter.py"
    lm = parse(lin)
    ok = [n for n in ast.walk(lm) if isinstance(n, ast.Call) and any(k.arg == "line" and ast.unparse(k.value) == "candidate.line" for k in n.keywords)
          and any(k.arg == "column" and ast.unparse(k.value) == "candidate.column" for k in n.keywords)]
    if len(ok) != 1:
        raise Unsupported("method-property linter does not forward candidate.line / candidate.column")
    return ("method-property", ["FunctionDef"], le, ce)


def _stateless_row():
    rel = L + "stateless_class/python_analyzer.py"
    f = find_func(parse(rel), "_find_stateless_classes")
    calls = [n for n in ast.walk(f) if isinstance(n, ast.Call) and isinstance(n.func, ast.Name) and n.func.id == "ClassInfo"]
    if len(calls) != 1 or len(calls[0].args) != 3:
        raise Unsupported("ClassInfo construction")
    guards = [n for n in ast.walk(f) if isinstance(n, ast.If) and ast.unparse(n.test).startswith("isinstance(node, ast.ClassDef)")
              and any(c is calls[0] for c in ast.walk(n))]
    if len(guards) != 1 or ast.unparse(calls[0].args[0]) != "node.name":
        raise Unsupported("ClassInfo is not built behind isinstance(node, ast.ClassDef)")
    return ("stateless-class", ["ClassDef"], classify_line(calls[0].args[1]), classify_col(calls[0].args[2]))


def _pipeline_row():
    rel = L + "collection_pipeline/detector.py"
    mod = parse(rel)
    vals = [k.value for n in ast.walk(mod) if isinstance(n, ast.Call) and ast.unparse(n.func) == "PatternMatch" for k in n.keywords if k.arg == "line_number"]
    if not vals or any(ast.unparse(v) not in ("match.for_node.lineno", "for_node.lineno") for v in vals):
        raise Unsupported(f"PatternMatch line numbers {[ast.unparse(v) for v in vals]}")
    # every for_node is annotated ast.For
    import re
    from translator.lib import REPO
    anns = set()
    for p in sorted((REPO / (L + "collection_pipeline")).glob("*.py")):
        m = ast.parse(p.read_text())
        for n in ast.walk(m):
            if isinstance(n, ast.AnnAssign) and isinstance(n.target, ast.Name) and n.target.id == "for_node":
                anns.add(ast.unparse(n.annotation))
            if isinstance(n, ast.arg) and n.arg == "for_node" and n.annotation is not None:
                anns.add(ast.unparse(n.annotation))
    if anns != {"ast.For"}:
        raise Unsupported(f"for_node annotations {sorted(anns)}")
    lin = L + "collection_pipeline/linter.py"
    if ast.unparse(site_expr(lin, "_create_violation", "line")) != "match.line_number":
        raise Unsupported("pipeline violation line")
    return ("collection-pipeline", ["For"], classify_line(vals[0].value if False else _attr_lineno(vals[0])), classify_col(site_expr(lin, "_create_violation", "column")))


def _attr_lineno(e):
    """match.for_node.lineno -> an expression of the shape x.lineno"""
    if isinstance(e, ast.Attribute) and e.attr == "lineno":
        return e
    raise Unsupported("lineno attribute")


def _annotated_node_row(key, rel, func, cls, want_ann, classes, line_kw, col_kw):
    """a builder function whose parameter `node` is annotated with the ast class(es) and whose line / column are node.lineno /
    node.col_offset"""
    mod = parse(rel)
    f = find_func(find_class(mod, cls) if cls else mod, func)
    ann = [ast.unparse(a.annotation) for a in f.args.args if a.arg == "node" and a.annotation is not None]
    if ann != [want_ann]:
        raise Unsupported(f"{rel}::{func}: node annotated {ann}")
    le_e, ce_e = site_expr(rel, func, line_kw, cls), site_expr(rel, func, col_kw, cls)
    if ast.unparse(le_e) != "node.lineno" or ast.unparse(ce_e) != "node.col_offset":
        raise Unsupported(f"{rel}::{func}: position is not the node's")
    return (key, classes, classify_line(le_e), classify_col(ce_e))


def _cqs_row():
    row = _annotated_node_row("cqs", L + "cqs/function_analyzer.py", "_build_pattern", "FunctionAnalyzer", "ast.FunctionDef | ast.AsyncFunctionDef",
                              ["FunctionDef", "AsyncFunctionDef"], "line", "column")
    vb = L + "cqs/violation_builder.py"
    if ast.unparse(site_expr(vb, "build_cqs_violation", "line")) != "pattern.line" or ast.unparse(site_expr(vb, "build_cqs_violation", "column")) != "pattern.column":
        raise Unsupported("cqs violation does not forward pattern.line / pattern.column")
    return row


def _perf_rows():
    a = _annotated_node_row("perf-concat", L + "performance/python_analyzer.py", "_add_string_concat_violation", None, "ast.AugAssign", ["AugAssign"], "line_number", "column")
    b = _annotated_node_row("perf-regex", L + "performance/regex_analyzer.py", "_create_violation_if_regex_call", None, "ast.Call", ["Call"], "line_number", "column")
    for rel, meth in ((L + "performance/linter.py", "create_string_concat_violation"), (L + "performance/regex_linter.py", "create_regex_in_loop_violation")):
        fw = [n for n in ast.walk(parse(rel)) if isinstance(n, ast.Call) and isinstance(n.func, ast.Attribute) and n.func.attr == meth]
        if len(fw) != 1 or not any(k.arg == "line_number" and ast.unparse(k.value) == "v.line_number" for k in fw[0].keywords) \
                or not any(k.arg == "column" and ast.unparse(k.value) == "v.column" for k in fw[0].keywords):
            raise Unsupported(f"{rel}: {meth} is not called once with v.line_number / v.column")
    pvb = L + "performance/violation_builder.py"
    for fn in ("create_string_concat_violation", "create_regex_in_loop_violation"):
        if ast.unparse(site_expr(pvb, fn, "line", "PerformanceViolationBuilder")) != "line_number":
            raise Unsupported(f"{fn}: line is not the parameter line_number")
        _param_passthrough(pvb, fn, "column", "PerformanceViolationBuilder")
    return [a, b]


def pat_sites():
    rows = [_lbyl_row(), _method_property_row(), _stateless_row(), _pipeline_row(), _cqs_row()] + _perf_rows()
    return defn("pat_sites", "list (string * list string * lexpr * cexpr)",
                coq_list([f"({coq_string(k)}, {coq_str_list(cl)}, {le}, {ce})" for k, cl, le, ce in rows]))


# ---------------------------------------------------------------- the TypeScript console detector
class _Blank(ast.NodeTransformer):
    def __init__(self):
        self.consts = []

    def visit_Constant(self, n):
        if isinstance(n.value, str):
            self.consts.append(n.value)
            return ast.copy_location(ast.Constant(value="§"), n)
        return n


def _template(cls, name):
    f = find_func(cls, name)
    import copy
    f = copy.deepcopy(f)
    if f.body and isinstance(f.body[0], ast.Expr) and isinstance(f.body[0].value, ast.Constant) and isinstance(f.body[0].value.value, str):
        f.body = f.body[1:]
    f.body = [st for st in f.body if not (isinstance(st, ast.Expr) and isinstance(st.value, ast.Call) and ast.unparse(st.value.func).startswith("logger."))]
    b = _Blank()
    f = b.visit(f)
    f.returns = None
    for a in f.args.args:
        a.annotation = None
    return ast.unparse(f), b.consts


CONSOLE_TEMPLATES = {
    "_collect_console_calls": ("def _collect_console_calls(self, node, methods, calls):\n"
                               "    if node.type == '§':\n"
                               "        method_name = self._extract_console_method(node, methods)\n"
                               "        if method_name is not None:\n"
                               "            line_number = node.start_point[0] + 1\n"
                               "            calls.append((node, method_name, line_number))\n"
                               "    for child in node.children:\n"
                               "        self._collect_console_calls(child, methods, calls)"),
    "_extract_console_method": ("def _extract_console_method(self, node, methods):\n"
                                "    func_node = self.find_child_by_type(node, '§')\n"
                                "    if func_node is None:\n"
                                "        return None\n"
                                "    if not self._is_console_object(func_node):\n"
                                "        return None\n"
                                "    return self._get_matching_method(func_node, methods)"),
    "_is_console_object": ("def _is_console_object(self, func_node):\n"
                           "    object_node = self._find_object_node(func_node)\n"
                           "    if object_node is None:\n"
                           "        return False\n"
                           "    return self.extract_node_text(object_node) == '§'"),
    "_get_matching_method": ("def _get_matching_method(self, func_node, methods):\n"
                             "    method_node = self.find_child_by_type(func_node, '§')\n"
                             "    if method_node is None:\n"
                             "        return None\n"
                             "    method_name = self.extract_node_text(method_node)\n"
                             "    return method_name if method_name in methods else None"),
    "_find_object_node": ("def _find_object_node(self, member_expr):\n"
                          "    for child in member_expr.children:\n"
                          "        if child.type == '§':\n"
                          "            return child\n"
                          "    return None"),
}
FIND_CHILD_TEMPLATE = ("def find_child_by_type(self, node, child_type):\n"
                       "    for child in node.children:\n"
                       "        if child.type == child_type:\n"
                       "            return child\n"
                       "    return None")


def console_detector():
    cls = find_class(parse(L + "print_statements/typescript_analyzer.py"), "TypeScriptPrintStatementAnalyzer")
    consts = {}
    for name, want in CONSOLE_TEMPLATES.items():
        got, cs = _template(cls, name)
        if got != want:
            raise Unsupported(f"{name}: source no longer has the recorded shape")
        if len(cs) != 1:
            raise Unsupported(f"{name}: {len(cs)} string constants")
        consts[name] = cs[0]
    base = find_class(parse("src/analyzers/typescript_base.py"), "TypeScriptBaseAnalyzer")
    got, cs = _template(base, "find_child_by_type")
    if got != FIND_CHILD_TEMPLATE or cs:
        raise Unsupported("find_child_by_type: source no longer has the recorded shape")
    return (defn("console_call_type", "string", coq_string(consts["_collect_console_calls"]))
            + defn("console_member_type", "string", coq_string(consts["_extract_console_method"]))
            + defn("console_object_name", "string", coq_string(consts["_is_console_object"]))
            + defn("console_property_type", "string", coq_string(consts["_get_matching_method"]))
            + defn("console_object_type", "string", coq_string(consts["_find_object_node"])))


def console_methods():
    mod = parse(L + "print_statements/config.py")
    lists = []
    for n in ast.walk(mod):
        if isinstance(n, ast.Call) and isinstance(n.func, ast.Attribute) and n.func.attr == "get" and n.args \
                and isinstance(n.args[0], ast.Constant) and n.args[0].value == "console_methods" and len(n.args) == 2 and isinstance(n.args[1], ast.List):
            lists.append(tuple(str_elems(n.args[1])))
    cls = find_class(mod, "PrintStatementConfig")
    for st in cls.body:
        if isinstance(st, ast.AnnAssign) and isinstance(st.target, ast.Name) and st.target.id == "console_methods":
            for n in ast.walk(st):
                if isinstance(n, ast.Lambda) and isinstance(n.body, ast.Set):
                    lists.append(tuple(sorted(str_elems(n.body))))
    if not lists or len({tuple(sorted(x)) for x in lists}) != 1:
        raise Unsupported(f"console_methods defaults disagree: {lists}")
    return defn("console_default_methods", "list string", coq_str_list(sorted(lists[0])))


def console_test_markers():
    cls = find_class(parse(L + "print_statements/linter.py"), "PrintStatementRule")
    f = find_func(cls, "_is_test_file")
    ls = [n for n in ast.walk(f) if isinstance(n, ast.List)]
    if len(ls) != 1:
        raise Unsupported("_is_test_file marker list")
    return defn("console_test_markers", "list string", coq_str_list(str_elems(ls[0])))


ITEMS = [
    ("pat_sites", pat_sites),
    ("console_detector", console_detector),
    ("console_default_methods", console_methods),
    ("console_test_markers", console_test_markers),
]
