"""Generated layer for configuration handling (C05): key normalisation, carrier discovery order,
per-rule section lookups, from_dict defaults, per-language overridable options, __post_init__ guards,
CLI threshold overrides, repo-level ignore sources, error/exit-code mapping.

Everything is read from /repo with `ast`; any unexpected shape raises Unsupported (fail closed)."""
import ast

from translator.lib import (CMP, Unsupported, coq_list, coq_str_list, coq_string, defn, find_assign, find_class, find_func,
                            parse)

GEN_FILE = "ConfigGen"
HEADER = "From TL Require Import Lib.Base Lib.GenTypes Model.ConfigTypes.\nFrom Coq Require Import ZArith."
SERVES = ["C05"]
L = "src/linters/"

# unit (= documented section name, hyphen spelling) -> (rule source file, class, config-loading functions scanned in
# order, config module, config class).  Which file/function holds the lookup is hand-maintained; every key string,
# source (metadata / context.config) and fallback is extracted.
UNITS = [
    ("nesting", L + "nesting/linter.py", "NestingDepthRule", ["_load_config"], L + "nesting/config.py", "NestingConfig"),
    ("srp", L + "srp/linter.py", "SRPRule", ["_load_config"], L + "srp/config.py", "SRPConfig"),
    ("dry", L + "dry/config_loader.py", "ConfigLoader", ["load_config"], L + "dry/config.py", "DRYConfig"),
    ("magic-numbers", L + "magic_numbers/linter.py", "MagicNumberRule", ["_try_load_production_config"], L + "magic_numbers/config.py", "MagicNumberConfig"),
    ("print-statements", L + "print_statements/linter.py", "PrintStatementRule", ["_try_load_production_config"], L + "print_statements/config.py", "PrintStatementConfig"),
    ("improper-logging", L + "print_statements/linter.py", "PrintStatementRule", ["_try_load_production_config"], L + "print_statements/config.py", "PrintStatementConfig"),
    ("method-property", L + "method_property/linter.py", "MethodPropertyRule", ["_try_load_production_config"], L + "method_property/config.py", "MethodPropertyConfig"),
    ("stateless-class", L + "stateless_class/linter.py", "StatelessClassRule", ["_load_config"], L + "stateless_class/config.py", "StatelessClassConfig"),
    ("collection-pipeline", L + "collection_pipeline/linter.py", "CollectionPipelineRule", ["_get_config_dict", "_load_config"], L + "collection_pipeline/config.py", "CollectionPipelineConfig"),
    ("stringly-typed", L + "stringly_typed/linter.py", "StringlyTypedRule", ["_load_config"], L + "stringly_typed/config.py", "StringlyTypedConfig"),
    ("file-header", L + "file_header/linter.py", "FileHeaderRule", ["_load_config"], L + "file_header/config.py", "FileHeaderConfig"),
    ("lazy-ignores", L + "lazy_ignores/linter.py", "LazyIgnoresRule", ["check", "check_content", "__init__"], L + "lazy_ignores/config.py", "LazyIgnoresConfig"),
    ("lbyl", L + "lbyl/linter.py", "LBYLRule", ["_config_key"], L + "lbyl/config.py", "LBYLConfig"),
    ("cqs", L + "cqs/linter.py", "CQSRule", ["_load_config"], L + "cqs/config.py", "CQSConfig"),
    ("performance", L + "performance/linter.py", "StringConcatLoopRule", ["_load_config"], L + "performance/config.py", "PerformanceConfig"),
    ("unwrap-abuse", L + "unwrap_abuse/linter.py", "UnwrapAbuseRule", ["_get_config"], L + "unwrap_abuse/config.py", "UnwrapAbuseConfig"),
    ("clone-abuse", L + "clone_abuse/linter.py", "CloneAbuseRule", ["_get_config"], L + "clone_abuse/config.py", "CloneAbuseConfig"),
    ("blocking-async", L + "blocking_async/linter.py", "BlockingAsyncRule", ["_get_config"], L + "blocking_async/config.py", "BlockingAsyncConfig"),
]

FINGERPRINTS = [
    ("src/core/config_parser.py", ["parse_config_file", "parse_pyproject_toml", "parse_yaml", "parse_json", "_normalize_config_keys"]),
    ("src/linter_config/loader.py", ["load_config", "get_defaults"]),
    ("src/linter_config/ignore.py", ["_load_repo_ignores", "_parse_config_file", "_extract_ignore_patterns", "is_ignored"]),
    ("src/orchestrator/core.py", ["__init__", "lint_file", "_safe_check_rule", "FileLintContext", "_lint_file_worker", "lint_files_parallel"]),
    ("src/api.py", ["Linter"]),
    ("src/core/linter_utils.py", ["load_linter_config", "get_metadata"]),
    ("src/core/base.py", ["MultiLanguageLintRule"]),
    ("src/core/python_lint_rule.py", ["PythonOnlyLintRule"]),
    ("src/cli/utils.py", ["setup_base_orchestrator", "load_config_file", "handle_linting_error", "get_or_detect_project_root",
                          "_determine_project_root_for_context", "_infer_root_from_config"]),
    ("src/cli/main.py", ["cli"]),
    ("src/utils/project_root.py", ["get_project_root", "_find_root_with_pyprojroot", "_find_root_manual"]),
    ("src/cli/linters/shared.py", ["ensure_config_section", "set_config_value", "create_linter_command", "run_linter_command"]),
    ("src/cli/linters/code_smells.py", ["_load_dry_config_file", "_setup_dry_orchestrator", "_execute_dry_lint"]),
    ("src/cli/linters/structure_quality.py", ["_execute_nesting_lint", "_execute_srp_lint"]),
    ("src/cli/linters/structure.py", ["_execute_pipeline_lint"]),
] + [(f, fns) for _, f, _, fns, _, _ in UNITS] + [(cf, [cc]) for _, _, _, _, cf, cc in UNITS]


# ------------------------------------------------------------------ helpers
def _const_str(e):
    return e.value if isinstance(e, ast.Constant) and isinstance(e.value, str) else None


def _func_in_class(rel, cls, fn):
    c = find_class(parse(rel), cls)
    hits = [n for n in c.body if isinstance(n, (ast.FunctionDef, ast.AsyncFunctionDef)) and n.name == fn]
    if len(hits) != 1:
        raise Unsupported(f"{rel}: {cls}.{fn}: {len(hits)} definitions")
    return hits[0]


def _z(v):
    if isinstance(v, bool) or not isinstance(v, int):
        raise Unsupported(f"expected int constant, got {v!r}")
    return f"({v})%Z"


# ------------------------------------------------------------------ key normalisation
def norm_replace():
    f = find_func(parse("src/core/config_parser.py"), "_normalize_config_keys")
    calls = [n for n in ast.walk(f) if isinstance(n, ast.Call) and isinstance(n.func, ast.Attribute) and n.func.attr == "replace"]
    if len(calls) != 1 or ast.unparse(calls[0].func.value) != "key" or len(calls[0].args) != 2:
        raise Unsupported("_normalize_config_keys: expected exactly one key.replace(a, b)")
    a, b = (_const_str(x) for x in calls[0].args)
    if a is None or b is None or len(a) != 1 or len(b) != 1:
        raise Unsupported("_normalize_config_keys: replace arguments must be single characters")
    # the result must be stored under the normalised key and returned; only top-level keys are touched
    src = ast.unparse(f)
    if "normalized[normalized_key] = value" not in src or "for key, value in config.items()" not in src:
        raise Unsupported("_normalize_config_keys: unexpected loop shape")
    return defn("norm_from", "string", coq_string(a)) + defn("norm_to", "string", coq_string(b))


def parsers_normalise():
    """does each file parser hand its result through _normalize_config_keys on every path?"""
    out = ""
    for name, fn in (("file_parser_normalises", "parse_config_file"), ("pyproject_parser_normalises", "parse_pyproject_toml")):
        g = find_func(parse("src/core/config_parser.py"), fn)
        rets = [n for n in ast.walk(g) if isinstance(n, ast.Return) and n.value is not None]
        if not rets:
            raise Unsupported(f"{fn}: no return")
        ok = all(isinstance(r.value, ast.Call) and ast.unparse(r.value.func) == "_normalize_config_keys" and len(r.value.args) == 1 for r in rets)
        out += defn(name, "bool", "true" if ok else "false")
    return out


# ------------------------------------------------------------------ discovery
def discovery():
    f = _func_in_class("src/orchestrator/core.py", "Orchestrator", "__init__")
    names = []
    for n in ast.walk(f):
        if isinstance(n, ast.BinOp) and isinstance(n.op, ast.Div) and ast.unparse(n.left) == "self.project_root":
            s = _const_str(n.right)
            if s is None:
                raise Unsupported("Orchestrator.__init__: non-literal config file name")
            names.append((n.lineno, s))
    names = [s for _, s in sorted(names)]
    src = ast.unparse(f)
    if len(names) != 2 or "if not config_path.exists():" not in src or "self.config = self.config_loader.load(config_path)" not in src:
        raise Unsupported(f"Orchestrator.__init__: unexpected discovery shape {names}")
    # a configuration handed in (by --config through the parallel workers, by Linter(config_file=...)) is used as it is, an
    # empty one included: discovery only runs when none was given
    given = [n for n in ast.walk(f) if isinstance(n, ast.If) and ast.unparse(n.test) == "config is not None"
             and len(n.body) == 1 and ast.unparse(n.body[0]) == "self.config = config" and n.orelse]
    if len(given) != 1:
        raise Unsupported("Orchestrator.__init__: a given configuration is no longer used unconditionally (`if config is not None`)")
    w = ast.unparse(find_func(parse("src/orchestrator/core.py"), "_lint_file_worker"))
    a = ast.unparse(_func_in_class("src/api.py", "Linter", "__init__"))
    if "Orchestrator(project_root=project_root, config=config)" not in w or \
            "self.config = self.config_loader.load(config_path)" not in a or "Orchestrator(project_root=self.project_root, config=self.config)" not in a:
        raise Unsupported("worker / Linter: the loaded configuration is no longer handed to the Orchestrator")
    g = find_func(parse("src/linter_config/loader.py"), "load_config")
    gs = ast.unparse(g)
    fb = [_const_str(n.right) for n in ast.walk(g) if isinstance(n, ast.BinOp) and isinstance(n.op, ast.Div) and ast.unparse(n.left) == "config_path.parent"]
    if len(fb) != 1 or fb[0] is None or "if not config_path.exists():" not in gs or "return parse_config_file(config_path)" not in gs:
        raise Unsupported("load_config: unexpected shape")
    swallowed = any(isinstance(h, ast.ExceptHandler) and h.type is not None and ast.unparse(h.type) == "ConfigParseError"
                    and any(isinstance(s, ast.Return) for s in h.body) for h in ast.walk(g))
    p = find_func(parse("src/core/config_parser.py"), "parse_pyproject_toml")
    table = []
    for n in ast.walk(p):
        if isinstance(n, ast.Call) and isinstance(n.func, ast.Attribute) and n.func.attr == "get" and n.args and _const_str(n.args[0]) is not None:
            table.append((n.col_offset, n.end_col_offset, _const_str(n.args[0])))
    table = [s for _, _, s in sorted(table, key=lambda t: t[1])]
    if table != ["tool", "thailint"]:
        raise Unsupported(f"parse_pyproject_toml: table path {table}")
    return (defn("discovery_order", "list string", coq_str_list(names)) + defn("pyproject_name", "string", coq_string(fb[0]))
            + defn("pyproject_table", "list string", coq_str_list(table))
            + defn("pyproject_error_swallowed", "bool", "true" if swallowed else "false"))


def config_suffixes():
    ext = find_assign(parse("src/core/constants.py"), "CONFIG_EXTENSIONS")
    if not isinstance(ext, ast.Tuple):
        raise Unsupported("CONFIG_EXTENSIONS")
    exts = [_const_str(e) for e in ext.elts]
    f = find_func(parse("src/core/config_parser.py"), "parse_config_file")
    v = [n for n in ast.walk(f) if isinstance(n, ast.Assign) and ast.unparse(n.targets[0]) == "valid_suffixes"]
    if len(v) != 1 or not isinstance(v[0].value, ast.Tuple) or None in exts:
        raise Unsupported("parse_config_file: valid_suffixes")
    out = []
    for e in v[0].value.elts:
        if isinstance(e, ast.Starred) and ast.unparse(e.value) == "CONFIG_EXTENSIONS":
            out += exts
        elif _const_str(e) is not None:
            out.append(_const_str(e))
        else:
            raise Unsupported("parse_config_file: valid_suffixes element")
    src = ast.unparse(f)
    if "if suffix not in valid_suffixes:" not in src or "raise ConfigParseError" not in src:
        raise Unsupported("parse_config_file: unsupported suffix is not rejected")
    return defn("yaml_suffixes", "list string", coq_str_list(exts)) + defn("valid_suffixes", "list string", coq_str_list(out))


def repo_ignore_sources():
    """_load_repo_ignores: .thailintignore, then the first existing file of a literal tuple of config names (the loop must stop
    at the first existing one); older shape: two `project_root / "<name>"` tests with early returns"""
    f = find_func(parse("src/linter_config/ignore.py"), "_load_repo_ignores")
    direct = sorted((n.lineno, _const_str(n.right)) for n in ast.walk(f)
                    if isinstance(n, ast.BinOp) and isinstance(n.op, ast.Div) and ast.unparse(n.left) == "project_root" and _const_str(n.right) is not None)
    names = [s for _, s in direct]
    loops = [n for n in ast.walk(f) if isinstance(n, ast.For)]
    if loops:
        if len(loops) != 1 or not isinstance(loops[0].iter, (ast.Tuple, ast.List)) or not isinstance(loops[0].target, ast.Name):
            raise Unsupported("_load_repo_ignores: loop shape")
        lp = loops[0]
        var = lp.target.id
        elems = [_const_str(e) for e in lp.iter.elts]
        body = ast.unparse(lp)
        if None in elems or f"project_root / {var}" not in body or "if config_file.exists():" not in body or \
                not any(isinstance(n, ast.Break) for n in ast.walk(lp)) or "_parse_config_file(config_file)" not in body:
            raise Unsupported("_load_repo_ignores: config loop shape")
        names = names + elems
    else:
        src = ast.unparse(f)
        if src.count("return _parse") != 2:
            raise Unsupported("_load_repo_ignores: early-return shape")
    if not names or names[0] != ".thailintignore":
        raise Unsupported(f"_load_repo_ignores: file names {names}")
    g = find_func(parse("src/linter_config/ignore.py"), "_extract_ignore_patterns")
    keys = [_const_str(n.args[0]) for n in ast.walk(g) if isinstance(n, ast.Call) and isinstance(n.func, ast.Attribute) and n.func.attr == "get" and n.args]
    if len(keys) != 1 or keys[0] is None:
        raise Unsupported("_extract_ignore_patterns: key")
    pc = ast.unparse(find_func(parse("src/linter_config/ignore.py"), "_parse_config_file"))
    if "yaml.safe_load(" not in pc or "_extract_ignore_patterns(config)" not in pc:
        raise Unsupported("_parse_config_file shape")
    o = _func_in_class("src/orchestrator/core.py", "Orchestrator", "lint_file")
    if "if self.ignore_parser.is_ignored(file_path):" not in ast.unparse(o):
        raise Unsupported("Orchestrator.lint_file: ignore check")
    return defn("repo_ignore_files", "list string", coq_str_list(names)) + defn("repo_ignore_key", "string", coq_string(keys[0]))


def context_config_attr():
    c = find_class(parse("src/orchestrator/core.py"), "FileLintContext")
    has = False
    for n in ast.walk(c):
        if isinstance(n, ast.Attribute) and n.attr == "config" and ast.unparse(n.value) == "self" and isinstance(n.ctx, ast.Store):
            has = True
        if isinstance(n, ast.FunctionDef) and n.name == "config":
            has = True
    meta = any(isinstance(n, ast.Attribute) and n.attr == "metadata" and ast.unparse(n.value) == "self" and isinstance(n.ctx, ast.Store) for n in ast.walk(c))
    if not meta:
        raise Unsupported("FileLintContext: metadata attribute not set")
    o = _func_in_class("src/orchestrator/core.py", "Orchestrator", "lint_file")
    if "metadata = {**self.config, '_project_root': self.project_root}" not in ast.unparse(o):
        raise Unsupported("Orchestrator.lint_file: metadata is not the loaded config")
    return defn("context_has_config_attr", "bool", "true" if has else "false")


# ------------------------------------------------------------------ per-rule lookups
_DICT_NAMES = {"metadata", "config_dict", "context.metadata", "config_attr"}


def _scan_lookup(fn_node):
    """ordered key strings used to find the section, whether context.config is read, whether the
    whole dict is the fallback"""
    keys, uses_ctx, uses_meta, whole = [], False, False, False
    events = []
    for n in ast.walk(fn_node):
        if isinstance(n, ast.Attribute) and n.attr == "config" and ast.unparse(n.value) == "context":
            uses_ctx = True
        if isinstance(n, ast.Attribute) and n.attr == "metadata" and ast.unparse(n.value) == "context":
            uses_meta = True
        if isinstance(n, ast.Call):
            fu = ast.unparse(n.func)
            if fu == "getattr" and len(n.args) >= 2 and ast.unparse(n.args[0]) == "context" and _const_str(n.args[1]) == "metadata":
                uses_meta = True
            if fu == "getattr" and len(n.args) >= 2 and ast.unparse(n.args[0]) == "context" and _const_str(n.args[1]) == "config":
                uses_ctx = True
            if fu == "load_linter_config":
                if len(n.args) < 2:
                    raise Unsupported("load_linter_config arity")
                k = _const_str(n.args[1])
                if k is None:
                    if ast.unparse(n.args[1]) == "self._config_key":
                        continue
                    if isinstance(n.args[1], ast.Name) and n.args[1].id == "key":
                        continue  # loop variable over a literal tuple collected below
                    raise Unsupported("load_linter_config with a computed key")
                events.append((n.lineno, n.col_offset, k))
                uses_meta = True
            elif isinstance(n.func, ast.Attribute) and n.func.attr == "get" and ast.unparse(n.func.value) in _DICT_NAMES and n.args:
                k = _const_str(n.args[0])
                if k is None:
                    raise Unsupported("section lookup with a computed key")
                events.append((n.lineno, n.col_offset, k))
                if len(n.args) > 1 and ast.unparse(n.args[1]) == ast.unparse(n.func.value):
                    whole = True
        if isinstance(n, ast.Compare) and len(n.ops) == 1 and isinstance(n.ops[0], ast.In) and ast.unparse(n.comparators[0]) in _DICT_NAMES:
            k = _const_str(n.left)
            if k is not None:
                events.append((n.lineno, n.col_offset, k))
        if isinstance(n, ast.Subscript) and ast.unparse(n.value) in _DICT_NAMES and _const_str(n.slice) is not None and isinstance(n.ctx, ast.Load):
            events.append((n.lineno, n.col_offset, _const_str(n.slice)))
        if isinstance(n, ast.Assign) and ast.unparse(n.targets[0]) == "key":
            v = n.value
            ok = (isinstance(v, ast.IfExp) and _const_str(v.body) is not None and _const_str(v.orelse) is not None
                  and isinstance(v.test, ast.Compare) and len(v.test.ops) == 1 and isinstance(v.test.ops[0], ast.In)
                  and _const_str(v.test.left) == _const_str(v.body)
                  and ast.unparse(v.test.comparators[0]) in ("getattr(context, 'metadata', {})", "context.metadata", "metadata"))
            if not ok:
                raise Unsupported("computed lookup key of an unknown shape")
            events.append((n.lineno, n.col_offset, _const_str(v.body)))      # looked up when present ...
            events.append((n.lineno, n.col_offset + 1, _const_str(v.orelse)))  # ... else this one
            uses_meta = True
        if isinstance(n, ast.Assign) and ast.unparse(n.targets[0]) == "config_keys" and isinstance(n.value, ast.Tuple):
            for e in n.value.elts:
                if _const_str(e) is None:
                    raise Unsupported("config_keys element")
                events.append((e.lineno, e.col_offset, _const_str(e)))
    for _, _, k in sorted(events):
        if k not in keys:
            keys.append(k)
    return keys, uses_ctx, uses_meta, whole


def lookup_table():
    rows = []
    for unit, rel, cls, fns, _, _ in UNITS:
        keys, ctx, meta, whole = [], False, False, False
        for fn in fns:
            node = _func_in_class(rel, cls, fn)
            if fn == "_config_key":
                rets = [n for n in ast.walk(node) if isinstance(n, ast.Return)]
                if len(rets) != 1 or _const_str(rets[0].value) is None:
                    raise Unsupported(f"{cls}._config_key")
                base = _func_in_class("src/core/python_lint_rule.py", "PythonOnlyLintRule", "_get_config")
                if "load_linter_config(context, self._config_key, self._config_class)" not in ast.unparse(base):
                    raise Unsupported("PythonOnlyLintRule._get_config")
                keys.append(_const_str(rets[0].value))
                meta = True
                continue
            k, c, m, w = _scan_lookup(node)
            keys += [x for x in k if x not in keys]
            ctx, meta, whole = ctx or c, meta or m, whole or w
        if ctx and meta:
            src = "SrcCtxThenMeta"
        elif ctx:
            src = "SrcCtx"
        elif meta:
            src = "SrcMeta"
        else:
            if keys:
                raise Unsupported(f"{unit}: keys without a source")
            src = "SrcNone"
        rows.append(f"({coq_string(unit)}, {src}, {coq_str_list(keys)}, {'true' if whole else 'false'})")
    # the second performance rule must use the same lookup as the first
    a = _scan_lookup(_func_in_class(L + "performance/linter.py", "StringConcatLoopRule", "_load_config"))
    b = _scan_lookup(_func_in_class(L + "performance/regex_linter.py", "RegexInLoopRule", "_load_config"))
    if a != b:
        raise Unsupported("performance rules look up different sections")
    # load_linter_config reads metadata.get(key, {}) and falls back to class defaults for non-dicts
    u = find_func(parse("src/core/linter_utils.py"), "load_linter_config")
    us = ast.unparse(u)
    if "config_dict = metadata.get(config_key, {})" not in us or "config_class.from_dict(config_dict, language=language)" not in us:
        raise Unsupported("load_linter_config: unexpected shape")
    return defn("lookup_table", "list (string * lookup_src * list string * bool)", coq_list(rows))


def retry_without_language():
    """load_linter_config: which exceptions of from_dict(config_dict, language=language) trigger the retry without the
    language, and which units build their config through load_linter_config"""
    u = find_func(parse("src/core/linter_utils.py"), "load_linter_config")
    tries = [n for n in ast.walk(u) if isinstance(n, ast.Try)]
    if len(tries) != 1 or len(tries[0].handlers) != 1:
        raise Unsupported("load_linter_config: expected one try with one handler")
    h = tries[0].handlers[0]
    if "config_class.from_dict(config_dict, language=language)" not in ast.unparse(tries[0].body) or \
            "config_class.from_dict(config_dict)" not in ast.unparse(h.body):
        raise Unsupported("load_linter_config: try/except shape")
    if h.type is None:
        names = ["Exception"]
    elif isinstance(h.type, ast.Tuple):
        names = [ast.unparse(e) for e in h.type.elts]
    else:
        names = [ast.unparse(h.type)]
    units = []
    for unit, rel, cls, fns, _, _ in UNITS:
        src = ""
        for fn in fns:
            if fn == "_config_key":
                src += "load_linter_config("  # PythonOnlyLintRule._get_config (shape checked in lookup_table)
            else:
                src += ast.unparse(_func_in_class(rel, cls, fn))
        if "load_linter_config(" in src:
            units.append(unit)
    return defn("retry_exceptions", "list string", coq_str_list(names)) + defn("retry_units", "list string", coq_str_list(units))


# ------------------------------------------------------------------ from_dict defaults / language overrides
def _module_consts(mod):
    out = {}
    for st in mod.body:
        if isinstance(st, (ast.Assign, ast.AnnAssign)):
            tgt = st.targets[0] if isinstance(st, ast.Assign) else st.target
            if isinstance(tgt, ast.Name) and st.value is not None:
                out[tgt.id] = st.value
    return out


def _dval(e, consts, depth=0):
    if isinstance(e, ast.Call) and isinstance(e.func, ast.Attribute) and e.func.attr == "get" and len(e.args) == 2 and depth < 3:
        return _dval(e.args[1], consts, depth + 1)  # x.get(k, y.get(k, DEFAULT)): the innermost fallback is the default
    if isinstance(e, ast.Name) and e.id in consts and depth < 3:
        return _dval(consts[e.id], consts, depth + 1)
    if isinstance(e, ast.Constant):
        if isinstance(e.value, bool):
            return f"DBool {'true' if e.value else 'false'}"
        if isinstance(e.value, int):
            return f"DInt {_z(e.value)}"
        return "DOther"
    if isinstance(e, ast.UnaryOp) and isinstance(e.op, ast.USub) and isinstance(e.operand, ast.Constant) and isinstance(e.operand.value, int):
        return f"DInt {_z(-e.operand.value)}"
    if isinstance(e, (ast.Set, ast.List, ast.Tuple)) and e.elts:
        vals = []
        for x in e.elts:
            if isinstance(x, ast.Constant) and isinstance(x.value, int) and not isinstance(x.value, bool):
                vals.append(x.value)
            elif isinstance(x, ast.UnaryOp) and isinstance(x.op, ast.USub) and isinstance(x.operand, ast.Constant) and isinstance(x.operand.value, int):
                vals.append(-x.operand.value)
            else:
                return "DOther"
        return "DInts " + coq_list([_z(v) for v in sorted(vals)])
    return "DOther"


def _from_dict_info(rel, cls):
    """(option -> default text in source order, options resolved through the language sub-dict)"""
    mod = parse(rel)
    consts = _module_consts(mod)
    c = find_class(mod, cls)
    fns = [n for n in c.body if isinstance(n, ast.FunctionDef) and n.name in ("from_dict", "_from_base_config", "_from_merged_config")]
    if not fns:
        raise Unsupported(f"{cls}: no from_dict")
    opts, lang = [], []
    events = []
    for fn in fns:
        # a language sub-section overrides an option only when it is consulted first: lang_config.get(k, <fallback>)
        # appearing as the fallback of config.get(k, ...) is the opposite precedence and is not recorded
        shadowed = {id(a) for n in ast.walk(fn) if isinstance(n, ast.Call) and isinstance(n.func, ast.Attribute) and n.func.attr == "get"
                    and ast.unparse(n.func.value) in ("config", "config_dict", "base_config") for a in n.args[1:] for a in ast.walk(a)}
        for n in ast.walk(fn):
            if isinstance(n, ast.Call) and isinstance(n.func, ast.Attribute) and n.func.attr == "get" and n.args and _const_str(n.args[0]) is not None:
                base = ast.unparse(n.func.value)
                k = _const_str(n.args[0])
                if base in ("config", "config_dict", "base_config"):
                    d = _dval(n.args[1], consts) if len(n.args) > 1 else "DOther"
                    events.append((fn.lineno, n.lineno, n.col_offset, k, d))
                elif base == "lang_config" and id(n) not in shadowed:
                    if k not in lang:
                        lang.append(k)
    for k in _fixed_block_info(c)[1]:
        if k not in lang:
            lang.append(k)
    seen = {}
    for _, _, _, k, d in sorted(events):
        if k in seen:
            if seen[k] != d:
                raise Unsupported(f"{cls}.from_dict: option {k} has two different defaults ({seen[k]} / {d})")
            continue
        seen[k] = d
        opts.append((k, d))
    return opts, lang


_LANG_KEYS = ("python", "typescript", "javascript", "rust")


def _fixed_block_info(c):
    """dry's shape: `<lang>_config = config.get("<lang>", {})`, constructor keywords `<lang>_<opt>=<lang>_config.get("<opt>")`,
    a getter `get_<opt>_for_language` that prefers the language's field when it is not None.
    Returns (languages whose block is dereferenced, options every such block overrides, those of them no validation looks at,
    whether the blocks' types are tested)"""
    fd = [n for n in c.body if isinstance(n, ast.FunctionDef) and n.name == "from_dict"]
    if len(fd) != 1:
        raise Unsupported(f"{c.name}: from_dict")
    names = {}
    for n in ast.walk(fd[0]):
        if isinstance(n, ast.Assign) and isinstance(n.targets[0], ast.Name) and isinstance(n.value, ast.Call) \
                and ast.unparse(n.value.func) == "config.get" and n.value.args and _const_str(n.value.args[0]) in _LANG_KEYS:
            lang = _const_str(n.value.args[0])
            if n.targets[0].id != lang + "_config" or len(n.value.args) != 2 or ast.unparse(n.value.args[1]) != "{}":
                raise Unsupported(f"{c.name}.from_dict: language block assignment")
            names[n.targets[0].id] = lang
    if not names:
        return [], [], [], True
    per_lang = {lang: [] for lang in names.values()}
    for n in ast.walk(fd[0]):
        if isinstance(n, ast.keyword) and isinstance(n.value, ast.Call) and isinstance(n.value.func, ast.Attribute) \
                and n.value.func.attr == "get" and ast.unparse(n.value.func.value) in names:
            lang = names[ast.unparse(n.value.func.value)]
            k = _const_str(n.value.args[0]) if n.value.args else None
            if k is None or len(n.value.args) != 1 or n.arg != f"{lang}_{k}":
                raise Unsupported(f"{c.name}.from_dict: language block option {n.arg}")
            per_lang[lang].append(k)
    uses = [n for n in ast.walk(fd[0]) if isinstance(n, ast.Name) and n.id in names and isinstance(n.ctx, ast.Load)]
    if len(uses) != sum(len(v) for v in per_lang.values()):
        raise Unsupported(f"{c.name}.from_dict: a language block is used in an unknown way")
    langs = sorted(per_lang, key=_LANG_KEYS.index)
    common = [k for k in per_lang[langs[0]] if all(k in per_lang[l] for l in langs)]
    src = ast.unparse(c)
    for k in common:
        g = [n for n in c.body if isinstance(n, ast.FunctionDef) and n.name == f"get_{k}_for_language"]
        gs = ast.unparse(g[0]) if len(g) == 1 else ""
        if not all(f"'{l}': self.{l}_{k}" in gs for l in langs) or f"return override if override is not None else self.{k}" not in gs:
            raise Unsupported(f"{c.name}: getter of the per-language option {k}")
    validators = "".join(ast.unparse(n) for n in c.body if isinstance(n, ast.FunctionDef) and n.name in ("__post_init__", "_validate_positive_fields"))
    unvalidated = [k for k in common if not all(f"self.{l}_{k}" in validators for l in langs)]
    checked = all(f"isinstance({nm}, dict)" in ast.unparse(fd[0]) for nm in names)
    return langs, common, unvalidated, checked


def type_checks():
    """where a mapping is expected and something else is written (`nesting: 5`, `nesting: {python: [1]}`): which rules test the
    type before calling .get on it"""
    own, fixed, unval, sect = [], [], [], []
    u = ast.unparse(find_func(parse("src/core/linter_utils.py"), "load_linter_config"))
    if "if not isinstance(config_dict, dict):\n        return config_class()" not in u:
        raise Unsupported("load_linter_config: the section's type is no longer tested")
    for unit, rel, cls, fns, crel, ccls in UNITS:
        c = find_class(parse(crel), ccls)
        fd = [n for n in c.body if isinstance(n, ast.FunctionDef) and n.name == "from_dict"]
        if len(fd) != 1:
            raise Unsupported(f"{ccls}: from_dict")
        src = ast.unparse(fd[0])
        derefs = [n for n in ast.walk(fd[0]) if isinstance(n, ast.Subscript) and ast.unparse(n) == "config[language]"]
        if derefs:
            if len(derefs) != 1 or "if language and language in config:\n        lang_config = config[language]" not in src:
                raise Unsupported(f"{ccls}.from_dict: language block shape")
            if "isinstance(lang_config, dict)" not in src:
                own.append(unit)
        elif "lang_config" in src:
            raise Unsupported(f"{ccls}.from_dict: lang_config of unknown origin")
        langs, _, unvalidated, checked = _fixed_block_info(c)
        if langs and not checked:
            fixed.append(f"({coq_string(unit)}, {coq_str_list(langs)})")
        if unvalidated:
            unval.append(unit)
        # the rule's own loader: every from_dict(X) outside load_linter_config needs isinstance(X, dict)
        for fn in fns:
            if fn == "_config_key":
                continue
            node = _func_in_class(rel, cls, fn)
            fsrc = ast.unparse(node)
            for n in ast.walk(node):
                if isinstance(n, ast.Call) and isinstance(n.func, ast.Attribute) and n.func.attr == "from_dict":
                    if len(n.args) < 1 or not isinstance(n.args[0], ast.Name):
                        raise Unsupported(f"{cls}.{fn}: from_dict argument")
                    if f"isinstance({n.args[0].id}, dict)" not in fsrc and unit not in sect:
                        sect.append(unit)
    return (defn("lang_block_unchecked_own", "list string", coq_str_list(own))
            + defn("lang_block_unchecked_fixed", "list (string * list string)", coq_list(fixed))
            + defn("lang_values_unvalidated", "list string", coq_str_list(unval))
            + defn("section_type_unchecked", "list string", coq_str_list(sect)))


def opt_defaults():
    rows, lrows = [], []
    for unit, _, _, _, crel, ccls in UNITS:
        opts, lang = _from_dict_info(crel, ccls)
        rows.append(f"({coq_string(unit)}, {coq_list([f'({coq_string(k)}, {d})' for k, d in opts])})")
        lrows.append(f"({coq_string(unit)}, {coq_str_list(lang)})")
    # dataclass defaults must agree with from_dict fallbacks for the options the model uses
    for unit, _, _, _, crel, ccls in UNITS:
        mod = parse(crel)
        consts = _module_consts(mod)
        c = find_class(mod, ccls)
        fields = {}
        for st in c.body:
            if isinstance(st, ast.AnnAssign) and isinstance(st.target, ast.Name) and st.value is not None:
                fields[st.target.id] = _dval(st.value, consts)
        opts, _ = _from_dict_info(crel, ccls)
        for k, d in opts:
            if d.startswith(("DBool", "DInt ")) and k in fields and fields[k] != d:
                raise Unsupported(f"{ccls}: dataclass default of {k} ({fields[k]}) differs from from_dict fallback ({d})")
    return (defn("opt_defaults", "list (string * list (string * dval))", coq_list(rows))
            + defn("lang_override_opts", "list (string * list string)", coq_list(lrows)))


# ------------------------------------------------------------------ __post_init__ guards
def guards():
    rows, skipped = [], 0
    for unit, _, _, _, crel, ccls in UNITS:
        c = find_class(parse(crel), ccls)
        fns = [n for n in c.body if isinstance(n, ast.FunctionDef) and n.name in ("__post_init__", "_validate_positive_fields")]
        for fn in fns:
            loop_fields = []
            for n in ast.walk(fn):
                if isinstance(n, ast.Assign) and ast.unparse(n.targets[0]) == "positive_fields" and isinstance(n.value, ast.List):
                    for t in n.value.elts:
                        if not (isinstance(t, ast.Tuple) and len(t.elts) == 2 and _const_str(t.elts[0]) and ast.unparse(t.elts[1]) == "self." + _const_str(t.elts[0])):
                            raise Unsupported(f"{ccls}: positive_fields entry")
                        loop_fields.append(_const_str(t.elts[0]))
            for n in ast.walk(fn):
                if not isinstance(n, ast.If):
                    continue
                if not any(isinstance(s, ast.Raise) and "ValueError" in ast.unparse(s) for s in n.body):
                    raise Unsupported(f"{ccls}.{fn.name}: `if` without raise ValueError")
                t = n.test
                if not (isinstance(t, ast.Compare) and len(t.ops) == 1 and type(t.ops[0]) in CMP):
                    skipped += 1
                    continue
                left, right = ast.unparse(t.left), t.comparators[0]
                if isinstance(right, ast.Constant) and isinstance(right.value, int) and not isinstance(right.value, bool):
                    if left.startswith("self."):
                        rows.append((unit, left[5:], CMP[type(t.ops[0])], right.value))
                    elif left == "value" and loop_fields:
                        rows += [(unit, f, CMP[type(t.ops[0])], right.value) for f in loop_fields]
                    else:
                        raise Unsupported(f"{ccls}.{fn.name}: guard on {left}")
                else:
                    skipped += 1  # guard relating two fields / membership test: not modelled
    s = _func_in_class("src/orchestrator/core.py", "Orchestrator", "_safe_check_rule")
    reraises = any(isinstance(h, ast.ExceptHandler) and h.type is not None and ast.unparse(h.type) == "ValueError"
                   and any(isinstance(x, ast.Raise) and x.exc is None for x in h.body) for h in ast.walk(s))
    swallow = any(isinstance(h, ast.ExceptHandler) and h.type is not None and ast.unparse(h.type) == "Exception"
                  and any(isinstance(x, ast.Return) for x in h.body) for h in ast.walk(s))
    h = find_func(parse("src/cli/utils.py"), "handle_linting_error")
    codes = [n.args[0].value for n in ast.walk(h) if isinstance(n, ast.Call) and ast.unparse(n.func) == "sys.exit" and n.args and isinstance(n.args[0], ast.Constant)]
    if len(codes) != 1 or not isinstance(codes[0], int):
        raise Unsupported("handle_linting_error: exit code")
    out = coq_list([f"({coq_string(u)}, {coq_string(o)}, {c}, {_z(b)})" for u, o, c, b in rows])
    return (defn("guards", "list (string * string * cmp * Z)", out) + defn("guards_not_modelled", "nat", f"{skipped}%nat")
            + defn("value_error_reraised", "bool", "true" if reraises else "false")
            + defn("other_errors_swallowed", "bool", "true" if swallow else "false")
            + defn("error_exit_code", "nat", f"{codes[0]}%nat"))


# ------------------------------------------------------------------ CLI threshold overrides
def _click_int_options(fn_node):
    """--opt-name -> parameter name for click.option(..., type=int) decorators"""
    out = {}
    for d in fn_node.decorator_list:
        if isinstance(d, ast.Call) and ast.unparse(d.func) == "click.option" and d.args and _const_str(d.args[0]) and \
                any(k.arg == "type" and ast.unparse(k.value) == "int" for k in d.keywords):
            names = [_const_str(a) for a in d.args if _const_str(a)]
            long = [a for a in names if a.startswith("--")]
            plain = [a for a in names if not a.startswith("-")]
            if len(long) != 1:
                raise Unsupported("click option names")
            out[plain[0] if plain else long[0][2:].replace("-", "_")] = long[0]
    return out


def cli_overrides():
    specs = [("nesting", "src/cli/linters/structure_quality.py", "nesting", "_apply_nesting_config_override", "_execute_nesting_lint"),
             ("srp", "src/cli/linters/structure_quality.py", "srp", "_apply_srp_config_override", "_execute_srp_lint"),
             ("dry", "src/cli/linters/code_smells.py", "dry", "_apply_dry_config_override", "_execute_dry_lint"),
             ("pipeline", "src/cli/linters/structure.py", "pipeline", "_apply_pipeline_config_override", "_execute_pipeline_lint")]
    rows = []
    for cmd, rel, cmd_fn, apply_fn, exec_fn in specs:
        mod = parse(rel)
        params = _click_int_options(find_func(mod, cmd_fn))
        f = find_func(mod, apply_fn)
        sect = [n for n in ast.walk(f) if isinstance(n, ast.Call) and ast.unparse(n.func) == "ensure_config_section"]
        if len(sect) != 1 or _const_str(sect[0].args[1]) is None:
            raise Unsupported(f"{apply_fn}: ensure_config_section")
        skey = _const_str(sect[0].args[1])
        ex = ast.unparse(find_func(mod, exec_fn))
        if apply_fn + "(" not in ex:
            raise Unsupported(f"{exec_fn} does not call {apply_fn}")
        if ex.index(apply_fn + "(") > ex.index("_lint(orchestrator") if "_lint(orchestrator" in ex else False:
            raise Unsupported(f"{exec_fn}: override applied after linting")
        found = []
        for n in ast.walk(f):
            if isinstance(n, ast.Call) and ast.unparse(n.func) == "set_config_value" and len(n.args) >= 3:
                opt, var = _const_str(n.args[1]), ast.unparse(n.args[2])
                if opt is None:
                    raise Unsupported("set_config_value key")
                if var in params:
                    found.append((params[var], opt, []))
            if isinstance(n, ast.Assign) and isinstance(n.targets[0], ast.Subscript) and _const_str(n.targets[0].slice) and isinstance(n.value, ast.Name) and n.value.id in params:
                found.append((params[n.value.id], _const_str(n.targets[0].slice), None))
        out = []
        for cli, opt, langs in found:
            if langs is None:  # nesting: a helper applies the value to per-language sub-sections
                helper = [n for n in ast.walk(f) if isinstance(n, ast.Call) and isinstance(n.func, ast.Name) and n.func.id.endswith("_to_languages")]
                if len(helper) != 1:
                    raise Unsupported(f"{apply_fn}: language helper")
                h = find_func(mod, helper[0].func.id)
                loops = [n for n in ast.walk(h) if isinstance(n, ast.For) and isinstance(n.iter, (ast.List, ast.Tuple))]
                if len(loops) != 1:
                    raise Unsupported("language loop")
                langs = [_const_str(e) for e in loops[0].iter.elts]
                hs = ast.unparse(h)
                if None in langs or f"[lang]['{opt}'] = " not in hs or "suppress(KeyError)" not in hs:
                    raise Unsupported("language helper shape")
            out.append((cli, opt, langs))
        if not out:
            raise Unsupported(f"{apply_fn}: no integer override found")
        for cli, opt, langs in out:
            rows.append(f"({coq_string(cmd)}, {coq_string(cli)}, {coq_string(skey)}, {coq_string(opt)}, {coq_str_list(langs)})")
    sv = ast.unparse(find_func(parse("src/cli/linters/shared.py"), "set_config_value"))
    if "if value is None:" not in sv or "config[key] = value" not in sv:
        raise Unsupported("set_config_value shape")
    return defn("cli_overrides", "list (string * string * string * string * list string)", coq_list(rows))


def dash_config():
    """--config handling: generic commands replace the whole config through the loader; `dry` merges only its own section"""
    u = find_func(parse("src/cli/utils.py"), "setup_base_orchestrator")
    us = ast.unparse(u)
    if "orchestrator = Orchestrator(project_root=root)" not in us or "if config_file:" not in us or "load_config_file(orchestrator, config_file, verbose)" not in us:
        raise Unsupported("setup_base_orchestrator shape")
    lf = ast.unparse(find_func(parse("src/cli/utils.py"), "load_config_file"))
    if "orchestrator.config = orchestrator.config_loader.load(config_path)" not in lf or "sys.exit(2)" not in lf:
        raise Unsupported("load_config_file shape")
    d = ast.unparse(find_func(parse("src/cli/linters/code_smells.py"), "_setup_dry_orchestrator"))
    dry_special = "setup_base_orchestrator(path_objs, None, verbose, project_root)" in d
    keys = []
    if dry_special:
        g = find_func(parse("src/cli/linters/code_smells.py"), "_load_dry_config_file")
        gs = ast.unparse(g)
        keys = [_const_str(n.slice) for n in ast.walk(g) if isinstance(n, ast.Subscript) and ast.unparse(n.value) == "config" and _const_str(n.slice)]
        if len(keys) != 1 or "yaml.safe_load(f)" not in gs or "orchestrator.config.update({'dry': dry_config})" not in gs:
            raise Unsupported("_load_dry_config_file shape")
    m = find_func(parse("src/cli/main.py"), "cli")
    ms = ast.unparse(m)
    if "ctx.obj['cli_config_path'] = config" not in ms:
        raise Unsupported("cli(): global --config handling")
    # does any linter command read the global option as its linter config?
    used = False
    for rel in ("src/cli/linters/shared.py", "src/cli/utils.py"):
        src = ast.unparse(parse(rel))
        if "cli_config_path" in src and "load_config_file" in src and "ctx.obj.get('cli_config_path')" in src and "config_file or" in src:
            used = True
    return (defn("dry_dash_config_special", "bool", "true" if dry_special else "false")
            + defn("dry_dash_config_key", "string", coq_string(keys[0] if keys else "dry"))
            + defn("global_config_used_by_linters", "bool", "true" if used else "false"))


def root_detection():
    """project-root markers (src/utils/project_root.py) and the root-group --config checks a linter command performs"""
    f = find_func(parse("src/utils/project_root.py"), "_find_root_with_pyprojroot")
    loops = [n for n in ast.walk(f) if isinstance(n, ast.For) and isinstance(n.iter, ast.List)]
    if len(loops) != 1:
        raise Unsupported("_find_root_with_pyprojroot: criterion loop")
    marks = []
    for e in loops[0].iter.elts:
        if not (isinstance(e, ast.Call) and isinstance(e.func, ast.Name) and e.func.id in ("has_dir", "has_file") and len(e.args) == 1 and _const_str(e.args[0])):
            raise Unsupported("_find_root_with_pyprojroot: criterion")
        marks.append(_const_str(e.args[0]))
    m = ast.unparse(find_func(parse("src/utils/project_root.py"), "_find_root_manual"))
    if not all(f"'{x}'" in m for x in marks) or "return current" not in ast.unparse(f):
        raise Unsupported("project_root: manual search disagrees / no fallback to the start directory")
    g = ast.unparse(find_func(parse("src/cli/utils.py"), "get_or_detect_project_root"))
    if "search_start = first_path if first_path.is_dir() else first_path.parent" not in g or "return get_project_root(search_start)" not in g:
        raise Unsupported("get_or_detect_project_root shape")
    d = ast.unparse(find_func(parse("src/cli/utils.py"), "_determine_project_root_for_context"))
    if "return _infer_root_from_config(config_path, verbose)" not in d:
        raise Unsupported("_determine_project_root_for_context: --config no longer fixes the root")
    missing = "if config_path and (not Path(config_path).exists()):" in d and "sys.exit(2)" in d
    c = find_func(parse("src/cli/main.py"), "cli")
    invalid = any(isinstance(h, ast.ExceptHandler) and h.type is not None and ast.unparse(h.type) == "ConfigError"
                  and "sys.exit(2)" in ast.unparse(h) for h in ast.walk(c))
    return (defn("root_markers", "list string", coq_str_list(marks))
            + defn("global_config_missing_exits", "bool", "true" if missing else "false")
            + defn("global_config_invalid_exits", "bool", "true" if invalid else "false"))


def exit_codes():
    out = []
    for rel, fn in (("src/cli/linters/structure_quality.py", "_execute_nesting_lint"), ("src/cli/linters/structure_quality.py", "_execute_srp_lint"),
                    ("src/cli/linters/code_smells.py", "_execute_dry_lint"), ("src/cli/linters/code_smells.py", "_execute_magic_numbers_lint"),
                    ("src/cli/linters/structure.py", "_execute_pipeline_lint")):
        f = find_func(parse(rel), fn)
        ex = [n for n in ast.walk(f) if isinstance(n, ast.Call) and ast.unparse(n.func) == "sys.exit"]
        if len(ex) != 1 or not isinstance(ex[0].args[0], ast.IfExp):
            raise Unsupported(f"{fn}: sys.exit shape")
        e = ex[0].args[0]
        if not (isinstance(e.body, ast.Constant) and isinstance(e.orelse, ast.Constant) and isinstance(e.test, ast.Name)):
            raise Unsupported(f"{fn}: exit expression")
        out.append((e.body.value, e.orelse.value))
    if len(set(out)) != 1:
        raise Unsupported(f"linter commands disagree on exit codes: {out}")
    return defn("exit_with_violations", "nat", f"{out[0][0]}%nat") + defn("exit_clean", "nat", f"{out[0][1]}%nat")


ITEMS = [
    ("norm_replace", norm_replace),
    ("parsers_normalise", parsers_normalise),
    ("discovery", discovery),
    ("config_suffixes", config_suffixes),
    ("repo_ignore_sources", repo_ignore_sources),
    ("context_config_attr", context_config_attr),
    ("lookup_table", lookup_table),
    ("opt_defaults", opt_defaults),
    ("retry_without_language", retry_without_language),
    ("type_checks", type_checks),
    ("guards", guards),
    ("cli_overrides", cli_overrides),
    ("dash_config", dash_config),
    ("root_detection", root_detection),
    ("exit_codes", exit_codes),
]
