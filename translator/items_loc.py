"""Generated layer for C12 (every violation points at a real location).

Everything here is a *position literal* of the source:
  loc_builders     per modelled violation builder: how the reported line is computed from the parser position
                   (`x.lineno` = 1-based, `x.start_point[0] + 1` = 0-based row plus offset, `enumerate(..., start=1)`,
                   a constant) and what the reported column is (the node's column or a constant)
  loc_row_sites    census of EVERY use of a tree-sitter row (`.start_point[0]`, `.end_point[0]`) under src/linters and
                   src/analyzers: converted (`+ k`) or raw; a raw use is accepted by Model/Loc.v only inside the
                   hand-listed functions that never hand the row to a violation
  loc_lineno_sites census of every `.lineno` use that is combined arithmetically (`lineno + k` / `lineno - k`)
  loc_col_sites    the same census for columns (`.start_point[1]`, `.col_offset`): passed through or shifted
  sarif_region     SARIF: startLine = line + a, startColumn = column + b
  loc_messages     message f-strings of the modelled builders (parts: literal text / variable)
Fail-closed: an expression outside the recognised shapes aborts the item.
"""
import ast

from translator.lib import (REPO, Unsupported, coq_list, coq_string, const_value, defn, find_class, find_func, fstring_parts,
                            parse)

GEN_FILE = "LocGen"
HEADER = "From TL Require Import Lib.Base Lib.GenTypes Model.LocTypes."
SERVES = ["C12"]
L = "src/linters/"
FINGERPRINTS = [
    ("src/core/violation_builder.py", ["ViolationInfo", "build_violation", "build_violation_from_params", "BaseViolationBuilder"]),
    ("src/core/types.py", ["Violation"]),
    (L + "nesting/violation_builder.py", ["NestingViolationBuilder"]),
    (L + "magic_numbers/violation_builder.py", ["ViolationBuilder"]),
    (L + "srp/violation_builder.py", ["ViolationBuilder"]),
    (L + "unwrap_abuse/violation_builder.py", ["build_unwrap_violation", "build_expect_violation"]),
    (L + "clone_abuse/violation_builder.py", ["build_clone_in_loop_violation", "build_clone_chain_violation", "build_unnecessary_clone_violation"]),
    (L + "blocking_async/violation_builder.py", ["build_fs_in_async_violation", "build_sleep_in_async_violation", "build_net_in_async_violation"]),
    (L + "dry/violation_builder.py", ["DRYViolationBuilder"]),
    (L + "print_statements/violation_builder.py", ["ViolationBuilder"]),
    (L + "file_placement/violation_factory.py", ["ViolationFactory"]),
    (L + "file_header/violation_builder.py", ["ViolationBuilder"]),
    (L + "file_header/atemporal_detector.py", ["AtemporalDetector"]),
    (L + "stateless_class/python_analyzer.py", ["_find_stateless_classes", "ClassInfo"]),
    (L + "unwrap_abuse/rust_analyzer.py", ["_find_unwrap_recursive"]),
    (L + "clone_abuse/rust_analyzer.py", ["_find_clone_recursive"]),
    (L + "blocking_async/rust_analyzer.py", ["_check_blocking_call"]),
    (L + "srp/typescript_analyzer.py", ["analyze_class", "find_all_classes"]),
    (L + "print_statements/typescript_analyzer.py", ["_collect_console_calls"]),
    (L + "dry/constant_violation_builder.py", ["ConstantViolationBuilder"]),
    (L + "dry/python_constant_extractor.py", ["_extract_from_assign", "_extract_from_ann_assign", "_to_const_info"]),
    (L + "dry/typescript_constant_extractor.py", ["TypeScriptConstantExtractor"]),
    ("src/core/linter_utils.py", ["get_line_context"]),
]


# ---------------------------------------------------------------- expression shapes
def _is_attr(e, attr):
    return isinstance(e, ast.Attribute) and e.attr == attr


def _is_point(e, attr, idx):
    """x.start_point[idx]"""
    return (isinstance(e, ast.Subscript) and _is_attr(e.value, attr) and isinstance(e.slice, ast.Constant) and e.slice.value == idx)


def _hasattr_guard(e, attr):
    """`x.attr if hasattr(x, "attr") else k`  ->  (x.attr, k)"""
    if isinstance(e, ast.IfExp) and _is_attr(e.body, attr) and isinstance(e.test, ast.Call) and isinstance(e.test.func, ast.Name) \
            and e.test.func.id == "hasattr" and len(e.test.args) == 2 and ast.unparse(e.test.args[0]) == ast.unparse(e.body.value) \
            and isinstance(e.test.args[1], ast.Constant) and e.test.args[1].value == attr and isinstance(e.orelse, ast.Constant):
        return e.body
    return None


def classify_line(e) -> str:
    if _is_attr(e, "lineno"):
        return "LBase1 0"
    g = _hasattr_guard(e, "lineno")
    if g is not None:
        return "LBase1 0"
    if _is_point(e, "start_point", 0):
        return "LBase0 0"
    if isinstance(e, ast.BinOp) and isinstance(e.op, ast.Add) and _is_point(e.left, "start_point", 0) and isinstance(e.right, ast.Constant) \
            and isinstance(e.right.value, int) and e.right.value >= 0:
        return f"LBase0 {e.right.value}"
    if isinstance(e, ast.BinOp) and isinstance(e.op, ast.Add) and _is_attr(e.left, "lineno") and isinstance(e.right, ast.Constant) \
            and isinstance(e.right.value, int) and e.right.value >= 0:
        return f"LBase1 {e.right.value}"
    if isinstance(e, ast.Constant) and isinstance(e.value, int) and e.value >= 0:
        return f"LConst {e.value}"
    raise Unsupported(f"line expression {ast.unparse(e)}")


def classify_col(e) -> str:
    if _is_attr(e, "col_offset") or _hasattr_guard(e, "col_offset") is not None or _is_point(e, "start_point", 1):
        return "CNode 0"
    if isinstance(e, ast.BinOp) and isinstance(e.op, ast.Add) and (_is_attr(e.left, "col_offset") or _is_point(e.left, "start_point", 1)) \
            and isinstance(e.right, ast.Constant) and isinstance(e.right.value, int) and e.right.value >= 0:
        return f"CNode {e.right.value}"
    if isinstance(e, ast.Constant) and isinstance(e.value, int) and e.value >= 0:
        return f"CConst {e.value}"
    raise Unsupported(f"column expression {ast.unparse(e)}")


def _scope(rel, func, cls=None):
    mod = parse(rel)
    return find_func(find_class(mod, cls) if cls else mod, func)


def site_expr(rel, func, name, cls=None):
    """the unique expression bound to `name` inside the function: keyword argument, dict entry or local assignment
    (`name=name` pass-throughs are skipped)"""
    f = _scope(rel, func, cls)
    hits = []
    for n in ast.walk(f):
        if isinstance(n, ast.Call):
            hits += [k.value for k in n.keywords if k.arg == name]
        elif isinstance(n, ast.Dict):
            hits += [v for k, v in zip(n.keys, n.values) if isinstance(k, ast.Constant) and k.value == name]
        elif isinstance(n, ast.Assign) and len(n.targets) == 1 and isinstance(n.targets[0], ast.Name) and n.targets[0].id == name:
            hits.append(n.value)
    hits = [h for h in hits if not (isinstance(h, ast.Name) and h.id == name)]
    distinct = {ast.dump(h) for h in hits}
    if len(distinct) != 1:
        raise Unsupported(f"{rel}::{func}: {len(distinct)} distinct expressions for `{name}`")
    return hits[0]


def _param_passthrough(rel, func, name, cls=None):
    """the builder forwards its parameter `name` unchanged"""
    f = _scope(rel, func, cls)
    if name not in [a.arg for a in f.args.args]:
        raise Unsupported(f"{rel}::{func}: no parameter {name}")
    kws = [k.value for n in ast.walk(f) if isinstance(n, ast.Call) for k in n.keywords if k.arg == name]
    if not kws or not all(isinstance(k, ast.Name) and k.id == name for k in kws):
        raise Unsupported(f"{rel}::{func}: parameter {name} is not forwarded unchanged")
    for n in ast.walk(f):
        if isinstance(n, (ast.Assign, ast.AugAssign)):
            tg = n.targets if isinstance(n, ast.Assign) else [n.target]
            if any(isinstance(t, ast.Name) and t.id == name for t in tg):
                raise Unsupported(f"{rel}::{func}: parameter {name} is reassigned")


def _enumerate_start(rel, func, cls):
    f = _scope(rel, func, cls)
    hits = []
    for n in ast.walk(f):
        if isinstance(n, ast.Call) and isinstance(n.func, ast.Name) and n.func.id == "enumerate":
            st = [k.value for k in n.keywords if k.arg == "start"]
            if len(n.args) == 2:
                st.append(n.args[1])
            if ast.unparse(n.args[0]) != 'content.split("\\n")' and ast.unparse(n.args[0]) != "content.split('\\n')":
                raise Unsupported(f"{rel}::{func}: enumerate over {ast.unparse(n.args[0])}")
            hits.append(const_value(st[0]) if st else 0)
    if len(hits) != 1 or not isinstance(hits[0], int) or hits[0] < 0:
        raise Unsupported(f"{rel}::{func}: enumerate start {hits}")
    return hits[0]


def _all_equal(xs, what):
    if len(set(xs)) != 1:
        raise Unsupported(f"{what}: sites disagree {sorted(set(xs))}")
    return xs[0]


# ---------------------------------------------------------------- the modelled builders
def _builders():
    out = []
    nb = L + "nesting/violation_builder.py"
    out.append(("nesting.py", classify_line(site_expr(nb, "create_nesting_violation", "line")), classify_col(site_expr(nb, "create_nesting_violation", "column"))))
    for lang, fn in (("ts", "create_typescript_nesting_violation"), ("rs", "create_rust_nesting_violation")):
        out.append((f"nesting.{lang}", classify_line(site_expr(nb, fn, "line")), classify_col(site_expr(nb, fn, "column"))))
    # magic numbers: the analyzers compute line_number, the builders forward it and choose the column
    mb = L + "magic_numbers/violation_builder.py"
    for lang, an, afn, bfn in (("py", "python_analyzer.py", "visit_Constant", "create_violation"),
                               ("ts", "typescript_analyzer.py", "_collect_numeric_literals", "create_typescript_violation"),
                               ("rs", "rust_analyzer.py", "_collect_numeric_literals", "create_rust_violation")):
        _param_passthrough(mb, bfn, "line", "ViolationBuilder")
        out.append((f"magic.{lang}", classify_line(site_expr(L + "magic_numbers/" + an, afn, "line_number")),
                    classify_col(site_expr(mb, bfn, "column", "ViolationBuilder"))))
    # SRP: the analyzers put line / column into the metrics dict, the builder reads metrics["line"] / metrics["column"]
    sb = _scope(L + "srp/violation_builder.py", "build_violation", "ViolationBuilder")
    if ast.unparse(site_expr(L + "srp/violation_builder.py", "build_violation", "line", "ViolationBuilder")) != "metrics['line']" or \
            ast.unparse(site_expr(L + "srp/violation_builder.py", "build_violation", "column", "ViolationBuilder")) != "metrics['column']":
        raise Unsupported("srp build_violation: line/column are not metrics['line'] / metrics['column']")
    del sb
    for lang, an, afn, cls in (("py", "python_analyzer.py", "analyze_class", None), ("ts", "typescript_analyzer.py", "analyze_class", "TypeScriptSRPAnalyzer"),
                               ("rs", "rust_analyzer.py", "analyze_struct", "RustSRPAnalyzer")):
        rel = L + "srp/" + an
        if cls is None:
            mod = parse(rel)
            fn = [n for n in mod.body if isinstance(n, ast.FunctionDef) and n.name == afn]
            if len(fn) != 1:
                raise Unsupported(f"{rel}: module-level {afn}")
            f = fn[0]
            hits_l = [v for n in ast.walk(f) if isinstance(n, ast.Dict) for k, v in zip(n.keys, n.values) if isinstance(k, ast.Constant) and k.value == "line"]
            hits_c = [v for n in ast.walk(f) if isinstance(n, ast.Dict) for k, v in zip(n.keys, n.values) if isinstance(k, ast.Constant) and k.value == "column"]
            if len(hits_l) != 1 or len(hits_c) != 1:
                raise Unsupported(f"{rel}::{afn}: line/column entries")
            out.append((f"srp.{lang}", classify_line(hits_l[0]), classify_col(hits_c[0])))
        else:
            out.append((f"srp.{lang}", classify_line(site_expr(rel, afn, "line", cls)), classify_col(site_expr(rel, afn, "column", cls))))
    # Rust safety linters: the analyzers record line / column, the rule classes forward call.line / call.column
    for name, rel, fn in (("unwrap", L + "unwrap_abuse/rust_analyzer.py", "_find_unwrap_recursive"),
                          ("clone", L + "clone_abuse/rust_analyzer.py", "_find_clone_recursive"),
                          ("blocking", L + "blocking_async/rust_analyzer.py", "_check_blocking_call")):
        out.append((name, classify_line(site_expr(rel, fn, "line")), classify_col(site_expr(rel, fn, "column"))))
    # DRY: line = block.start_line, the first element of a window of (enumerate(content.split("\n"), start=k)) pairs
    db = L + "dry/violation_builder.py"
    if ast.unparse(site_expr(db, "build_violation", "line", "DRYViolationBuilder")) != "block.start_line":
        raise Unsupported("dry build_violation: line is not block.start_line")
    k = _all_equal([_enumerate_start(L + "dry/python_analyzer.py", "_tokenize_with_line_numbers", "PythonDuplicateAnalyzer"),
                    _enumerate_start(L + "dry/typescript_analyzer.py", "_tokenize_with_line_numbers", "TypeScriptDuplicateAnalyzer")], "dry enumerate start")
    out.append(("dry", f"LBase0 {k}", classify_col(site_expr(db, "build_violation", "column", "DRYViolationBuilder"))))
    # DRY duplicate constants: the extractors record line_number, ConstantViolationBuilder reports loc.line_number, column 1
    cvb = L + "dry/constant_violation_builder.py"
    if ast.unparse(site_expr(cvb, "_violations_for_group", "line", "ConstantViolationBuilder")) != "loc.line_number":
        raise Unsupported("constant violation line is not loc.line_number")
    ccol = classify_col(site_expr(cvb, "_violations_for_group", "column", "ConstantViolationBuilder"))
    pce = L + "dry/python_constant_extractor.py"
    if ast.unparse(site_expr(pce, "_to_const_info", "line_number")) != "lineno":
        raise Unsupported("_to_const_info does not forward lineno")
    pf = find_func(parse(pce), "_to_const_info")
    if [a.arg for a in pf.args.args][2:3] != ["lineno"]:
        raise Unsupported("_to_const_info third parameter")
    third = []
    for fn in ("_extract_from_assign", "_extract_from_ann_assign"):
        for n in ast.walk(find_func(parse(pce), fn)):
            if isinstance(n, ast.Call) and isinstance(n.func, ast.Name) and n.func.id == "_to_const_info":
                if len(n.args) != 3 or n.keywords:
                    raise Unsupported("_to_const_info call shape")
                third.append(classify_line(n.args[2]))
    if len(third) != 2:
        raise Unsupported(f"_to_const_info calls: {len(third)}")
    out.append(("dry.constant.py", _all_equal(third, "python constant line"), ccol))
    out.append(("dry.constant.ts", classify_line(site_expr(L + "dry/typescript_constant_extractor.py", "_extract_from_declarator", "line_number", "TypeScriptConstantExtractor")), ccol))
    # print statements
    pb = L + "print_statements/violation_builder.py"
    for lang, an, afn, acls, bfn in (("py", "python_analyzer.py", "_collect_print_calls", "PythonPrintStatementAnalyzer", "create_python_violation"),
                                     ("ts", "typescript_analyzer.py", "_collect_console_calls", "TypeScriptPrintStatementAnalyzer", "create_typescript_violation")):
        _param_passthrough(pb, bfn, "line", "ViolationBuilder")
        out.append((f"print.{lang}", classify_line(site_expr(L + "print_statements/" + an, afn, "line_number", acls)),
                    classify_col(site_expr(pb, bfn, "column", "ViolationBuilder"))))
    # stateless-class: ClassInfo(node.name, node.lineno, node.col_offset) -> line=info.line, column=info.column
    sa = L + "stateless_class/python_analyzer.py"
    ci = find_class(parse(sa), "ClassInfo")
    fields = [st.target.id for st in ci.body if isinstance(st, ast.AnnAssign) and isinstance(st.target, ast.Name)]
    if fields != ["name", "line", "column"]:
        raise Unsupported(f"ClassInfo fields {fields}")
    calls = [n for n in ast.walk(find_func(parse(sa), "_find_stateless_classes")) if isinstance(n, ast.Call) and isinstance(n.func, ast.Name) and n.func.id == "ClassInfo"]
    if len(calls) != 1 or len(calls[0].args) != 3 or calls[0].keywords:
        raise Unsupported("ClassInfo construction")
    sl = L + "stateless_class/linter.py"
    if ast.unparse(site_expr(sl, "_create_violation", "line")) != "info.line" or ast.unparse(site_expr(sl, "_create_violation", "column")) != "info.column":
        raise Unsupported("stateless _create_violation")
    out.append(("stateless", classify_line(calls[0].args[1]), classify_col(calls[0].args[2])))
    # CQS: the analyzers record line / column of the function node, build_cqs_violation forwards pattern.line / pattern.column
    cvb2 = L + "cqs/violation_builder.py"
    if ast.unparse(site_expr(cvb2, "build_cqs_violation", "line")) != "pattern.line" or ast.unparse(site_expr(cvb2, "build_cqs_violation", "column")) != "pattern.column":
        raise Unsupported("cqs violation does not forward pattern.line / pattern.column")
    out.append(("cqs.py", classify_line(site_expr(L + "cqs/function_analyzer.py", "_build_pattern", "line", "FunctionAnalyzer")),
                classify_col(site_expr(L + "cqs/function_analyzer.py", "_build_pattern", "column", "FunctionAnalyzer"))))
    out.append(("cqs.ts", classify_line(site_expr(L + "cqs/typescript_function_analyzer.py", "_analyze_function", "line", "TypeScriptFunctionAnalyzer")),
                classify_col(site_expr(L + "cqs/typescript_function_analyzer.py", "_analyze_function", "column", "TypeScriptFunctionAnalyzer"))))
    # file-placement: four factory functions, all line=1 column=0
    fp = L + "file_placement/violation_factory.py"
    fns = ["create_deny_violation", "create_allow_violation", "create_global_deny_violation", "create_global_allow_violation"]
    out.append(("file-placement", _all_equal([classify_line(site_expr(fp, f, "line", "ViolationFactory")) for f in fns], "file-placement line"),
                _all_equal([classify_col(site_expr(fp, f, "column", "ViolationFactory")) for f in fns], "file-placement column")))
    # file-header: column constants; the atemporal line is an index into the header text (enumerate(lines, start=k))
    fh = L + "file_header/violation_builder.py"
    out.append(("file-header.missing", "LConst 1" if _default_of(fh, "build_missing_field", "line") == 1 else _unsup("missing-field default line"),
                classify_col(site_expr(fh, "build_missing_field", "column", "ViolationBuilder"))))
    det = _scope(L + "file_header/atemporal_detector.py", "detect_violations", "AtemporalDetector")
    en = [n for n in ast.walk(det) if isinstance(n, ast.Call) and isinstance(n.func, ast.Name) and n.func.id == "enumerate"]
    if len(en) != 1 or ast.unparse(en[0].args[0]) != "lines":
        raise Unsupported("atemporal enumerate")
    st = [k.value for k in en[0].keywords if k.arg == "start"]
    out.append(("file-header.atemporal", f"LBase0 {const_value(st[0]) if st else 0}", classify_col(site_expr(fh, "build_atemporal_violation", "column", "ViolationBuilder"))))
    return out


def _unsup(msg):
    raise Unsupported(msg)


def _default_of(rel, func, param):
    f = _scope(rel, func, "ViolationBuilder")
    names = [a.arg for a in f.args.args]
    if param not in names:
        raise Unsupported(f"{func}: no parameter {param}")
    i = names.index(param) - (len(names) - len(f.args.defaults))
    if i < 0:
        raise Unsupported(f"{func}: {param} has no default")
    return const_value(f.args.defaults[i])


def builders_table():
    rows = _builders()
    return defn("loc_builders", "list (string * lexpr * cexpr)",
                coq_list([f"({coq_string(n)}, {l}, {c})" for n, l, c in rows]))


def builder_rows():
    """for the harness (same extraction, fail-closed)"""
    return _builders()


# ---------------------------------------------------------------- census of row / column uses
SCAN_DIRS = ["src/linters", "src/analyzers", "src/core"]


def _py_files():
    out = []
    for d in SCAN_DIRS:
        base = REPO / d
        if not base.is_dir():
            raise Unsupported(f"{d} missing")
        out += sorted(str(p.relative_to(REPO)) for p in base.rglob("*.py"))
    return out


def _functions_with_parents(mod):
    """(qualified name, node) for every function; module-level code is `<module>`"""
    out = []

    def walk(n, prefix):
        for c in ast.iter_child_nodes(n):
            if isinstance(c, (ast.FunctionDef, ast.AsyncFunctionDef)):
                out.append((prefix + c.name, c))
                walk(c, prefix + c.name + ".")
            elif isinstance(c, ast.ClassDef):
                walk(c, prefix + c.name + ".")
            else:
                walk(c, prefix)
    walk(mod, "")
    return out


def _owner_map(mod):
    own = {}
    for q, f in _functions_with_parents(mod):
        for n in ast.walk(f):
            own[id(n)] = q          # inner functions overwrite: walk order is outer first
    return own


def _census(pred_point, plus_attr):
    """every Subscript/Attribute satisfying pred_point, with the arithmetic applied directly to it"""
    rows = []
    for rel in _py_files():
        mod = parse(rel)
        own = _owner_map(mod)
        parent = {}
        for n in ast.walk(mod):
            for c in ast.iter_child_nodes(n):
                parent[id(c)] = n
        for n in ast.walk(mod):
            if not pred_point(n):
                continue
            p = parent.get(id(n))
            site = f"{rel}::{own.get(id(n), '<module>')}"
            if isinstance(p, ast.BinOp) and isinstance(p.op, (ast.Add, ast.Sub)) and (p.left is n) and isinstance(p.right, ast.Constant) \
                    and isinstance(p.right.value, int):
                if isinstance(p.op, ast.Sub):
                    rows.append((site, f"UMinus {p.right.value}"))
                else:
                    rows.append((site, f"UPlus {p.right.value}"))
            elif isinstance(p, ast.BinOp) and isinstance(p.op, (ast.Add, ast.Sub, ast.Mult)):
                rows.append((site, "UArith"))
            else:
                rows.append((site, "URaw"))
    return rows


def row_sites():
    rows = _census(lambda n: _is_point(n, "start_point", 0) or _is_point(n, "end_point", 0), None)
    if not rows:
        raise Unsupported("no tree-sitter row use found")
    return defn("loc_row_sites", "list (string * use)", coq_list([f"({coq_string(s)}, {u})" for s, u in rows]))


def lineno_sites():
    rows = [r for r in _census(lambda n: _is_attr(n, "lineno") or _is_attr(n, "end_lineno"), None) if r[1] != "URaw"]
    return defn("loc_lineno_sites", "list (string * use)", coq_list([f"({coq_string(s)}, {u})" for s, u in rows]))


def col_sites():
    rows = _census(lambda n: _is_point(n, "start_point", 1) or _is_attr(n, "col_offset"), None)
    if not rows:
        raise Unsupported("no column use found")
    return defn("loc_col_sites", "list (string * use)", coq_list([f"({coq_string(s)}, {u})" for s, u in rows]))


# ---------------------------------------------------------------- SARIF
def sarif_region():
    cls = find_class(parse("src/formatters/sarif.py"), "SarifFormatter")
    f = find_func(cls, "_create_location")
    ent = {}
    for n in ast.walk(f):
        if isinstance(n, ast.Dict):
            for k, v in zip(n.keys, n.values):
                if isinstance(k, ast.Constant) and k.value in ("startLine", "startColumn", "endLine", "endColumn"):
                    ent[k.value] = v

    def off(e, attr):
        if ast.unparse(e) == f"violation.{attr}":
            return 0
        if isinstance(e, ast.BinOp) and isinstance(e.op, ast.Add) and ast.unparse(e.left) == f"violation.{attr}" and isinstance(e.right, ast.Constant) \
                and isinstance(e.right.value, int) and e.right.value >= 0:
            return e.right.value
        raise Unsupported(f"SARIF region expression {ast.unparse(e)}")
    if set(ent) != {"startLine", "startColumn"}:
        raise Unsupported(f"SARIF region keys {sorted(ent)}")
    return defn("sarif_region", "nat * nat", f"({off(ent['startLine'], 'line')}, {off(ent['startColumn'], 'column')})")


# ---------------------------------------------------------------- message formats
MESSAGE_SITES = [
    ("nesting.py", L + "nesting/violation_builder.py", "NestingViolationBuilder", "create_nesting_violation", "message"),
    ("nesting.ts", L + "nesting/violation_builder.py", "NestingViolationBuilder", "create_typescript_nesting_violation", "message"),
    ("nesting.rs", L + "nesting/violation_builder.py", "NestingViolationBuilder", "create_rust_nesting_violation", "message"),
    ("magic.py", L + "magic_numbers/violation_builder.py", "ViolationBuilder", "create_violation", "message"),
    ("magic.ts", L + "magic_numbers/violation_builder.py", "ViolationBuilder", "create_typescript_violation", "message"),
    ("magic.rs", L + "magic_numbers/violation_builder.py", "ViolationBuilder", "create_rust_violation", "message"),
    ("srp", L + "srp/violation_builder.py", "ViolationBuilder", "build_violation", "message"),
    ("unwrap.unwrap", L + "unwrap_abuse/violation_builder.py", None, "build_unwrap_violation", "message"),
    ("unwrap.expect", L + "unwrap_abuse/violation_builder.py", None, "build_expect_violation", "message"),
    ("clone.loop", L + "clone_abuse/violation_builder.py", None, "build_clone_in_loop_violation", "message"),
    ("clone.chain", L + "clone_abuse/violation_builder.py", None, "build_clone_chain_violation", "message"),
    ("clone.unnecessary", L + "clone_abuse/violation_builder.py", None, "build_unnecessary_clone_violation", "message"),
    ("blocking.fs", L + "blocking_async/violation_builder.py", None, "build_fs_in_async_violation", "message"),
    ("blocking.sleep", L + "blocking_async/violation_builder.py", None, "build_sleep_in_async_violation", "message"),
    ("blocking.net", L + "blocking_async/violation_builder.py", None, "build_net_in_async_violation", "message"),
    ("print.py", L + "print_statements/violation_builder.py", "ViolationBuilder", "create_python_violation", "message"),
    ("print.ts", L + "print_statements/violation_builder.py", "ViolationBuilder", "create_typescript_violation", "message"),
    ("file-header.missing", L + "file_header/violation_builder.py", "ViolationBuilder", "build_missing_field", "message"),
    ("file-header.atemporal", L + "file_header/violation_builder.py", "ViolationBuilder", "build_atemporal_violation", "message"),
    ("performance.concat", L + "performance/violation_builder.py", "PerformanceViolationBuilder", "create_string_concat_violation", "message"),
    ("performance.regex", L + "performance/violation_builder.py", "PerformanceViolationBuilder", "create_regex_in_loop_violation", "message"),
    ("cqs", L + "cqs/violation_builder.py", None, "build_cqs_violation", "message"),
    ("lazy.unjustified", L + "lazy_ignores/violation_builder.py", None, "build_unjustified_violation", "message"),
    ("lazy.orphaned", L + "lazy_ignores/violation_builder.py", None, "build_orphaned_violation", "message"),
    ("lbyl.dict-key-check", L + "lbyl/violation_builder.py", None, "build_dict_key_violation", "message"),
    ("lbyl.hasattr-check", L + "lbyl/violation_builder.py", None, "build_hasattr_violation", "message"),
    ("lbyl.isinstance-check", L + "lbyl/violation_builder.py", None, "build_isinstance_violation", "message"),
    ("lbyl.file-exists-check", L + "lbyl/violation_builder.py", None, "build_file_exists_violation", "message"),
    ("lbyl.len-check", L + "lbyl/violation_builder.py", None, "build_len_check_violation", "message"),
    ("lbyl.none-check", L + "lbyl/violation_builder.py", None, "build_none_check_violation", "message"),
    ("lbyl.string-validator", L + "lbyl/violation_builder.py", None, "build_string_validator_violation", "message"),
    ("lbyl.division-check", L + "lbyl/violation_builder.py", None, "build_division_check_violation", "message"),
]


def _joined(e):
    """f-string, plain string, or implicit concatenation `( f"..." f"..." )` (one JoinedStr after parsing)"""
    return fstring_parts(e)


def message_rows():
    rows = []
    for name, rel, cls, fn, var in MESSAGE_SITES:
        e = site_expr(rel, fn, var, cls)
        rows.append((name, _joined(e)))
    # method-property builds its message in a helper with four return statements
    f = _scope(L + "method_property/violation_builder.py", "_build_message", "ViolationBuilder")
    rets = [n.value for n in ast.walk(f) if isinstance(n, ast.Return)]
    if len(rets) != 4:
        raise Unsupported(f"method-property _build_message: {len(rets)} returns")
    for j, r in enumerate(rets):
        rows.append((f"method-property.{j}", _joined(r)))
    # stateless-class message
    rows.append(("stateless", _joined(site_expr(L + "stateless_class/linter.py", "_create_violation", "message"))))
    # DRY head
    f = _scope(L + "dry/violation_builder.py", "_build_message", "DRYViolationBuilder")
    asg = [n.value for n in ast.walk(f) if isinstance(n, ast.Assign) and isinstance(n.targets[0], ast.Name) and n.targets[0].id == "message"]
    if len(asg) != 1:
        raise Unsupported("dry _build_message")
    rows.append(("dry", _joined(asg[0])))
    return rows


def messages():
    rows = message_rows()
    def part(p):
        return f"MPLit {coq_string(p[1])}" if p[0] == "lit" else f"MPVar {coq_string(p[1])}"
    return defn("loc_messages", "list (string * list mpart)",
                coq_list([f"({coq_string(n)}, {coq_list([part(p) for p in ps])})" for n, ps in rows]))


ITEMS = [
    ("loc_builders", builders_table),
    ("loc_row_sites", row_sites),
    ("loc_lineno_sites", lineno_sites),
    ("loc_col_sites", col_sites),
    ("sarif_region", sarif_region),
    ("loc_messages", messages),
]
