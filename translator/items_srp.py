"""Generated layer for the SRP linter (C16): thresholds, operators, key names, message formats,
node-type names, slice offsets and comment prefixes read from src/linters/srp/*.py with `ast`.
Every item is fail-closed: an unexpected shape raises Unsupported and the definitions are not emitted."""
import ast

from translator.lib import (CMP, Unsupported, coq_list, coq_str_list, coq_string, const_value, defn, dict_str_str,
                            find_assign, find_class, find_func, fstring_parts, parse, str_elems)

GEN_FILE = "SrpGen"
HEADER = "From TL Require Import Lib.Base Lib.GenTypes Model.SrpTypes."
SERVES = ["C16"]
D = "src/linters/srp/"
FINGERPRINTS = [
    (D + "linter.py", ["SRPRule"]),
    (D + "class_analyzer.py", ["ClassAnalyzer"]),
    (D + "python_analyzer.py", ["find_all_classes", "analyze_class"]),
    (D + "heuristics.py", ["count_methods", "_is_countable_method", "_is_private_method", "count_loc",
                           "has_responsibility_keyword", "has_property_decorator"]),
    (D + "typescript_analyzer.py", ["TypeScriptSRPAnalyzer"]),
    (D + "typescript_metrics_calculator.py", ["count_methods", "count_loc", "_get_class_body", "_is_countable_method", "_get_method_name"]),
    (D + "rust_analyzer.py", ["RustSRPAnalyzer"]),
    (D + "config.py", ["SRPConfig"]),
    (D + "metrics_evaluator.py", ["evaluate_metrics"]),
    (D + "violation_builder.py", ["ViolationBuilder"]),
    ("src/analyzers/typescript_base.py", ["walk_tree", "_walk_tree_recursive", "extract_identifier_name"]),
    ("src/analyzers/rust_base.py", ["walk_tree", "_walk_tree_recursive", "extract_identifier_name"]),
]


def need(cond, what):
    if not cond:
        raise Unsupported(what)


def body_of(f):
    """statements of a function without its docstring"""
    b = f.body
    if b and isinstance(b[0], ast.Expr) and isinstance(b[0].value, ast.Constant) and isinstance(b[0].value.value, str):
        b = b[1:]
    return b


def u(e):
    return ast.unparse(e)


def coq_bool(b):
    need(isinstance(b, bool), f"expected a boolean constant, got {b!r}")
    return "true" if b else "false"


def nat(v, what, lo=0):
    need(isinstance(v, int) and not isinstance(v, bool) and v >= lo, f"{what}: expected an integer >= {lo}, got {v!r}")
    return str(v)


# ---------------------------------------------------------------- config.py
def _consts():
    mod = parse(D + "config.py")
    out = {}
    for st in mod.body:
        if isinstance(st, ast.Assign) and len(st.targets) == 1 and isinstance(st.targets[0], ast.Name) and isinstance(st.value, ast.Constant):
            out[st.targets[0].id] = st.value.value
    return out


def _resolve(e, consts):
    if isinstance(e, ast.Name):
        need(e.id in consts, f"unknown constant {e.id}")
        return consts[e.id]
    return const_value(e)


def defaults():
    consts = _consts()
    cls = find_class(parse(D + "config.py"), "SRPConfig")
    fields = {}
    for st in cls.body:
        if isinstance(st, ast.AnnAssign) and isinstance(st.target, ast.Name) and st.value is not None:
            fields[st.target.id] = st.value
    for k in ("max_methods", "max_loc", "enabled", "check_keywords", "keywords"):
        need(k in fields, f"SRPConfig field {k} missing")
    kw = fields["keywords"]
    need(isinstance(kw, ast.Call) and u(kw.func) == "field" and len(kw.keywords) == 1 and kw.keywords[0].arg == "default_factory"
         and isinstance(kw.keywords[0].value, ast.Lambda), "keywords default_factory")
    out = defn("srp_dc_max_methods", "nat", nat(_resolve(fields["max_methods"], consts), "max_methods default", 1))
    out += defn("srp_dc_max_loc", "nat", nat(_resolve(fields["max_loc"], consts), "max_loc default", 1))
    out += defn("srp_dc_enabled", "bool", coq_bool(const_value(fields["enabled"])))
    out += defn("srp_dc_check_keywords", "bool", coq_bool(const_value(fields["check_keywords"])))
    out += defn("srp_dc_keywords", "list string", coq_str_list(str_elems(kw.keywords[0].value.body)))
    return out


def _get_call(e, recv):
    """<recv>.get(K, D) -> (K, D-expr)"""
    need(isinstance(e, ast.Call) and isinstance(e.func, ast.Attribute) and e.func.attr == "get" and u(e.func.value) == recv
         and len(e.args) == 2 and not e.keywords and isinstance(e.args[0], ast.Constant) and isinstance(e.args[0].value, str),
         f"expected {recv}.get(<key>, <default>), got {u(e)[:80]}")
    return e.args[0].value, e.args[1]


def from_dict():
    consts = _consts()
    f = find_func(find_class(parse(D + "config.py"), "SRPConfig"), "from_dict")
    need([a.arg for a in f.args.args] == ["cls", "config", "language"], "from_dict signature")
    b = body_of(f)
    need(len(b) == 2 and isinstance(b[0], ast.If) and isinstance(b[1], ast.Return), "from_dict: expected `if ...: ... else: ...; return cls(...)`")
    iff, ret = b
    need(u(iff.test) == "language and language in config", f"from_dict language test: {u(iff.test)}")
    need(len(iff.body) == 3 and len(iff.orelse) == 2, "from_dict branch sizes")
    need(u(iff.body[0]) == "lang_config = config[language]", "from_dict: lang_config assignment")

    def assign(st, var):
        need(isinstance(st, ast.Assign) and len(st.targets) == 1 and u(st.targets[0]) == var, f"from_dict: expected assignment to {var}")
        return st.value
    out = ""
    for st, var, tag in ((iff.body[1], "max_methods", "mm"), (iff.body[2], "max_loc", "ml")):
        k1, inner = _get_call(assign(st, var), "lang_config")
        k2, d = _get_call(inner, "config")
        out += defn(f"srp_fd_lang_{tag}", "(string * string * nat)", f"({coq_string(k1)}, {coq_string(k2)}, {nat(_resolve(d, consts), 'fallback', 1)})")
    for st, var, tag in ((iff.orelse[0], "max_methods", "mm"), (iff.orelse[1], "max_loc", "ml")):
        k, d = _get_call(assign(st, var), "config")
        out += defn(f"srp_fd_top_{tag}", "(string * nat)", f"({coq_string(k)}, {nat(_resolve(d, consts), 'fallback', 1)})")
    call = ret.value
    need(isinstance(call, ast.Call) and u(call.func) == "cls" and not call.args, "from_dict: return cls(...)")
    kws = {k.arg: k.value for k in call.keywords}
    need(set(kws) == {"max_methods", "max_loc", "enabled", "check_keywords", "keywords", "ignore"}, f"from_dict: cls(...) keywords {sorted(kws)}")
    for fld, tag in (("max_methods", "mm"), ("max_loc", "ml")):
        need(isinstance(kws[fld], ast.Name) and kws[fld].id in ("max_methods", "max_loc"), f"from_dict: {fld}= wiring")
        out += defn(f"srp_fd_wire_{tag}", "string", coq_string(kws[fld].id))
    k, d = _get_call(kws["enabled"], "config")
    out += defn("srp_fd_enabled", "(string * bool)", f"({coq_string(k)}, {coq_bool(const_value(d))})")
    k, d = _get_call(kws["check_keywords"], "config")
    out += defn("srp_fd_check_keywords", "(string * bool)", f"({coq_string(k)}, {coq_bool(const_value(d))})")
    k, d = _get_call(kws["keywords"], "config")
    out += defn("srp_fd_keywords", "(string * list string)", f"({coq_string(k)}, {coq_str_list(str_elems(d))})")
    return out


# ---------------------------------------------------------------- metrics_evaluator.py
def _metric_key(e):
    need(isinstance(e, ast.Subscript) and u(e.value) == "metrics" and isinstance(e.slice, ast.Constant) and isinstance(e.slice.value, str),
         f"expected metrics['<key>'], got {u(e)[:60]}")
    return e.slice.value


def _config_attr(e):
    need(isinstance(e, ast.Attribute) and u(e.value) == "config", f"expected config.<attr>, got {u(e)[:60]}")
    return e.attr


def _issue_text(st):
    need(isinstance(st, ast.Expr) and isinstance(st.value, ast.Call) and u(st.value.func) == "issues.append" and len(st.value.args) == 1,
         f"expected issues.append(...), got {u(st)[:60]}")
    e = st.value.args[0]
    if isinstance(e, ast.Constant) and isinstance(e.value, str):
        return [f"FLit {coq_string(e.value)}"]
    need(isinstance(e, ast.JoinedStr), "issue text must be a string or f-string")
    parts = []
    for v in e.values:
        if isinstance(v, ast.Constant):
            parts.append(f"FLit {coq_string(v.value)}")
            continue
        need(isinstance(v, ast.FormattedValue) and v.format_spec is None and v.conversion == -1, "f-string conversion/format spec")
        if isinstance(v.value, ast.Subscript):
            parts.append(f"FMetric {coq_string(_metric_key(v.value))}")
        else:
            parts.append(f"FConfig {coq_string(_config_attr(v.value))}")
    return parts


def clauses():
    f = find_func(parse(D + "metrics_evaluator.py"), "evaluate_metrics")
    need([a.arg for a in f.args.args] == ["metrics", "config"], "evaluate_metrics signature")
    b = body_of(f)
    need(len(b) >= 2 and u(b[0]) == "issues = []" and u(b[-1]) == "return issues", "evaluate_metrics: issues = [] ... return issues")
    out, links = [], []
    # an `if` starts a chain; each `elif` continues it (its test is only evaluated when no earlier test of the chain held); no `else`
    flat = []
    for st in b[1:-1]:
        chained = False
        while True:
            need(isinstance(st, ast.If) and len(st.body) == 1, f"evaluate_metrics: unexpected statement {u(st)[:60]}")
            flat.append((st, chained))
            if not st.orelse:
                break
            need(len(st.orelse) == 1 and isinstance(st.orelse[0], ast.If), f"evaluate_metrics: `else` branch {u(st.orelse[0])[:60]}")
            st, chained = st.orelse[0], True
    for st, chained in flat:
        links.append("true" if chained else "false")
        t = st.test
        text = coq_list(_issue_text(st.body[0]))
        if isinstance(t, ast.Compare):
            need(len(t.ops) == 1 and type(t.ops[0]) in CMP, "comparison operator")
            out.append(f"CThreshold {coq_string(_metric_key(t.left))} {CMP[type(t.ops[0])]} {coq_string(_config_attr(t.comparators[0]))} {text}")
        elif isinstance(t, ast.BoolOp) and isinstance(t.op, ast.And) and len(t.values) == 2:
            out.append(f"CFlag {coq_string(_config_attr(t.values[0]))} {coq_string(_metric_key(t.values[1]))} {text}")
        else:
            raise Unsupported(f"evaluate_metrics: unsupported test {u(t)[:60]}")
    return defn("srp_clauses", "list clause", coq_list(out)) + defn("srp_clause_links", "list bool", coq_list(links))


# ---------------------------------------------------------------- violation_builder.py / linter.py
def message():
    f = find_func(find_class(parse(D + "violation_builder.py"), "ViolationBuilder"), "build_violation")
    hits = [st for st in body_of(f) if isinstance(st, ast.Assign) and u(st.targets[0]) == "message"]
    need(len(hits) == 1, "build_violation: message assignment")
    parts = []
    for kind, v in fstring_parts(hits[0].value):
        if kind == "lit":
            parts.append(f"SLit {coq_string(v)}")
            continue
        e = ast.parse(v, mode="eval").body
        if isinstance(e, ast.Subscript):
            parts.append(f"SMetric {coq_string(_metric_key(e))}")
        elif (isinstance(e, ast.Call) and isinstance(e.func, ast.Attribute) and e.func.attr == "join" and isinstance(e.func.value, ast.Constant)
              and isinstance(e.func.value.value, str) and len(e.args) == 1 and u(e.args[0]) == "issues"):
            parts.append(f"SJoin {coq_string(e.func.value.value)}")
        else:
            raise Unsupported(f"message part {v}")
    out = defn("srp_message", "list mpart", coq_list(parts))
    info = [n for n in ast.walk(f) if isinstance(n, ast.Call) and u(n.func) == "ViolationInfo"]
    need(len(info) == 1, "ViolationInfo call")
    kws = {k.arg: u(k.value) for k in info[0].keywords}
    need(kws.get("message") == "message" and kws.get("rule_id") == "rule_id", "ViolationInfo message/rule_id wiring")
    pos = []
    for fld in ("line", "column"):
        e = [k.value for k in info[0].keywords if k.arg == fld]
        need(len(e) == 1, f"ViolationInfo {fld}")
        pos.append(coq_string(_metric_key(e[0])))
    out += defn("srp_position_keys", "(string * string)", f"({pos[0]}, {pos[1]})")
    return out


def rule():
    cls = find_class(parse(D + "linter.py"), "SRPRule")
    rid = find_func(cls, "rule_id")
    b = body_of(rid)
    need(len(b) == 1 and isinstance(b[0], ast.Return), "rule_id body")
    out = defn("srp_rule_id", "string", coq_string(const_value(b[0].value)))
    lc = body_of(find_func(cls, "_load_config"))
    need(len(lc) == 1 and isinstance(lc[0], ast.Return) and isinstance(lc[0].value, ast.Call) and u(lc[0].value.func) == "load_linter_config"
         and len(lc[0].value.args) == 3 and u(lc[0].value.args[0]) == "context" and u(lc[0].value.args[2]) == "SRPConfig", "_load_config shape")
    out += defn("srp_config_section", "string", coq_string(const_value(lc[0].value.args[1])))
    cv = body_of(find_func(cls, "_create_violation_if_needed"))
    need(u(cv[0]) == "issues = evaluate_metrics(metrics, config)" and u(cv[1]) == "if not issues:\n    return None", "_create_violation_if_needed shape")
    need(u(cv[2]) == "violation = self._violation_builder.build_violation(metrics, issues, self.rule_id, context)", "build_violation call")
    return out


def dispatch():
    consts = parse("src/core/constants.py")
    lang = find_class(consts, "Language")
    vals = {}
    for st in lang.body:
        if isinstance(st, ast.Assign) and isinstance(st.value, ast.Constant) and isinstance(st.value.value, str):
            vals[st.targets[0].id] = st.value.value
    f = find_func(find_class(parse(D + "linter.py"), "SRPRule"), "_dispatch_by_language")
    pairs = []
    for st in body_of(f):
        if isinstance(st, ast.Return):
            need(u(st.value) == "[]", "dispatch: final return []")
            continue
        need(isinstance(st, ast.If) and not st.orelse and len(st.body) == 1 and isinstance(st.body[0], ast.Return), "dispatch: if/return")
        call = st.body[0].value
        need(isinstance(call, ast.Call) and u(call.func).startswith("self._check_") and [u(a) for a in call.args] == ["context", "config"], "dispatch: handler call")
        handler = u(call.func)[len("self._check_"):]
        t = st.test
        need(isinstance(t, ast.Compare) and u(t.left) == "context.language" and len(t.ops) == 1, "dispatch: test")
        if isinstance(t.ops[0], ast.Eq):
            names = [t.comparators[0]]
        elif isinstance(t.ops[0], ast.In) and isinstance(t.comparators[0], (ast.Tuple, ast.List, ast.Set)):
            names = t.comparators[0].elts
        else:
            raise Unsupported("dispatch: comparison")
        for n in names:
            need(isinstance(n, ast.Attribute) and u(n.value) == "Language" and n.attr in vals, f"dispatch: {u(n)}")
            pairs.append((vals[n.attr], handler))
    out = defn("srp_dispatch", "list (string * string)", coq_list([f"({coq_string(a)}, {coq_string(b)})" for a, b in pairs]))
    em = dict_str_str(find_assign(parse("src/orchestrator/language_detector.py"), "EXTENSION_MAP"))
    out += defn("srp_ext_lang", "list (string * string)", coq_list([f"({coq_string(a)}, {coq_string(b)})" for a, b in em]))
    # handlers -> analyzers
    cls = find_class(parse(D + "linter.py"), "SRPRule")
    for h, an in (("python", "analyze_python"), ("typescript", "analyze_typescript"), ("rust", "analyze_rust")):
        src = u(find_func(cls, "_check_" + h))
        need(f"self._class_analyzer.{an}(context, config)" in src and "self._build_violations_from_metrics(" in src, f"_check_{h} shape")
    return out


# ---------------------------------------------------------------- analyze_* result dicts
def _metrics_dict(f, table, what):
    rets = [st for st in body_of(f) if isinstance(st, ast.Return)]
    need(len(rets) == 1 and isinstance(rets[0].value, ast.Dict), f"{what}: return {{...}}")
    out = []
    for k, v in zip(rets[0].value.keys, rets[0].value.values):
        need(isinstance(k, ast.Constant) and isinstance(k.value, str), f"{what}: dict key")
        s = u(v)
        if s in table:
            tag = table[s]
        elif isinstance(v, ast.BinOp) and isinstance(v.op, ast.Add) and u(v.left) in table and table[u(v.left)] in ("TLine 0", "THLine 0") \
                and isinstance(v.right, ast.Constant) and isinstance(v.right.value, int) and v.right.value >= 0:
            tag = f"{table[u(v.left)].split()[0]} {v.right.value}"
        else:
            raise Unsupported(f"{what}: value of key {k.value}: {s[:60]}")
        out.append(f"({coq_string(k.value)}, {tag})")
    return coq_list(out)


def _assigned(f, var):
    hits = [st.value for st in body_of(f) if isinstance(st, ast.Assign) and len(st.targets) == 1 and u(st.targets[0]) == var]
    need(len(hits) == 1, f"assignment to {var}")
    return u(hits[0])


def _kw_mode(e, kwvar, namevar, listvar):
    """any(<kw> in <name> for <kw> in <list>)"""
    need(isinstance(e, ast.Call) and u(e.func) == "any" and len(e.args) == 1 and isinstance(e.args[0], ast.GeneratorExp), "keyword test: any(...)")
    g = e.args[0]
    need(len(g.generators) == 1 and not g.generators[0].ifs and u(g.generators[0].target) == kwvar and u(g.generators[0].iter) == listvar,
         f"keyword test: generator over {listvar}")
    t = g.elt
    need(isinstance(t, ast.Compare) and len(t.ops) == 1, "keyword test: comparison")
    l, r, op = u(t.left), u(t.comparators[0]), t.ops[0]
    if isinstance(op, ast.In) and (l, r) == (kwvar, namevar):
        return "KwIn"
    if isinstance(op, ast.In) and (l, r) == (namevar, kwvar):
        return "KwRev"
    if isinstance(op, ast.Eq) and {l, r} == {kwvar, namevar}:
        return "KwEq"
    raise Unsupported(f"keyword test: {u(t)}")


# ---------------------------------------------------------------- Python
def py_items():
    h = parse(D + "heuristics.py")
    cm = find_func(h, "count_methods")
    isi = [n for n in ast.walk(cm) if isinstance(n, ast.Call) and u(n.func) == "isinstance"]
    need(len(isi) == 1 and len(isi[0].args) == 2 and u(isi[0].args[0]) == "n" and isinstance(isi[0].args[1], (ast.Tuple, ast.Attribute)), "count_methods: isinstance")
    types = []
    for x in (isi[0].args[1].elts if isinstance(isi[0].args[1], ast.Tuple) else [isi[0].args[1]]):     # isinstance(n, (A, B)) or isinstance(n, A)
        need(isinstance(x, ast.Attribute) and u(x.value) == "ast", "count_methods: node types")
        types.append(x.attr)
    b = body_of(cm)
    need(len(b) == 3 and u(b[0]).startswith("func_nodes = (n for n in class_node.body if isinstance(n,")
         and u(b[1]) == "public_methods = [n for n in func_nodes if _is_countable_method(n)]" and u(b[2]) == "return len(public_methods)",
         "count_methods shape")
    icm = body_of(find_func(h, "_is_countable_method"))
    need(len(icm) >= 1 and u(icm[-1]) == "return True", "_is_countable_method: final return True")
    py_tests = []
    for st in icm[:-1]:
        need(isinstance(st, ast.If) and not st.orelse and len(st.body) == 1 and u(st.body[0]) == "return False", f"_is_countable_method: {u(st)[:60]}")
        t = u(st.test)
        need(t in ("has_property_decorator(node)", "_is_private_method(node.name)"), f"_is_countable_method: unknown test {t}")
        py_tests.append("property" if t.startswith("has_property") else "private")
    ipm = body_of(find_func(h, "_is_private_method"))
    need(len(ipm) == 1 and isinstance(ipm[0], ast.Return) and isinstance(ipm[0].value, ast.Call) and u(ipm[0].value.func) == "method_name.startswith"
         and len(ipm[0].value.args) == 1, "_is_private_method shape")
    hpd = body_of(find_func(h, "has_property_decorator"))
    need(len(hpd) == 1 and isinstance(hpd[0], ast.Return), "has_property_decorator shape")
    e = hpd[0].value
    need(isinstance(e, ast.Call) and u(e.func) == "any" and isinstance(e.args[0], ast.GeneratorExp) and u(e.args[0].generators[0].iter) == "func_node.decorator_list"
         and u(e.args[0].generators[0].target) == "decorator", "has_property_decorator: any over decorator_list")
    t = e.args[0].elt
    need(isinstance(t, ast.BoolOp) and isinstance(t.op, ast.And) and len(t.values) == 2 and u(t.values[0]) == "isinstance(decorator, ast.Name)"
         and isinstance(t.values[1], ast.Compare) and u(t.values[1].left) == "decorator.id" and isinstance(t.values[1].ops[0], ast.Eq), "has_property_decorator test")
    out = defn("py_method_node_types", "list string", coq_str_list(types))
    pfx, deco = coq_string(const_value(ipm[0].value.args[0])), coq_string(const_value(t.values[1].comparators[0]))
    out += defn("py_countable_tests", "list mtest", coq_list([f"TPyProperty {deco}" if x == "property" else f"TPyPrivate {pfx}" for x in py_tests]))
    # count_loc
    cl = body_of(find_func(h, "count_loc"))
    need(len(cl) == 5 and u(cl[0]) == "start_line = class_node.lineno" and u(cl[1]) == "end_line = class_node.end_lineno or start_line", "count_loc: line range")
    sl = cl[2]
    need(isinstance(sl, ast.Assign) and u(sl.targets[0]) == "lines" and isinstance(sl.value, ast.Subscript) and u(sl.value.value) == "source.split('\\n')"
         and isinstance(sl.value.slice, ast.Slice) and sl.value.slice.step is None, "count_loc: slice")
    lo, hi = sl.value.slice.lower, sl.value.slice.upper
    out += defn("py_loc_lo_sub", "nat", str(_offset(lo, "start_line", ast.Sub)))
    out += defn("py_loc_hi_add", "nat", str(_offset(hi, "end_line", ast.Add)))
    comp = cl[3]
    need(isinstance(comp, ast.Assign) and u(comp.targets[0]) == "code_lines" and isinstance(comp.value, ast.ListComp) and u(cl[4]) == "return len(code_lines)",
         "count_loc: comprehension")
    g = comp.value.generators[0]
    need(u(comp.value.elt) == "s" and u(g.target) == "line" and u(g.iter) == "lines" and len(g.ifs) == 1, "count_loc: generator")
    c = g.ifs[0]
    need(isinstance(c, ast.BoolOp) and isinstance(c.op, ast.And) and len(c.values) == 2 and u(c.values[0]) == "(s := line.strip())", "count_loc: blank test")
    n = c.values[1]
    need(isinstance(n, ast.UnaryOp) and isinstance(n.op, ast.Not) and isinstance(n.operand, ast.Call) and u(n.operand.func) == "s.startswith"
         and len(n.operand.args) == 1, "count_loc: comment test")
    out += defn("py_comment_prefix", "string", coq_string(const_value(n.operand.args[0])))
    # keyword
    hk = body_of(find_func(h, "has_responsibility_keyword"))
    need(len(hk) == 1 and isinstance(hk[0], ast.Return), "has_responsibility_keyword shape")
    out += defn("py_kw_mode", "kwmode", _kw_mode(hk[0].value, "keyword", "class_name", "keywords"))
    # analyze_class and find_all_classes
    pa = parse(D + "python_analyzer.py")
    ac = [n for n in pa.body if isinstance(n, ast.FunctionDef) and n.name == "analyze_class"]
    need(len(ac) == 1, "analyze_class")
    need(_assigned(ac[0], "method_count") == "count_methods(class_node)" and _assigned(ac[0], "loc") == "count_loc(class_node, source)"
         and _assigned(ac[0], "has_keyword") == "has_responsibility_keyword(class_node.name, config.keywords)", "analyze_class: metric computations")
    out += defn("py_metrics_dict", "list (string * mtag)", _metrics_dict(ac[0], {
        "class_node.name": "TName", "method_count": "TMethodCount", "loc": "TLoc", "has_keyword": "THasKeyword",
        "class_node.lineno": "TLine 0", "class_node.col_offset": "TColumn"}, "analyze_class"))
    fc = [n for n in pa.body if isinstance(n, ast.FunctionDef) and n.name == "find_all_classes"]
    need(len(fc) == 1, "find_all_classes")
    isi = [n for n in ast.walk(fc[0]) if isinstance(n, ast.Call) and u(n.func) == "isinstance"]
    need(len(isi) == 1 and isinstance(isi[0].args[1], ast.Attribute) and u(isi[0].args[1].value) == "ast" and "ast.walk(tree)" in u(fc[0]), "find_all_classes shape")
    out += defn("py_class_node_types", "list string", coq_str_list([isi[0].args[1].attr]))
    ca = find_func(find_class(parse(D + "class_analyzer.py"), "ClassAnalyzer"), "analyze_python")
    need("self._python_analyzer.find_all_classes(tree)" in u(ca) and "self._python_analyzer.analyze_class(class_node, context.file_content or '', config)" in u(ca)
         and "for class_node in classes" in u(ca), "analyze_python shape")
    return out


def _offset(e, var, op):
    """<var>, <var> - k or <var> + k -> k (for the expected operator only)"""
    if isinstance(e, ast.Name) and e.id == var:
        return 0
    need(isinstance(e, ast.BinOp) and isinstance(e.op, op) and u(e.left) == var and isinstance(e.right, ast.Constant)
         and isinstance(e.right.value, int) and not isinstance(e.right.value, bool) and e.right.value >= 0, f"slice bound {u(e) if e is not None else None}")
    return e.right.value


# ---------------------------------------------------------------- TypeScript / JavaScript
def _walk_type(cls, fn):
    b = body_of(find_func(cls, fn))
    need(len(b) == 1 and isinstance(b[0], ast.Return) and isinstance(b[0].value, ast.Call) and u(b[0].value.func) == "self.walk_tree"
         and u(b[0].value.args[0]) == "root_node" and len(b[0].value.args) == 2, f"{fn}: walk_tree call")
    return const_value(b[0].value.args[1])


def _walk_types(cls, fn):
    """return self.walk_tree(root_node, T1) [+ self.walk_tree(root_node, T2) ...] -> [T1, T2, ...]"""
    b = body_of(find_func(cls, fn))
    need(len(b) == 1 and isinstance(b[0], ast.Return), f"{fn}: single return")

    def terms(e):
        if isinstance(e, ast.BinOp) and isinstance(e.op, ast.Add):
            return terms(e.left) + terms(e.right)
        need(isinstance(e, ast.Call) and u(e.func) == "self.walk_tree" and len(e.args) == 2 and not e.keywords and u(e.args[0]) == "root_node",
             f"{fn}: walk_tree call")
        return [const_value(e.args[1])]
    out = terms(b[0].value)
    need(all(isinstance(x, str) for x in out), f"{fn}: node type names")
    return out


def _walk_tree_ok(rel, cls):
    c = find_class(parse(rel), cls)
    r = body_of(find_func(c, "_walk_tree_recursive"))
    need([u(s) for s in r] == ["if node.type == node_type:\n    nodes.append(node)",
                               "for child in node.children:\n    self._walk_tree_recursive(child, node_type, nodes)"], f"{cls}._walk_tree_recursive shape")


def _first_child_type(f, var):
    """for child in <var>.children: if child.type == T: return ... -> T"""
    loops = [n for n in ast.walk(f) if isinstance(n, ast.For)]
    need(len(loops) == 1 and u(loops[0].iter) == f"{var}.children" and u(loops[0].target) == "child" and len(loops[0].body) == 1
         and isinstance(loops[0].body[0], ast.If) and not loops[0].body[0].orelse and len(loops[0].body[0].body) == 1
         and isinstance(loops[0].body[0].body[0], ast.Return), f"{f.name}: first-child loop")
    t = loops[0].body[0].test
    need(isinstance(t, ast.Compare) and u(t.left) == "child.type" and len(t.ops) == 1, f"{f.name}: type test")
    if isinstance(t.ops[0], ast.Eq):
        return [const_value(t.comparators[0])], u(loops[0].body[0].body[0].value)
    if isinstance(t.ops[0], ast.In):
        return str_elems(t.comparators[0]), u(loops[0].body[0].body[0].value)
    raise Unsupported(f"{f.name}: type test operator")


def ts_items():
    _walk_tree_ok("src/analyzers/typescript_base.py", "TypeScriptBaseAnalyzer")
    an = find_class(parse(D + "typescript_analyzer.py"), "TypeScriptSRPAnalyzer")
    out = defn("ts_class_node_types", "list string", coq_str_list(_walk_types(an, "find_all_classes")))
    ac = find_func(an, "analyze_class")
    # _header_node (optional): the first child whose type is one of the listed keywords, else the class node itself
    hdr_table = {}
    hn = [n for n in an.body if isinstance(n, ast.FunctionDef) and n.name == "_header_node"]
    if hn:
        tys, ret = _first_child_type(hn[0], "class_node")
        hb = body_of(hn[0])
        need(ret == "child" and len(hb) == 2 and u(hb[1]) == "return class_node" and sorted(tys) == ["abstract", "class"], "_header_node shape")
        hdr_table = {"self._header_node(class_node).start_point[0]": "THLine 0", "self._header_node(class_node).start_point[1]": "THColumn"}
    need(_assigned(ac, "class_name") == "self.extract_identifier_name(class_node)" and _assigned(ac, "method_count") == "self.metrics_calculator.count_methods(class_node)"
         and _assigned(ac, "loc") == "self.metrics_calculator.count_loc(class_node, source)", "ts analyze_class: metric computations")
    hk = [st.value for st in body_of(ac) if isinstance(st, ast.Assign) and u(st.targets[0]) == "has_keyword"]
    need(len(hk) == 1, "ts analyze_class: has_keyword")
    out += defn("ts_kw_mode", "kwmode", _kw_mode(hk[0], "keyword", "class_name", "config.keywords"))
    out += defn("ts_metrics_dict", "list (string * mtag)", _metrics_dict(ac, {
        "class_name": "TName", "method_count": "TMethodCount", "loc": "TLoc", "has_keyword": "THasKeyword",
        "class_node.start_point[0]": "TLine 0", "class_node.start_point[1]": "TColumn", **hdr_table}, "ts analyze_class"))
    ein = find_func(find_class(parse("src/analyzers/typescript_base.py"), "TypeScriptBaseAnalyzer"), "extract_identifier_name")
    tys, ret = _first_child_type(ein, "node")
    need(ret == "self.extract_node_text(child)", "extract_identifier_name return")
    out += defn("ts_class_name_node_types", "list string", coq_str_list(tys))
    mc = parse(D + "typescript_metrics_calculator.py")
    fns = {n.name: n for n in mc.body if isinstance(n, ast.FunctionDef)}
    for k in ("count_methods", "count_loc", "_get_class_body", "_is_countable_method", "_get_method_name"):
        need(k in fns, f"typescript_metrics_calculator.{k}")
    calc = find_class(mc, "TypeScriptMetricsCalculator")
    need(u(body_of(find_func(calc, "count_methods"))[0]) == "return count_methods(class_node)"
         and u(body_of(find_func(calc, "count_loc"))[0]) == "return count_loc(class_node, source)", "TypeScriptMetricsCalculator delegation")
    cm = [u(s) for s in body_of(fns["count_methods"])]
    need(cm == ["class_body = _get_class_body(class_node)", "if not class_body:\n    return 0", "method_count = 0",
                "for child in class_body.children:\n    if _is_countable_method(child):\n        method_count += 1", "return method_count"], "ts count_methods shape")
    tys, ret = _first_child_type(fns["_get_class_body"], "class_node")
    need(len(tys) == 1 and ret == "child", "_get_class_body")
    out += defn("ts_class_body_type", "string", coq_string(tys[0]))
    tys, ret = _first_child_type(fns["_get_method_name"], "node")
    need(len(tys) == 1 and ret == "child.text.decode()", "_get_method_name")
    out += defn("ts_name_node_type", "string", coq_string(tys[0]))
    ic = body_of(fns["_is_countable_method"])
    need(len(ic) >= 1 and u(ic[-1]) == "return True", "ts _is_countable_method: final return True")
    tests, have_name = [], False
    for st in ic[:-1]:
        if u(st) == "method_name = _get_method_name(node)":
            have_name = True
            continue
        need(isinstance(st, ast.If) and not st.orelse and len(st.body) == 1 and u(st.body[0]) == "return False", f"ts _is_countable_method: {u(st)[:60]}")
        t = st.test
        if isinstance(t, ast.Compare) and u(t.left) == "node.type" and len(t.ops) == 1 and isinstance(t.ops[0], ast.NotEq):
            tests.append(f"TNotNodeType {coq_string(const_value(t.comparators[0]))}")
        elif isinstance(t, ast.Compare) and u(t.left) == "method_name" and len(t.ops) == 1 and isinstance(t.ops[0], ast.Eq):
            need(have_name, "method_name used before assignment")
            tests.append(f"TNameEq {coq_string(const_value(t.comparators[0]))}")
        elif (isinstance(t, ast.BoolOp) and isinstance(t.op, ast.And) and len(t.values) == 2 and u(t.values[0]) == "method_name"
              and isinstance(t.values[1], ast.Call) and u(t.values[1].func) == "method_name.startswith" and len(t.values[1].args) == 1):
            need(have_name, "method_name used before assignment")
            tests.append(f"TNamePrefix {coq_string(const_value(t.values[1].args[0]))}")
        else:
            raise Unsupported(f"ts _is_countable_method: unsupported test {u(t)[:60]}")
    out += defn("ts_countable_tests", "list mtest", coq_list(tests))
    cl = body_of(fns["count_loc"])
    need(len(cl) in (3, 4) and u(cl[0]) == "start_line = class_node.start_point[0]" and u(cl[1]) == "end_line = class_node.end_point[0]"
         and isinstance(cl[-1], ast.Return), "ts count_loc shape")
    if len(cl) == 3:
        e = cl[2].value
        need(isinstance(e, ast.BinOp) and isinstance(e.op, ast.Add) and u(e.left) == "end_line - start_line" and isinstance(e.right, ast.Constant)
             and isinstance(e.right.value, int) and e.right.value >= 0, f"ts count_loc expression {u(e)}")
        out += defn("ts_loc_mode", "locmode", f"LocSpan {e.right.value}")
    else:
        lo, hi, pfx = _filtered_slice(cl[2], cl[3], "ts count_loc")
        out += defn("ts_loc_mode", "locmode", f"LocFilter {lo} {hi} {coq_string(pfx)}")
    ca = find_func(find_class(parse(D + "class_analyzer.py"), "ClassAnalyzer"), "analyze_typescript")
    need("self._typescript_analyzer.find_all_classes(root_node)" in u(ca) and "self._typescript_analyzer.analyze_class(class_node, context.file_content or '', config)" in u(ca)
         and "for class_node in classes" in u(ca), "analyze_typescript shape")
    return out


def _filtered_slice(sl, r, what):
    """lines = source.split('\\n')[start_line - a : end_line + b];  return sum(1 for line in lines if <non-blank> and not <startswith P>)"""
    need(isinstance(sl, ast.Assign) and u(sl.targets[0]) == "lines" and isinstance(sl.value, ast.Subscript) and u(sl.value.value) == "source.split('\\n')"
         and isinstance(sl.value.slice, ast.Slice) and sl.value.slice.step is None, f"{what}: slice")
    lo = _offset(sl.value.slice.lower, "start_line", ast.Sub)
    hi = _offset(sl.value.slice.upper, "end_line", ast.Add)
    need(isinstance(r, ast.Return) and isinstance(r.value, ast.Call) and u(r.value.func) == "sum" and len(r.value.args) == 1
         and isinstance(r.value.args[0], ast.GeneratorExp), f"{what}: sum")
    g = r.value.args[0]
    need(u(g.elt) == "1" and len(g.generators) == 1 and u(g.generators[0].target) == "line" and u(g.generators[0].iter) == "lines"
         and len(g.generators[0].ifs) == 1, f"{what}: generator")
    c = g.generators[0].ifs[0]
    need(isinstance(c, ast.BoolOp) and isinstance(c.op, ast.And) and len(c.values) == 2, f"{what}: condition")
    n = c.values[1]
    need(isinstance(n, ast.UnaryOp) and isinstance(n.op, ast.Not) and isinstance(n.operand, ast.Call) and len(n.operand.args) == 1, f"{what}: comment test")
    blank, call = u(c.values[0]), u(n.operand.func)
    need((blank, call) in (("line.strip()", "line.strip().startswith"), ("(s := line.strip())", "s.startswith")), f"{what}: blank/comment tests {blank} / {call}")
    return lo, hi, const_value(n.operand.args[0])


# ---------------------------------------------------------------- Rust
def rs_items():
    _walk_tree_ok("src/analyzers/rust_base.py", "RustBaseAnalyzer")
    an = find_class(parse(D + "rust_analyzer.py"), "RustSRPAnalyzer")
    out = defn("rs_struct_node_type", "string", coq_string(_walk_type(an, "find_all_structs")))
    out += defn("rs_impl_node_type", "string", coq_string(_walk_type(an, "find_all_impl_blocks")))
    gt = find_func(an, "get_impl_target_name")
    gb = body_of(gt)
    if len(gb) == 2:
        tys, ret = _first_child_type(gt, "impl_node")
        need(len(tys) == 1 and ret == "self.extract_node_text(child)" and u(gb[1]) == "return ''", "get_impl_target_name (loop form)")
        out += defn("rs_target_mode", "tmode", f"TargetFirst {coq_string(tys[0])}")
    else:
        need(len(gb) == 5 and u(gb[0]) == "type_node = impl_node.child_by_field_name('type')" and u(gb[4]) == "return ''", "get_impl_target_name (field form)")
        g1, g2 = gb[1], gb[2]
        need(isinstance(g1, ast.If) and not g1.orelse and [u(x) for x in g1.body] == ["type_node = type_node.child_by_field_name('type')"]
             and isinstance(g1.test, ast.BoolOp) and isinstance(g1.test.op, ast.And) and u(g1.test.values[0]) == "type_node is not None"
             and isinstance(g1.test.values[1], ast.Compare) and u(g1.test.values[1].left) == "type_node.type" and isinstance(g1.test.values[1].ops[0], ast.Eq),
             "get_impl_target_name: generic unwrap")
        need(isinstance(g2, ast.If) and not g2.orelse and [u(x) for x in g2.body] == ["return self.extract_node_text(type_node)"]
             and isinstance(g2.test, ast.BoolOp) and isinstance(g2.test.op, ast.And) and u(g2.test.values[0]) == "type_node is not None"
             and isinstance(g2.test.values[1], ast.Compare) and u(g2.test.values[1].left) == "type_node.type" and isinstance(g2.test.values[1].ops[0], ast.Eq),
             "get_impl_target_name: field test")
        loop = ast.Module(body=[gb[3]], type_ignores=[])
        fake = ast.FunctionDef(name="get_impl_target_name", body=[gb[3]], args=None, decorator_list=[])
        tys, ret = _first_child_type(fake, "impl_node")
        need(len(tys) == 1 and ret == "self.extract_node_text(child)", "get_impl_target_name: fallback loop")
        out += defn("rs_target_mode", "tmode", f"TargetField {coq_string(const_value(g1.test.values[1].comparators[0]))} "
                                               f"{coq_string(const_value(g2.test.values[1].comparators[0]))} {coq_string(tys[0])}")
    tys2, ret = _first_child_type(find_func(an, "_extract_type_name"), "node")
    need(len(tys2) == 1 and ret == "self.extract_node_text(child)", "_extract_type_name")
    out += defn("rs_struct_name_node_type", "string", coq_string(tys2[0]))
    tys, ret = _first_child_type(find_func(an, "_find_declaration_list"), "impl_node")
    need(len(tys) == 1 and ret == "child", "_find_declaration_list")
    out += defn("rs_decl_list_type", "string", coq_string(tys[0]))
    cim = [u(s) for s in body_of(find_func(an, "count_impl_methods"))]
    need(cim[0] == "declaration_list = self._find_declaration_list(impl_node)" and cim[1] == "if declaration_list is None:\n    return 0"
         and cim[2] == "count = 0" and cim[4] == "return count" and len(cim) == 5, "count_impl_methods shape")
    loop = body_of(find_func(an, "count_impl_methods"))[3]
    need(isinstance(loop, ast.For) and u(loop.iter) == "declaration_list.children" and len(loop.body) == 1 and isinstance(loop.body[0], ast.If)
         and u(loop.body[0].body[0]) == "count += 1", "count_impl_methods loop")
    t = loop.body[0].test
    need(isinstance(t, ast.BoolOp) and isinstance(t.op, ast.And) and len(t.values) == 2 and isinstance(t.values[0], ast.Compare)
         and u(t.values[0].left) == "child.type" and isinstance(t.values[0].ops[0], ast.Eq) and u(t.values[1]) == "self._is_countable_method(child)", "count_impl_methods test")
    out += defn("rs_fn_node_type", "string", coq_string(const_value(t.values[0].comparators[0])))
    icm = body_of(find_func(an, "_is_countable_method"))
    need(len(icm) == 2 and u(icm[0]) == "name = self.extract_identifier_name(func_node)" and isinstance(icm[1], ast.Return), "rs _is_countable_method shape")
    e = icm[1].value
    need(isinstance(e, ast.UnaryOp) and isinstance(e.op, ast.Not) and isinstance(e.operand, ast.Call) and u(e.operand.func) == "name.startswith", "rs prefix test")
    out += defn("rs_private_prefix", "string", coq_string(const_value(e.operand.args[0])))
    tys, ret = _first_child_type(find_func(find_class(parse("src/analyzers/rust_base.py"), "RustBaseAnalyzer"), "extract_identifier_name"), "node")
    need(len(tys) == 1 and ret == "self.extract_node_text(child)", "rust extract_identifier_name")
    out += defn("rs_name_node_type", "string", coq_string(tys[0]))
    need([u(s) for s in body_of(find_func(an, "_count_total_methods"))] == ["return sum((self.count_impl_methods(impl_node) for impl_node in impl_blocks))"],
         "_count_total_methods shape")
    need([u(s) for s in body_of(find_func(an, "_calculate_loc"))] == ["struct_loc = self._node_loc(struct_node, source)",
                                                                      "impl_loc = sum((self._node_loc(impl_node, source) for impl_node in impl_blocks))",
                                                                      "return struct_loc + impl_loc"], "_calculate_loc shape")
    nl = body_of(find_func(an, "_node_loc"))
    need(len(nl) == 4 and u(nl[0]) == "start_line = node.start_point[0]" and u(nl[1]) == "end_line = node.end_point[0]", "_node_loc: line range")
    lo, hi, pfx = _filtered_slice(nl[2], nl[3], "_node_loc")
    out += defn("rs_loc_lo_sub", "nat", str(lo))
    out += defn("rs_loc_hi_add", "nat", str(hi))
    out += defn("rs_comment_prefix", "string", coq_string(pfx))
    ast_ = find_func(an, "analyze_struct")
    need(_assigned(ast_, "struct_name") == "self._extract_type_name(struct_node)" and _assigned(ast_, "method_count") == "self._count_total_methods(impl_blocks)"
         and _assigned(ast_, "loc") == "self._calculate_loc(struct_node, impl_blocks, source)", "analyze_struct: metric computations")
    hk = [st.value for st in body_of(ast_) if isinstance(st, ast.Assign) and u(st.targets[0]) == "has_keyword"]
    need(len(hk) == 1, "analyze_struct: has_keyword")
    out += defn("rs_kw_mode", "kwmode", _kw_mode(hk[0], "keyword", "struct_name", "config.keywords"))
    out += defn("rs_metrics_dict", "list (string * mtag)", _metrics_dict(ast_, {
        "struct_name": "TName", "method_count": "TMethodCount", "loc": "TLoc", "has_keyword": "THasKeyword",
        "struct_node.start_point[0]": "TLine 0", "struct_node.start_point[1]": "TColumn"}, "analyze_struct"))
    ca = find_class(parse(D + "class_analyzer.py"), "ClassAnalyzer")
    ar = u(find_func(ca, "analyze_rust"))
    need("structs = self._rust_analyzer.find_all_structs(root_node)" in ar and "impl_blocks = self._rust_analyzer.find_all_impl_blocks(root_node)" in ar
         and "impl_map = self._build_impl_map(impl_blocks)" in ar
         and "self._rust_analyzer.analyze_struct(struct_node, impl_map.get(self._rust_analyzer.get_impl_target_name(struct_node), []), context.file_content or '', config)" in ar
         and "for struct_node in structs" in ar, "analyze_rust shape")
    bm = [u(s) for s in body_of(find_func(ca, "_build_impl_map"))]
    need(bm == ["impl_map: dict[str, list] = {}",
                "for impl_node in impl_blocks:\n    target_name = self._rust_analyzer.get_impl_target_name(impl_node)\n    if target_name:\n        impl_map.setdefault(target_name, []).append(impl_node)",
                "return impl_map"], "_build_impl_map shape")
    return out


ITEMS = [
    ("defaults", defaults),
    ("from_dict", from_dict),
    ("clauses", clauses),
    ("message", message),
    ("rule", rule),
    ("dispatch", dispatch),
    ("python", py_items),
    ("typescript", ts_items),
    ("rust", rs_items),
]
