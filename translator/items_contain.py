"""Generated layer for failure containment and language detection (C11).

Everything the containment / detection theorems depend on that is a literal in the source:
the extension table, the shebang rule, the `except` tables of the three containment sites and of
the content readers, the exit status of the CLI error path, whether `finalize()` is guarded, and
the order in which the two cross-file rules compute and store their evidence.
"""
import ast

from translator.lib import (Unsupported, cmp_op, const_value, coq_list, coq_str_list, coq_string, defn, dict_str_str,
                            find_assign, find_class, find_func, parse)

GEN_FILE = "ContainGen"
HEADER = "From TL Require Import Lib.Base Lib.GenTypes Model.ContainTypes."
SERVES = ["C11"]
CORE = "src/orchestrator/core.py"
DET = "src/orchestrator/language_detector.py"
UTL = "src/core/linter_utils.py"
FINGERPRINTS = [
    (CORE, ["_safe_check_rule", "_execute_rules", "lint_file", "lint_files", "_lint_file_worker", "_extract_violations_from_future",
            "_collect_parallel_results", "_finalize_rules", "file_content", "lint_files_parallel", "_collect_cross_file_evidence"]),
    (DET, ["detect_language", "_detect_from_shebang", "_read_first_line", "_parse_shebang_language"]),
    (UTL, ["parse_python_ast", "with_parsed_python"]),
    ("src/linters/dry/linter.py", ["_process_file", "_analyze_and_store", "_extract_and_store_constants", "check"]),
    ("src/linters/stringly_typed/linter.py", ["_analyze_python_file", "_analyze_typescript_file", "_store_validation_patterns",
                                              "_store_function_calls", "_store_comparisons", "_store_typescript_results"]),
    ("src/cli/linters/shared.py", ["run_linter_command"]),
    ("src/cli/utils.py", ["handle_linting_error"]),
    ("src/analyzers/typescript_base.py", ["walk_tree", "_walk_tree_recursive"]),
    ("src/analyzers/rust_base.py", ["walk_tree", "_walk_tree_recursive"]),
]


# ---------------------------------------------------------------- language detection
def extension_map():
    pairs = dict_str_str(find_assign(parse(DET), "EXTENSION_MAP"))
    if len({k for k, _ in pairs}) != len(pairs):
        raise Unsupported("duplicate key in EXTENSION_MAP")
    return defn("extension_map", "list (string * string)", coq_list([f"({coq_string(k)}, {coq_string(v)})" for k, v in pairs]))


def _body(fn):
    b = list(fn.body)
    if b and isinstance(b[0], ast.Expr) and isinstance(b[0].value, ast.Constant) and isinstance(b[0].value.value, str):
        b = b[1:]
    return b


def shebang_rule():
    """if not line.startswith(P): return None ; (if N in line: return L)* ; return None"""
    f = find_func(parse(DET), "_parse_shebang_language")
    b = _body(f)
    if len(b) < 2:
        raise Unsupported("shape")
    g = b[0]
    ok = (isinstance(g, ast.If) and isinstance(g.test, ast.UnaryOp) and isinstance(g.test.op, ast.Not)
          and isinstance(g.test.operand, ast.Call) and ast.unparse(g.test.operand.func) == "line.startswith"
          and len(g.test.operand.args) == 1 and not g.orelse and len(g.body) == 1
          and isinstance(g.body[0], ast.Return) and const_value(g.body[0].value) is None)
    if not ok:
        raise Unsupported("guard shape: " + ast.unparse(g)[:80])
    prefix = const_value(g.test.operand.args[0])
    langs = []
    for st in b[1:-1]:
        t = st.test if isinstance(st, ast.If) else None
        if not (t is not None and isinstance(t, ast.Compare) and len(t.ops) == 1 and isinstance(t.ops[0], ast.In)
                and ast.unparse(t.comparators[0]) == "line" and not st.orelse and len(st.body) == 1
                and isinstance(st.body[0], ast.Return)):
            raise Unsupported("needle shape: " + ast.unparse(st)[:80])
        langs.append((const_value(t.left), const_value(st.body[0].value)))
    last = b[-1]
    if not (isinstance(last, ast.Return) and const_value(last.value) is None):
        raise Unsupported("final return")
    if not isinstance(prefix, str) or not all(isinstance(a, str) and isinstance(c, str) for a, c in langs):
        raise Unsupported("non-string literal")
    return (defn("shebang_prefix", "string", coq_string(prefix))
            + defn("shebang_langs", "list (string * string)", coq_list([f"({coq_string(a)}, {coq_string(c)})" for a, c in langs])))


def detect_shape():
    """ext = file_path.suffix.lower(); with suppress(KeyError): return EXTENSION_MAP[ext];
       if file_path.exists() and file_path.stat().st_size <op> <k>: lang = _detect_from_shebang(..); if lang: return lang
       return "<unknown>" """
    f = find_func(parse(DET), "detect_language")
    b = _body(f)
    if len(b) != 4:
        raise Unsupported(f"{len(b)} statements")
    a0 = b[0]
    if not (isinstance(a0, ast.Assign) and ast.unparse(a0.targets[0]) == "ext"):
        raise Unsupported("ext assignment")
    src = ast.unparse(a0.value)
    if src == "file_path.suffix.lower()":
        lowered = True
    elif src == "file_path.suffix":
        lowered = False
    else:
        raise Unsupported("ext expression " + src)
    w = b[1]
    if not (isinstance(w, ast.With) and ast.unparse(w.items[0].context_expr) == "suppress(KeyError)" and len(w.body) == 1
            and isinstance(w.body[0], ast.Return) and ast.unparse(w.body[0].value) == "EXTENSION_MAP[ext]"):
        raise Unsupported("table lookup shape")
    i = b[2]
    if not (isinstance(i, ast.If) and isinstance(i.test, ast.BoolOp) and isinstance(i.test.op, ast.And) and not i.orelse):
        raise Unsupported("shebang guard shape")
    conj = list(i.test.values)
    no_ext_only = False
    if ast.unparse(conj[0]) == "not ext":       # shebang consulted for extensionless names only
        no_ext_only = True
        conj = conj[1:]
    if not (len(conj) == 2 and ast.unparse(conj[0]) == "file_path.exists()"):
        raise Unsupported("shebang guard shape")
    c = conj[1]
    if not (isinstance(c, ast.Compare) and ast.unparse(c.left) == "file_path.stat().st_size"):
        raise Unsupported("size test")
    op = cmp_op(c)
    k = const_value(c.comparators[0])
    if not isinstance(k, int) or k < 0:
        raise Unsupported("size bound")
    ib = i.body
    if not (len(ib) == 2 and isinstance(ib[0], ast.Assign) and ast.unparse(ib[0].value) == "_detect_from_shebang(file_path)"
            and isinstance(ib[1], ast.If) and ast.unparse(ib[1].test) == "lang" and ast.unparse(ib[1].body[0]) == "return lang"):
        raise Unsupported("shebang branch shape")
    r = b[3]
    if not (isinstance(r, ast.Return) and isinstance(const_value(r.value), str)):
        raise Unsupported("fallback")
    return (defn("detect_ext_lowered", "bool", "true" if lowered else "false")
            + defn("shebang_requires_no_ext", "bool", "true" if no_ext_only else "false")
            + defn("shebang_size_cmp", "cmp", op) + defn("shebang_size_bound", "nat", str(k))
            + defn("unknown_language", "string", coq_string(const_value(r.value))))


def first_line_sep():
    f = find_func(parse(DET), "_read_first_line")
    b = _body(f)
    if len(b) != 1 or not isinstance(b[0], ast.Return):
        raise Unsupported("shape")
    e = b[0].value
    if not (isinstance(e, ast.Subscript) and const_value(e.slice) == 0 and isinstance(e.value, ast.Call)
            and isinstance(e.value.func, ast.Attribute) and e.value.func.attr == "split" and len(e.value.args) == 1
            and ast.unparse(e.value.func.value) == "file_path.read_text(encoding='utf-8')"):
        raise Unsupported("expression " + ast.unparse(e))
    sep = const_value(e.value.args[0])
    if not isinstance(sep, str) or not sep:
        raise Unsupported("separator")
    return defn("first_line_sep", "string", coq_string(sep))


# ---------------------------------------------------------------- except tables
def _names(t):
    if t is None:
        return ["BaseException"]
    if isinstance(t, ast.Name):
        return [t.id]
    if isinstance(t, ast.Tuple) and all(isinstance(x, ast.Name) for x in t.elts):
        return [x.id for x in t.elts]
    raise Unsupported("handler type " + ast.unparse(t))


def _is_log_call(st):
    if not (isinstance(st, ast.Expr) and isinstance(st.value, ast.Call)):
        return False
    fn = ast.unparse(st.value.func)
    return fn in ("_verif_failure_tap", "logger.exception", "logger.error", "logger.warning", "logger.debug")


def _action(h: ast.ExceptHandler) -> str:
    body = [st for st in h.body if not _is_log_call(st)]
    if len(body) == 1:
        st = body[0]
        if isinstance(st, ast.Raise) and st.exc is None:
            return "HReraise"
        if isinstance(st, ast.Return):
            v = st.value
            if isinstance(v, ast.List) and not v.elts:
                return "HReturnEmpty"
            if v is None or (isinstance(v, ast.Constant) and v.value is None):
                return "HReturnNone"
        if isinstance(st, ast.Assign) and isinstance(st.value, ast.Constant) and st.value.value is None:
            return "HReturnNone"   # self._content = None (file_content falls through to `return self._content`)
    if len(body) == 2 and isinstance(body[0], ast.Assign) and "create_syntax_error_violation" in ast.unparse(body[0].value) \
            and isinstance(body[1], ast.Return) and ast.unparse(body[1].value) == "(None, [violation])":
        return "HViolation"
    raise Unsupported("handler body " + " ; ".join(ast.unparse(s)[:50] for s in h.body))


def _handlers(rel, func, scope=None, guarded_call=None):
    mod = parse(rel)
    f = find_func(find_class(mod, scope) if scope else mod, func)
    tries = [n for n in ast.walk(f) if isinstance(n, ast.Try)]
    if len(tries) != 1:
        raise Unsupported(f"{func}: {len(tries)} try statements")
    t = tries[0]
    if t.finalbody or t.orelse:
        raise Unsupported(f"{func}: else/finally")
    if guarded_call is not None:
        src = " ; ".join(ast.unparse(s) for s in t.body)
        if guarded_call not in src:
            raise Unsupported(f"{func}: try body does not contain {guarded_call}: {src[:80]}")
    return [(_names(h.type), _action(h)) for h in t.handlers]


def _coq_handlers(hs):
    return coq_list([f"({coq_str_list(ns)}, {a})" for ns, a in hs])


def safe_check_handlers():
    return defn("safe_check_handlers", "list handler",
                _coq_handlers(_handlers(CORE, "_safe_check_rule", "Orchestrator", "rule.check(context)")))


def worker_handlers():
    return defn("worker_handlers", "list handler", _coq_handlers(_handlers(CORE, "_lint_file_worker", None, "orchestrator.lint_file(file_path)")))


def future_handlers():
    return defn("future_handlers", "list handler",
                _coq_handlers(_handlers(CORE, "_extract_violations_from_future", "Orchestrator", "future.result()")))


def file_content_handlers():
    return defn("file_content_handlers", "list handler",
                _coq_handlers(_handlers(CORE, "file_content", "FileLintContext", "self._path.read_text(encoding=")))


def shebang_handlers():
    return defn("shebang_handlers", "list handler", _coq_handlers(_handlers(DET, "_detect_from_shebang", None, "_read_first_line(file_path)")))


def parse_python_handlers():
    return defn("parse_python_handlers", "list handler", _coq_handlers(_handlers(UTL, "parse_python_ast", None, "ast.parse(")))


# ---------------------------------------------------------------- orchestrator shape
def execute_rules_shape():
    """_execute_rules: every rule goes through _safe_check_rule; lint_file ends in _execute_rules"""
    cls = find_class(parse(CORE), "Orchestrator")
    f = find_func(cls, "_execute_rules")
    loops = [n for n in ast.walk(f) if isinstance(n, ast.For)]
    if len(loops) != 1 or ast.unparse(loops[0].iter) != "rules":
        raise Unsupported("_execute_rules loop")
    body_src = [ast.unparse(s) for s in loops[0].body]
    if body_src != ["rule_violations = self._safe_check_rule(rule, context)", "violations.extend(rule_violations)"]:
        raise Unsupported("_execute_rules body: " + " ; ".join(body_src)[:120])
    if any(isinstance(n, ast.Try) for n in ast.walk(f)):
        raise Unsupported("_execute_rules has its own try")
    lf = find_func(cls, "lint_file")
    last = _body(lf)[-1]
    if ast.unparse(last) != "return self._execute_rules(rules, context)":
        raise Unsupported("lint_file tail")
    guarded = any(isinstance(n, ast.Try) for n in ast.walk(lf))
    return defn("lint_file_guarded", "bool", "true" if guarded else "false")


def finalize_guards():
    """for each place that calls rule.finalize(): is the call inside a try?"""
    cls = find_class(parse(CORE), "Orchestrator")
    out = []
    for fn in ("lint_files", "lint_directory", "_finalize_rules"):
        f = find_func(cls, fn)
        calls = [n for n in ast.walk(f) if isinstance(n, ast.Call) and ast.unparse(n.func) == "rule.finalize"]
        if len(calls) != 1:
            raise Unsupported(f"{fn}: {len(calls)} finalize calls")
        guarded = False
        for t in [n for n in ast.walk(f) if isinstance(n, ast.Try)]:
            if any(c is calls[0] for st in t.body for c in ast.walk(st)):
                guarded = True
        out.append((fn, guarded))
    # per-file phase precedes finalize in lint_files
    lf = find_func(cls, "lint_files")
    kinds = [type(s).__name__ for s in _body(lf)]
    if kinds != ["Assign", "For", "For", "Return"]:
        raise Unsupported("lint_files statements " + str(kinds))
    if ast.unparse(_body(lf)[1].body[0]) != "violations.extend(self.lint_file(file_path))":
        raise Unsupported("lint_files first loop")
    return defn("finalize_guards", "list (string * bool)", coq_list([f"({coq_string(n)}, {'true' if g else 'false'})" for n, g in out]))


def parallel_shape():
    """lint_files_parallel: does the parent re-run the cross-file rules (those overriding finalize) over the files before finalizing?"""
    cls = find_class(parse(CORE), "Orchestrator")
    f = find_func(cls, "lint_files_parallel")
    calls = [ast.unparse(n.func) for n in ast.walk(f) if isinstance(n, ast.Call)]
    if "self._execute_parallel_linting" not in calls or "self._finalize_rules" not in calls:
        raise Unsupported("lint_files_parallel calls " + str(calls))
    collects = "self._collect_cross_file_evidence" in calls
    if collects:
        order = [c for c in calls if c in ("self._execute_parallel_linting", "self._collect_cross_file_evidence", "self._finalize_rules")]
        if order != ["self._execute_parallel_linting", "self._collect_cross_file_evidence", "self._finalize_rules"]:
            raise Unsupported("lint_files_parallel order " + str(order))
        g = find_func(cls, "_collect_cross_file_evidence")
        src = ast.unparse(g)
        if "type(r).finalize is not BaseLintRule.finalize" not in src or "self._execute_rules(rules, context)" not in src:
            raise Unsupported("_collect_cross_file_evidence shape")
        if any(isinstance(n, ast.Try) for n in ast.walk(g)):
            raise Unsupported("_collect_cross_file_evidence has a try")
    return defn("par_parent_collects", "bool", "true" if collects else "false")


def walker_shape():
    """_walk_tree_recursive of both tree-sitter base analyzers: test the node, then one self-call per child (no explicit stack)"""
    out = []
    for rel, cls in (("src/analyzers/typescript_base.py", "TypeScriptBaseAnalyzer"), ("src/analyzers/rust_base.py", "RustBaseAnalyzer")):
        f = find_func(find_class(parse(rel), cls), "_walk_tree_recursive")
        b = _body(f)
        if len(b) != 2:
            raise Unsupported(f"{rel}: {len(b)} statements")
        if ast.unparse(b[0]) != "if node.type == node_type:\n    nodes.append(node)":
            raise Unsupported(f"{rel}: first statement " + ast.unparse(b[0])[:60])
        loop = b[1]
        if not (isinstance(loop, ast.For) and ast.unparse(loop.iter) == "node.children" and len(loop.body) == 1
                and ast.unparse(loop.body[0]) == "self._walk_tree_recursive(child, node_type, nodes)"):
            raise Unsupported(f"{rel}: loop shape")
        w = find_func(find_class(parse(rel), cls), "walk_tree")
        if "self._walk_tree_recursive(node, node_type, nodes)" not in ast.unparse(w) or any(isinstance(n, ast.Try) for n in ast.walk(w)):
            raise Unsupported(f"{rel}: walk_tree shape")
        out.append(True)
    return defn("walker_recursive", "bool", "true" if all(out) else "false")


def cli_error_exit():
    f = find_func(parse("src/cli/utils.py"), "handle_linting_error")
    exits = [n for n in ast.walk(f) if isinstance(n, ast.Call) and ast.unparse(n.func) == "sys.exit"]
    if len(exits) != 1 or len(exits[0].args) != 1:
        raise Unsupported("sys.exit calls")
    code = const_value(exits[0].args[0])
    if not isinstance(code, int) or code < 0:
        raise Unsupported("exit code")
    r = find_func(parse("src/cli/linters/shared.py"), "run_linter_command")
    hl = [n for n in ast.walk(r) if isinstance(n, ast.ExceptHandler)]
    if len(hl) != 1:
        raise Unsupported("run_linter_command handlers")
    h = hl[0]
    if [ast.unparse(s) for s in h.body] != ["handle_linting_error(e, params.verbose)"]:
        raise Unsupported("run_linter_command handler body")
    return defn("cli_error_exit", "nat", str(code)) + defn("cli_error_catches", "list string", coq_str_list(_names(h.type)))


# ---------------------------------------------------------------- cross-file rules: order of compute / store
def _callee(e):
    if isinstance(e, ast.Call) and isinstance(e.func, ast.Attribute):
        return e.func.attr
    if isinstance(e, ast.Call) and isinstance(e.func, ast.Name):
        return e.func.id
    return None


def _is_guard(st):
    if isinstance(st, ast.Assert):
        return True
    if isinstance(st, ast.If) and len(st.body) == 1 and isinstance(st.body[0], ast.Return) and not st.orelse:
        return True
    return False


def dry_steps():
    cls = find_class(parse("src/linters/dry/linter.py"), "DRYRule")
    out = []
    for st in _body(find_func(cls, "_process_file")):
        if _is_guard(st):
            continue
        if isinstance(st, ast.Assign):
            tgt = st.targets[0]
            if isinstance(tgt, ast.Name) and _callee(st.value) is None:
                continue   # file_path = context.file_path
            if isinstance(tgt, ast.Subscript) and ast.unparse(tgt.value) == "self._file_contents":
                out.append("XPre \"file_contents\"")
                continue
            raise Unsupported("_process_file assignment " + ast.unparse(st)[:60])
        if isinstance(st, ast.If) and ast.unparse(st.test) == "self._project_root is None":
            continue
        if isinstance(st, ast.If) and ast.unparse(st.test) == "config.detect_duplicate_constants" and len(st.body) == 1 \
                and _callee(getattr(st.body[0], "value", None)) == "_extract_and_store_constants":
            out.append("XComputeStore \"constants\"")
            continue
        c = _callee(getattr(st, "value", None)) if isinstance(st, ast.Expr) else None
        if c == "parse_file":
            out.append("XPre \"inline_ignore\"")
        elif c == "_ensure_storage_initialized":
            continue
        elif c == "_analyze_and_store":
            for s2 in _body(find_func(cls, "_analyze_and_store")):
                if _is_guard(s2):
                    continue
                if isinstance(s2, ast.Assign) and ast.unparse(s2.targets[0]) == "blocks" and _callee(s2.value) == "analyze":
                    out.append("XCompute \"blocks\"")
                elif isinstance(s2, ast.If) and ast.unparse(s2.test) == "blocks" and len(s2.body) == 1 \
                        and _callee(getattr(s2.body[0], "value", None)) == "add_blocks":
                    out.append("XStore \"blocks\"")
                else:
                    raise Unsupported("_analyze_and_store statement " + ast.unparse(s2)[:60])
        else:
            raise Unsupported("_process_file statement " + ast.unparse(st)[:60])
    # check() returns [] after _process_file and contains no try
    chk = find_func(cls, "check")
    if any(isinstance(n, ast.Try) for n in ast.walk(chk)):
        raise Unsupported("DRYRule.check has a try")
    return defn("dry_steps", "list xop", coq_list(out))


def stringly_steps():
    cls = find_class(parse("src/linters/stringly_typed/linter.py"), "StringlyTypedRule")

    def store_fn(name, tag):
        b = _body(find_func(cls, name))
        seen_compute = False
        ops = []
        for st in b:
            src = ast.unparse(st)
            if "python_analyzer." in src and isinstance(st, ast.Assign):
                seen_compute = True
                ops.append(f'XCompute "{tag}"')
            elif "_active_storage.add_" in src:
                if not seen_compute:
                    raise Unsupported(f"{name}: store before compute")
                ops.append(f'XStore "{tag}"')
            elif isinstance(st, ast.Assign):
                continue
            else:
                raise Unsupported(f"{name}: statement {src[:60]}")
        if ops != [f'XCompute "{tag}"', f'XStore "{tag}"']:
            raise Unsupported(f"{name}: ops {ops}")
        return ops

    tags = {"_store_validation_patterns": "patterns", "_store_function_calls": "calls", "_store_comparisons": "comparisons"}
    py = []
    for st in _body(find_func(cls, "_analyze_python_file")):
        if _is_guard(st) or isinstance(st, ast.Assign):
            continue
        c = _callee(getattr(st, "value", None)) if isinstance(st, ast.Expr) else None
        if c in tags:
            py.extend(store_fn(c, tags[c]))
        else:
            raise Unsupported("_analyze_python_file statement " + ast.unparse(st)[:60])
    ts = []
    for st in _body(find_func(cls, "_analyze_typescript_file")):
        if _is_guard(st):
            continue
        src = ast.unparse(st)
        if isinstance(st, ast.Assign) and "typescript_analyzer.analyze_all" in src:
            ts.append('XCompute "ts_results"')
        elif isinstance(st, ast.Assign):
            continue
        elif isinstance(st, ast.Expr) and _callee(st.value) == "_store_typescript_results":
            ts.append('XStore "ts_results"')
        else:
            raise Unsupported("_analyze_typescript_file statement " + src[:60])
    return defn("stringly_py_steps", "list xop", coq_list(py)) + defn("stringly_ts_steps", "list xop", coq_list(ts))


ITEMS = [
    ("extension_map", extension_map),
    ("shebang_rule", shebang_rule),
    ("detect_shape", detect_shape),
    ("first_line_sep", first_line_sep),
    ("safe_check_handlers", safe_check_handlers),
    ("worker_handlers", worker_handlers),
    ("future_handlers", future_handlers),
    ("file_content_handlers", file_content_handlers),
    ("shebang_handlers", shebang_handlers),
    ("parse_python_handlers", parse_python_handlers),
    ("execute_rules_shape", execute_rules_shape),
    ("finalize_guards", finalize_guards),
    ("parallel_shape", parallel_shape),
    ("walker_shape", walker_shape),
    ("cli_error_exit", cli_error_exit),
    ("dry_steps", dry_steps),
    ("stringly_steps", stringly_steps),
]
