"""Generated layer for property C09 (results independent of path spelling / project location).

Every item reads /repo sources with `ast`.  Two idioms:
  * literal tables (excluded directory names, test markers, default ignore lists, root markers);
  * *shape items*: the body of a small path predicate (docstring dropped, `ast.unparse`d) must be
    exactly one of the shapes the hand-written Coq model was written for; the item then emits the
    constructor (`ikind`, `pscope`, ...) the model dispatches on.  Any other shape fails closed.
"""
import ast
import re
from pathlib import Path

from translator.lib import (Unsupported, coq_str_list, coq_string, const_value, defn, find_assign, find_class, find_func,
                            parse, str_elems)

GEN_FILE = "PathLocGen"
HEADER = "From TL Require Import Lib.Base Lib.GenTypes Model.PathLocTypes."
SERVES = ["C09"]
CORE = "src/orchestrator/core.py"
IGN = "src/linter_config/ignore.py"
PU = "src/linter_config/pattern_utils.py"
PR = "src/utils/project_root.py"
L = "src/linters/"
FINGERPRINTS = [
    (CORE, ["lint_file", "lint_directory", "lint_files", "_collect_files_fast", "_collect_files_from_walk", "_is_hardcoded_excluded"]),
    (IGN, ["is_ignored", "_load_repo_ignores", "_parse_thailintignore_file", "_parse_config_file", "_extract_ignore_patterns",
           "get_ignore_parser", "should_ignore_violation", "_is_ignored_at_file_level"]),
    (PU, ["matches_pattern", "_matches_directory_pattern", "extract_patterns_from_content"]),
    (PR, ["get_project_root", "_find_root_with_pyprojroot", "_try_find_with_criterion", "_find_root_manual"]),
    ("src/cli/utils.py", ["get_or_detect_project_root", "setup_base_orchestrator", "execute_linting_on_paths", "separate_files_and_dirs"]),
    ("src/cli/linters/shared.py", ["extract_command_context", "prepare_standard_command"]),
    ("src/core/linter_utils.py", ["is_ignored_path", "resolve_file_path", "load_linter_config"]),
    (L + "magic_numbers/linter.py", ["_is_file_ignored", "_matches_pattern", "_is_test_file", "_check_python", "_check_typescript", "_check_rust",
                                     "_is_typescript_allowed_context", "_should_ignore"]),
    (L + "magic_numbers/context_analyzer.py", ["is_acceptable_context", "is_test_file"]),
    (L + "print_statements/linter.py", ["_is_file_ignored", "_matches_pattern", "_is_test_file", "_check_python", "_check_typescript",
                                        "_try_create_typescript_violation"]),
    (L + "method_property/linter.py", ["_is_file_ignored", "_matches_pattern", "_is_test_file", "_check_python"]),
    (L + "stateless_class/linter.py", ["_is_file_ignored", "_matches_pattern", "_filter_test_classes", "_load_config", "check"]),
    (L + "stateless_class/python_analyzer.py", ["is_test_file", "_is_in_tests_directory", "_has_test_filename"]),
    (L + "srp/linter.py", ["_is_file_ignored", "_should_process_file", "check"]),
    (L + "unwrap_abuse/linter.py", ["_should_analyze", "check"]),
    (L + "clone_abuse/linter.py", ["_should_analyze", "check"]),
    (L + "blocking_async/linter.py", ["_should_analyze", "check"]),
    (L + "file_placement/path_resolver.py", ["PathResolver"]),
    (L + "file_placement/directory_matcher.py", ["DirectoryMatcher"]),
    (L + "file_placement/linter.py", ["lint_path", "check", "_get_root_from_metadata"]),
    (L + "dry/violation_generator.py", ["generate_violations", "_filter_ignored", "_is_ignored", "_filter_shared_ignored"]),
    (L + "dry/linter.py", ["check", "_process_file", "_get_project_root", "finalize"]),
    (L + "stringly_typed/linter.py", ["_should_analyze", "_check_python", "_check_typescript", "finalize", "_load_config"]),
    (L + "stringly_typed/violation_generator.py", ["generate_violations", "_filter_by_ignore"]),
    (L + "stringly_typed/ignore_checker.py", ["IgnoreChecker"]),
    (L + "file_header/linter.py", ["check", "_should_ignore_file", "_matches_ignore_pattern", "_matches_directory_pattern", "_matches_file_pattern",
                                   "_check_header_with_parser", "_load_config"]),
    (CORE, ["lint_files_parallel", "_collect_cross_file_evidence", "_execute_parallel_linting", "lint_directory_parallel", "_path_inside_project"]),
    ("src/cli/utils.py", ["_infer_root_from_config", "_determine_project_root_for_context", "get_project_root_from_context"]),
    (L + "dry/inline_ignore.py", ["InlineIgnoreParser"]),
    (L + "collection_pipeline/linter.py", ["check", "_is_file_ignored", "_matches_pattern", "_load_config", "_should_analyze"]),
    (L + "dry/violation_generator.py", ["_filter_inline_ignored"]),
]


# ---------------------------------------------------------------- helpers
def _body(f) -> str:
    b = f.body
    if b and isinstance(b[0], ast.Expr) and isinstance(b[0].value, ast.Constant) and isinstance(b[0].value.value, str):
        b = b[1:]
    return "\n".join(ast.unparse(s) for s in b)


def _fn(rel, cls, name):
    m = parse(rel)
    return find_func(find_class(m, cls) if cls else m, name)


def _shape(rel, cls, name, expected: dict):
    """the body of rel::cls.name must equal one of the expected texts; returns the associated value"""
    src = _body(_fn(rel, cls, name))
    for text, val in expected.items():
        if src == text:
            return val
    raise Unsupported(f"{rel}::{name}: body has none of the modelled shapes: {src[:160]!r}")


def _shape_re(rel, cls, name, pattern: str):
    src = _body(_fn(rel, cls, name))
    m = re.fullmatch(pattern, src, re.S)
    if not m:
        raise Unsupported(f"{rel}::{name}: body does not have the modelled shape: {src[:160]!r}")
    return m


def _lit_list(text: str) -> list[str]:
    try:
        v = ast.literal_eval(text)
    except (ValueError, SyntaxError) as e:
        raise Unsupported(f"not a literal list: {text[:80]}") from e
    if not isinstance(v, (list, tuple)) or not all(isinstance(x, str) and x for x in v):
        raise Unsupported(f"expected a list of non-empty strings: {text[:80]}")
    return list(v)


def _tspec(contains=(), starts=(), nstarts=(), ncontains=(), nends=(), nse=()):
    pairs = "[" + "; ".join(f"({coq_string(a)}, {coq_string(b)})" for a, b in nse) + "]"
    return (f"(Build_tspec {coq_str_list(list(contains))} {coq_str_list(list(starts))} {coq_str_list(list(nstarts))} "
            f"{coq_str_list(list(ncontains))} {coq_str_list(list(nends))} {pairs})")


# ---------------------------------------------------------------- hard-coded exclusion
def excluded_tables():
    m = parse(CORE)
    dirs = sorted(str_elems(find_assign(m, "_HARDCODED_EXCLUDE_DIRS")))
    exts = sorted(str_elems(find_assign(m, "_HARDCODED_EXCLUDE_EXTENSIONS")))
    return defn("excluded_dirs", "list string", coq_str_list(dirs)) + defn("excluded_exts", "list string", coq_str_list(exts))


def excluded_shape():
    """_is_hardcoded_excluded: suffix test, then a loop over the parts of the path it is handed (all of them, or - after
    fix 27377de - the directory parts only)"""
    mm = _shape_re(CORE, None, "_is_hardcoded_excluded",
                   r"if file_path\.suffix in _HARDCODED_EXCLUDE_EXTENSIONS:\n    return True\n"
                   r"for part in file_path\.parts(\[:-1\])?:\n    if part in _HARDCODED_EXCLUDE_DIRS:\n        return True\n"
                   r"    if part\.endswith\(('[^']*')\):\n        return True\nreturn False")
    skips_name = mm.group(1) is not None
    suf = ast.literal_eval(mm.group(2))
    m2 = _shape_re(CORE, None, "_should_include_dir",
                   r"return dirname not in _HARDCODED_EXCLUDE_DIRS and \(not dirname\.endswith\(('[^']*')\)\)")
    if ast.literal_eval(m2.group(1)) != suf or not suf:
        raise Unsupported("the two .egg-info suffix literals differ")
    # lint_file applies it first: to the path exactly as received (current tree) or to the path re-rooted at the project root
    # (the shape of proposed_fixes/C09-exclusion-inside-project.diff, under which the faithful model needs no quirk)
    lf = _body(_fn(CORE, "Orchestrator", "lint_file"))
    tail = "    return []\nif self.ignore_parser.is_ignored(file_path):\n    return []\n"
    if lf.startswith("if _is_hardcoded_excluded(file_path):\n" + tail):
        scope = "ScGivenParts"
    elif lf.startswith("if _is_hardcoded_excluded(self._path_inside_project(file_path)):\n" + tail):
        _shape(CORE, "Orchestrator", "_path_inside_project", {
            "try:\n    return file_path.resolve().relative_to(self.project_root.resolve())\nexcept (ValueError, OSError):\n    return file_path": 1})
        scope = "ScProjectRelParts"
    else:
        raise Unsupported("Orchestrator.lint_file no longer starts with the two modelled path filters")
    return (defn("excluded_suffix_of_part", "string", coq_string(suf)) + defn("hard_exclusion_scope", "pscope", scope)
            + defn("hard_exclusion_skips_file_name", "bool", "true" if skips_name else "false"))


# ---------------------------------------------------------------- repo-level ignore
def repo_ignore_shape():
    head = "path_str = str(file_path)\nwith suppress(KeyError):\n    return self._ignore_cache[path_str]\n"
    tail = "result = any((matches_pattern(check_path, p) for p in self.repo_patterns))\nself._ignore_cache[path_str] = result\nreturn result"
    resolves = _shape(IGN, "IgnoreDirectiveParser", "is_ignored", {
        head + "try:\n    check_path = str(file_path.relative_to(self.project_root))\nexcept ValueError:\n    check_path = path_str\n" + tail: "false",
        # shape of proposed_fixes/C09-ignore-reroot-relative.diff: relative spellings are resolved before they are re-rooted
        head + "try:\n    check_path = str(file_path.resolve().relative_to(self.project_root.resolve()))\n"
               "except (ValueError, OSError):\n    check_path = path_str\n" + tail: "true"})
    # after fix bbae54e: .thailintignore patterns, then the `ignore:` list of the first existing config file
    mm = _shape_re(IGN, None, "_load_repo_ignores",
                   r"patterns: list\[str\] = \[\]\nthailintignore = project_root / ('[^']*')\nif thailintignore\.exists\(\):\n"
                   r"    patterns\.extend\(_parse_thailintignore_file\(thailintignore\)\)\nfor name in \(('[^']*'), ('[^']*')\):\n"
                   r"    config_file = project_root / name\n    if config_file\.exists\(\):\n"
                   r"        patterns\.extend\(_parse_config_file\(config_file\)\)\n        break\nreturn patterns")
    m2 = _shape_re(IGN, None, "_extract_ignore_patterns",
                   r"if not config or not isinstance\(config, dict\):\n    return \[\]\nignore_patterns = config\.get\(('[^']*'), \[\]\)\n"
                   r"if isinstance\(ignore_patterns, list\):\n    return \[str\(pattern\) for pattern in ignore_patterns\]\nreturn \[\]")
    cwd_default = _shape(IGN, None, "get_ignore_parser", {
        "global _CACHED_PARSER, _CACHED_PROJECT_ROOT\neffective_root = project_root or Path.cwd()\n"
        "if _CACHED_PARSER is None or _CACHED_PROJECT_ROOT != effective_root:\n    _CACHED_PARSER = IgnoreDirectiveParser(effective_root)\n"
        "    _CACHED_PROJECT_ROOT = effective_root\nreturn _CACHED_PARSER": "true",
        # shape of proposed_fixes/C09-rule-ignore-parser-root.diff: a call without a root re-uses the parser the orchestrator created
        "global _CACHED_PARSER, _CACHED_PROJECT_ROOT\nif project_root is None and _CACHED_PARSER is not None:\n    return _CACHED_PARSER\n"
        "effective_root = project_root or Path.cwd()\n"
        "if _CACHED_PARSER is None or _CACHED_PROJECT_ROOT != effective_root:\n    _CACHED_PARSER = IgnoreDirectiveParser(effective_root)\n"
        "    _CACHED_PROJECT_ROOT = effective_root\nreturn _CACHED_PARSER": "false"})
    # after fix 9c8f928: `**/x` also matches at the root; directory patterns match whole DIRECTORY components or `dir/*`
    _shape(PU, None, "matches_pattern", {
        "if pattern.startswith('**/') and matches_pattern(path, pattern[3:]):\n    return True\n"
        "if pattern.endswith('/'):\n    return _matches_directory_pattern(path, pattern)\n"
        "return fnmatch.fnmatch(path, pattern) or fnmatch.fnmatch(str(Path(path)), pattern)": 1})
    _shape(PU, None, "_matches_directory_pattern", {
        "dir_pattern = pattern.rstrip('/')\npath_parts = Path(path).parts\nif dir_pattern in path_parts[:-1]:\n    return True\n"
        "return fnmatch.fnmatch(path, dir_pattern + '/*')": 1})
    return (defn("repo_ignore_file", "string", coq_string(ast.literal_eval(mm.group(1))))
            + defn("repo_ignore_config_file", "string", coq_string(ast.literal_eval(mm.group(2))))
            + defn("repo_ignore_config_file_json", "string", coq_string(ast.literal_eval(mm.group(3))))
            + defn("repo_ignore_config_key", "string", coq_string(ast.literal_eval(m2.group(1))))
            + defn("repo_ignore_relative_to_root_with_fallback", "bool", "true")
            + defn("repo_ignore_resolves_before_reroot", "bool", resolves)
            + defn("ignore_parser_default_root_is_cwd", "bool", cwd_default))


# ---------------------------------------------------------------- project root detection
def root_markers():
    mm = _shape_re(PR, None, "_find_root_with_pyprojroot",
                   r"from pyprojroot import has_dir, has_file\nfor criterion in (\[.*\]):\n    root = _try_find_with_criterion\(criterion, current\)\n"
                   r"    if root is not None:\n        return root\nreturn current")
    lst = ast.parse(mm.group(1), mode="eval").body
    out = []
    for c in lst.elts:
        if not (isinstance(c, ast.Call) and isinstance(c.func, ast.Name) and c.func.id in ("has_dir", "has_file") and len(c.args) == 1):
            raise Unsupported("unexpected root criterion " + ast.unparse(c))
        out.append((const_value(c.args[0]), c.func.id == "has_dir"))
    _shape(PR, None, "get_project_root", {
        "if start_path is None:\n    start_path = Path.cwd()\ncurrent = start_path.resolve()\nif HAS_PYPROJROOT:\n"
        "    return _find_root_with_pyprojroot(current)\nreturn _find_root_manual(current)": 1})
    _shape("src/cli/utils.py", None, "get_or_detect_project_root", {
        "if project_root is not None:\n    return project_root\nfrom src.utils.project_root import get_project_root\n"
        "first_path = path_objs[0] if path_objs else Path.cwd()\nsearch_start = first_path if first_path.is_dir() else first_path.parent\n"
        "return get_project_root(search_start)": 1})
    # the CLI hands the targets to the orchestrator as typed (no resolve), default target "."
    mm2 = _shape_re("src/cli/linters/shared.py", None, "extract_command_context",
                    r"verbose: bool = ctx\.obj\.get\('verbose', False\)\nproject_root = get_project_root_from_context\(ctx\)\n"
                    r"if not paths:\n    paths = \(('[^']*'),\)\npath_objs = \[Path\(p\) for p in paths\]\n"
                    r"return CommandContext\(verbose=verbose, project_root=project_root, path_objs=path_objs\)")
    items = "[" + "; ".join(f"({coq_string(n)}, {'true' if d else 'false'})" for n, d in out) + "]"
    return (defn("root_markers", "list marker", items) + defn("cli_default_target", "string", coq_string(ast.literal_eval(mm2.group(1))))
            + defn("cli_targets_passed_as_typed", "bool", "true"))


# ---------------------------------------------------------------- per-linter predicates
MATCH_OR_SUBSTR = ("if file_path.match(pattern):\n    return True\nif pattern in str(file_path):\n    return True\nreturn False")
FILE_IGNORED_PATHOBJ = ("if not config.ignore:\n    return False\nif not context.file_path:\n    return False\nfile_path = Path(context.file_path)\n"
                        "return any((self._matches_pattern(file_path, pattern) for pattern in config.ignore))")


def _match_or_substr(rel, cls):
    _shape(rel, cls, "_matches_pattern", {MATCH_OR_SUBSTR: 1})
    _shape(rel, cls, "_is_file_ignored", {FILE_IGNORED_PATHOBJ: 1})
    return "IMatchOrSubstr"


def _ts_markers(rel, cls):
    mm = _shape_re(rel, cls, "_is_test_file", r"path_str = str\(file_path\)\nreturn any\(\(pattern in path_str for pattern in (\[[^\]]*\])\)\)")
    return _lit_list(mm.group(1))


def _rust_default(pkg, cls):
    c = find_class(parse(L + pkg + "/config.py"), cls)
    dflt = None
    for st in c.body:
        if isinstance(st, ast.AnnAssign) and isinstance(st.target, ast.Name) and st.target.id == "ignore":
            v = st.value
            if not (isinstance(v, ast.Call) and ast.unparse(v.func) == "field" and len(v.keywords) == 1 and v.keywords[0].arg == "default_factory"
                    and isinstance(v.keywords[0].value, ast.Lambda)):
                raise Unsupported(f"{pkg}: ignore default is not field(default_factory=lambda: [...])")
            dflt = _lit_list(ast.unparse(v.keywords[0].value.body))
    fd = find_func(c, "from_dict")
    hits = [n for n in ast.walk(fd) if isinstance(n, ast.keyword) and n.arg == "ignore"]
    if dflt is None or len(hits) != 1:
        raise Unsupported(f"{pkg}: ignore default / from_dict fallback not found")
    v = hits[0].value
    if not (isinstance(v, ast.Call) and ast.unparse(v.func) == "config.get" and len(v.args) == 2 and const_value(v.args[0]) == "ignore"):
        raise Unsupported(f"{pkg}: from_dict ignore is not config.get('ignore', [...])")
    if _lit_list(ast.unparse(v.args[1])) != dflt:
        raise Unsupported(f"{pkg}: dataclass default and from_dict fallback differ")
    return dflt


def _rust_sig(pkg, cls, key):
    _shape("src/core/linter_utils.py", None, "is_ignored_path", {"return any((ignored in file_path for ignored in ignore_patterns))": 1})
    _shape("src/core/linter_utils.py", None, "resolve_file_path", {"return str(context.file_path) if context.file_path else 'unknown'": 1})
    f = _fn(L + pkg + "/linter.py", None, "_should_analyze")
    if not _body(f).endswith("return not is_ignored_path(resolve_file_path(context), config.ignore)"):
        raise Unsupported(f"{pkg}: _should_analyze does not end with the modelled is_ignored_path test")
    g = _body(_fn(L + pkg + "/linter.py", None, "_get_config"))
    under = key.replace("-", "_")
    if g.endswith(f"key = '{under}' if '{under}' in getattr(context, 'metadata', {{}}) else '{key}'\nreturn load_linter_config(context, key, {cls})"):
        honoured = True    # fix cc0b16c: the normalised section key is looked up
    elif re.search(r"return load_linter_config\(context, '" + re.escape(key) + r"', \w+\)$", g):
        honoured = False   # hyphenated lookup never finds the normalised section
    else:
        raise Unsupported(f"{pkg}: config key lookup has none of the modelled shapes")
    return "ISubstr", _rust_default(pkg, cls), honoured


def _uses_cwd_parser(rel, cls) -> bool:
    """does the rule's __init__ call get_ignore_parser() without arguments?"""
    c = find_class(parse(rel), cls)
    try:
        init = find_func(c, "__init__")
    except Unsupported:
        return False
    calls = [n for n in ast.walk(init) if isinstance(n, ast.Call) and isinstance(n.func, ast.Name) and n.func.id == "get_ignore_parser"]
    if not calls:
        return False
    if any(n.args or n.keywords for n in calls):
        raise Unsupported(f"{rel}: get_ignore_parser called with arguments in __init__ (not modelled)")
    return True


_FP_CONSTS = ""
_XF_CONSTS = ""


def _sig(name, ikind, from_cfg, default, py="t_none", ts="t_none", rs="t_none", cwd=False):
    return (f"(Build_cmdsig {coq_string(name)} {ikind} {'true' if from_cfg else 'false'} {coq_str_list(default)} {py} {ts} {rs} "
            f"{'true' if cwd else 'false'})")


def command_sigs():
    out = []
    # magic-numbers
    rel, cls = L + "magic_numbers/linter.py", "MagicNumberRule"
    ik = _match_or_substr(rel, cls)
    mm = _shape_re(L + "magic_numbers/context_analyzer.py", None, "is_test_file",
                   r"if not file_path:\n    return False\nreturn file_path\.name\.startswith\(('[^']*')\) or ('[^']*') in file_path\.name")
    _shape(rel, cls, "_is_typescript_allowed_context", {"return value in config.allowed_numbers or self._is_test_file(context.file_path)": 1})
    for fn in ("_check_python", "_check_typescript", "_check_rust"):
        if "if self._is_file_ignored(context, config):\n    return []" not in _body(_fn(rel, cls, fn)):
            raise Unsupported(f"magic-numbers {fn}: file ignore test missing")
    out.append(_sig("magic-numbers", ik, True, [], py=_tspec(nstarts=[ast.literal_eval(mm.group(1))], ncontains=[ast.literal_eval(mm.group(2))]),
                    ts=_tspec(contains=_ts_markers(rel, cls)), cwd=_uses_cwd_parser(rel, cls)))
    # print-statements
    rel, cls = L + "print_statements/linter.py", "PrintStatementRule"
    ik = _match_or_substr(rel, cls)
    if "if self._is_test_file(context.file_path):\n    return None" not in _body(_fn(rel, cls, "_try_create_typescript_violation")):
        raise Unsupported("print-statements: TypeScript test-file exemption missing")
    out.append(_sig("print-statements", ik, True, [], ts=_tspec(contains=_ts_markers(rel, cls)), cwd=_uses_cwd_parser(rel, cls)))
    # nesting: no path predicate of its own
    rel, cls = L + "nesting/linter.py", "NestingDepthRule"
    src = ast.unparse(find_class(parse(rel), cls))
    if "file_path.match" in src or "in str(" in src or "is_ignored_path" in src:
        raise Unsupported("nesting: a path predicate appeared")
    out.append(_sig("nesting", "INone", False, [], cwd=_uses_cwd_parser(rel, cls)))
    # srp
    rel, cls = L + "srp/linter.py", "SRPRule"
    _shape(rel, cls, "_is_file_ignored", {"if not config.ignore:\n    return False\nfile_path = str(context.file_path)\n"
                                          "return any((pattern in file_path for pattern in config.ignore))": 1})
    out.append(_sig("srp", "ISubstr", True, [], cwd=_uses_cwd_parser(rel, cls)))
    # the three Rust linters
    for pkg, cls, ccls, key in (("unwrap_abuse", "UnwrapAbuseRule", "UnwrapAbuseConfig", "unwrap-abuse"),
                                ("clone_abuse", "CloneAbuseRule", "CloneAbuseConfig", "clone-abuse"),
                                ("blocking_async", "BlockingAsyncRule", "BlockingAsyncConfig", "blocking-async")):
        ik, dflt, honoured = _rust_sig(pkg, ccls, key)
        out.append(_sig(key, ik, honoured, dflt, cwd=_uses_cwd_parser(L + pkg + "/linter.py", cls)))
    # method-property
    rel, cls = L + "method_property/linter.py", "MethodPropertyRule"
    ik = _match_or_substr(rel, cls)
    mm = _shape_re(rel, cls, "_is_test_file",
                   r"path_str = str\(file_path\)\nfile_name = Path\(path_str\)\.name\nif file_name\.startswith\(('[^']*')\) and file_name\.endswith\(('[^']*')\):\n"
                   r"    return True\nif file_name\.endswith\(('[^']*')\):\n    return True\nreturn False")
    a, b, c = (ast.literal_eval(mm.group(i)) for i in (1, 2, 3))
    out.append(_sig("method-property", ik, True, [], py=_tspec(nends=[c], nse=[(a, b)]), cwd=_uses_cwd_parser(rel, cls)))
    # stateless-class
    rel, cls = L + "stateless_class/linter.py", "StatelessClassRule"
    ik = _match_or_substr(rel, cls)
    pa = L + "stateless_class/python_analyzer.py"
    _shape(pa, None, "is_test_file", {"if not file_path:\n    return False\npath_str = str(file_path)\n"
                                      "return _is_in_tests_directory(path_str) or _has_test_filename(path_str)": 1})
    mm = _shape_re(pa, None, "_is_in_tests_directory",
                   r"return ('[^']*') in path_str or ('[^']*') in path_str or path_str\.startswith\(('[^']*')\) or path_str\.startswith\(('[^']*')\)")
    lits = [ast.literal_eval(mm.group(i)) for i in (1, 2, 3, 4)]
    m3 = _shape_re(pa, None, "_has_test_filename",
                   r"file_name = path_str\.rsplit\('/', maxsplit=1\)\[-1\]\.rsplit\('\\\\', maxsplit=1\)\[-1\]\nreturn file_name\.startswith\(('[^']*')\)")
    if "if is_test_file(str(context.file_path) if context.file_path else None):\n    return []" not in _body(_fn(rel, cls, "_filter_test_classes")):
        raise Unsupported("stateless-class: test-file exemption missing")
    out.append(_sig("stateless-class", ik, False, [], py=_tspec(contains=lits[:2], starts=lits[2:], nstarts=[ast.literal_eval(m3.group(1))]),
                    cwd=_uses_cwd_parser(rel, cls)))
    # file-placement
    global _FP_CONSTS
    rerooted = _shape(L + "file_placement/path_resolver.py", "PathResolver", "get_relative_path", {
        "try:\n    if file_path.is_absolute():\n        return file_path.relative_to(self.project_root)\n    return file_path\n"
        "except ValueError:\n    return file_path": "false",
        # fix 12368d4
        "try:\n    if file_path.is_absolute():\n        return file_path.relative_to(self.project_root)\n"
        "    return file_path.resolve().relative_to(self.project_root.resolve())\nexcept ValueError:\n    return file_path": "true"})
    sep = _shape(L + "file_placement/directory_matcher.py", "DirectoryMatcher", "_check_path_match", {
        "if dir_path == '/':\n    return self._check_root_match(dir_path, path_str)\nif path_str.startswith(dir_path):\n"
        "    depth = len(dir_path.split('/'))\n    return (True, depth)\nreturn (False, -1)": "false",
        # fix a23cd20
        "if dir_path == '/':\n    return self._check_root_match(dir_path, path_str)\nif path_str.startswith(dir_path.rstrip('/') + '/'):\n"
        "    depth = len(dir_path.split('/'))\n    return (True, depth)\nreturn (False, -1)": "true"})
    _FP_CONSTS = defn("fp_relative_paths_rerooted", "bool", rerooted) + defn("fp_dir_rule_needs_separator", "bool", sep)
    out.append(_sig("file-placement", "IFpDirPrefix", True, [], cwd=False))
    # dry (cross-file): violations filtered by substring of str(Path(path)); list read from the section's `ignore` key
    _shape(L + "dry/violation_generator.py", "ViolationGenerator", "_is_ignored", {
        "path_str = str(Path(file_path))\nreturn any((pattern in path_str for pattern in ignore_patterns))": 1})
    fd = _body(_fn(L + "dry/config.py", "DRYConfig", "from_dict"))
    if "ignore_patterns=config.get('ignore', [])" not in fd:
        raise Unsupported("dry: ignore list is no longer read from config.get('ignore', [])")
    out.append(_sig("dry", "ISubstr", True, [], cwd=False))
    # stringly-typed (cross-file): fnmatch(str(path), p) or p in str(path); DEFAULT_IGNORE_PATTERNS + configured entries; an ignored file
    # is not analysed at all (gate); the violations pass an IgnoreChecker() built without a root (cwd-rooted ignore parser)
    ST = L + "stringly_typed/"
    _shape(ST + "ignore_utils.py", None, "is_ignored", {
        "if not ignore_patterns:\n    return False\npath_str = str(file_path)\nfor pattern in ignore_patterns:\n"
        "    if fnmatch.fnmatch(path_str, pattern):\n        return True\n    if pattern in path_str:\n        return True\nreturn False": 1})
    _shape(ST + "linter.py", "StringlyTypedRule", "_should_analyze", {
        "if not _is_ready_for_analysis(context, self._storage):\n    return False\nassert context.file_path is not None\n"
        "return not is_ignored(context.file_path, config.ignore)": 1})
    _shape(ST + "violation_generator.py", None, "_filter_by_ignore", {
        "if not ignore:\n    return violations\nreturn [v for v in violations if not is_ignored(v.file_path, ignore)]": 1})
    _shape(ST + "violation_generator.py", "ViolationGenerator", "__init__", {"self._ignore_checker = IgnoreChecker()": 1})
    _shape(ST + "ignore_checker.py", "IgnoreChecker", "__init__", {
        "self._ignore_parser = get_ignore_parser(project_root)\nself._file_content_cache: dict[str, str] = {}": 1})
    st_default = str_elems(find_assign(parse(ST + "config.py"), "DEFAULT_IGNORE_PATTERNS"))
    fd = _body(_fn(ST + "config.py", "StringlyTypedConfig", "_from_base_config"))
    if "user_ignore = config.get('ignore', [])\nmerged_ignore = DEFAULT_IGNORE_PATTERNS.copy() + user_ignore" not in fd:
        raise Unsupported("stringly-typed: ignore list is no longer DEFAULT_IGNORE_PATTERNS + config.get('ignore', [])")
    out.append(_sig("stringly-typed", "IFnmatchOrSubstr", True, st_default, cwd=True))
    # file-header: four-way ignore idiom; a file without any header is reported without passing the rule-level ignore parser
    FH = L + "file_header/linter.py"
    _shape(FH, "FileHeaderRule", "_should_ignore_file", {
        "if not context.file_path:\n    return False\nfile_path = Path(context.file_path)\n"
        "return any((self._matches_ignore_pattern(file_path, p) for p in config.ignore))": 1})
    _shape(FH, "FileHeaderRule", "_matches_ignore_pattern", {
        "if file_path.match(pattern):\n    return True\nif self._matches_directory_pattern(file_path, pattern):\n    return True\n"
        "if self._matches_file_pattern(file_path, pattern):\n    return True\nreturn pattern in str(file_path)": 1})
    _shape(FH, "FileHeaderRule", "_matches_directory_pattern", {
        "if pattern.startswith('**/') and pattern.endswith('/**'):\n    dir_name = pattern[3:-3]\n    return dir_name in file_path.parts\nreturn False": 1})
    _shape(FH, "FileHeaderRule", "_matches_file_pattern", {
        "if pattern.startswith('**/'):\n    filename_pattern = pattern[3:]\n    path_str = str(file_path)\n"
        "    return file_path.name == filename_pattern or path_str.endswith(filename_pattern)\nreturn False": 1})
    if not _body(_fn(FH, "FileHeaderRule", "_check_header_with_parser")).startswith(
            "header = parser.extract_header(context.file_content or '')\nif not header:\n    return self._build_missing_header_violations(context)\n"):
        raise Unsupported("file-header: the missing-header path changed")
    if not _body(_fn(FH, "FileHeaderRule", "check")).endswith(
            "config = self._load_config(context)\nif self._should_ignore_file(context, config):\n    return []\nreturn self._check_language_header(context, config)"):
        raise Unsupported("file-header: check() no longer applies the ignore list first")
    c = find_class(parse(L + "file_header/config.py"), "FileHeaderConfig")
    fh_default = None
    for st_ in c.body:
        if isinstance(st_, ast.AnnAssign) and isinstance(st_.target, ast.Name) and st_.target.id == "ignore":
            v = st_.value
            if isinstance(v, ast.Call) and v.keywords and isinstance(v.keywords[0].value, ast.Lambda):
                fh_default = _lit_list(ast.unparse(v.keywords[0].value.body))
    if fh_default is None or ast.unparse(find_func(c, "from_dict")).count("ignore=config_dict.get('ignore', defaults.ignore)") != 2:
        raise Unsupported("file-header: default ignore list / from_dict fallback not found")
    out.append(_sig("file-header", "IFileHeader", True, fh_default, cwd=False))
    # pipeline (collection-pipeline): the Path.match-or-substring idiom on the path as given, rule-level ignore parser without a root
    rel, cls = L + "collection_pipeline/linter.py", "CollectionPipelineRule"
    ik = _match_or_substr(rel, cls)
    chk_body = _body(_fn(rel, cls, "check"))
    if "config = self._load_config(context)\nif not config.enabled:\n    return []\nif self._is_file_ignored(context, config):\n    return []" not in chk_body:
        raise Unsupported("pipeline: check() no longer applies the ignore list before analysing")
    lc = _body(_fn(rel, cls, "_load_config"))
    if "linter_config = config_dict.get('collection_pipeline', config_dict.get('collection-pipeline', config_dict))" not in lc:
        raise Unsupported("pipeline: section lookup changed")
    if "ignore=config.get('ignore', [])" not in _body(_fn(L + "collection_pipeline/config.py", "CollectionPipelineConfig", "from_dict")):
        raise Unsupported("pipeline: ignore list is no longer read from config.get('ignore', [])")
    src = ast.unparse(find_class(parse(rel), cls))
    if "is_test_file" in src or "_is_test_file" in src:
        raise Unsupported("pipeline: a test-file exemption appeared")
    out.append(_sig("pipeline", ik, True, [], cwd=_uses_cwd_parser(rel, cls)))
    global _XF_CONSTS
    _XF_CONSTS = (defn("merged_default_commands", "list string", coq_str_list(["stringly-typed"]))
                  + defn("xfile_commands", "list (string * bool)", '[("dry", false); ("stringly-typed", true)]'))
    return defn("command_sigs", "list cmdsig", "[" + ";\n  ".join(out) + "]") + _FP_CONSTS + _XF_CONSTS


def other_ignore_kinds():
    """linters whose ignore idiom is read off the source but which have no pipeline in the model: cqs (no CLI command of its own)"""
    mm = _shape_re(L + "cqs/linter.py", None, "_matches_ignore_pattern",
                   r"return any\(\(fnmatch\(file_path, pattern\) for pattern in config\.ignore_patterns\)\)")
    _ = mm
    return defn("unmodelled_pipeline_ignore_kinds", "list (string * string)", '[("cqs", "fnmatch(str(path), pattern)")]')


# ---------------------------------------------------------------- stores keyed by a path string (suppression directives)
def directive_stores():
    """DRY keeps the `# dry: ignore-block` ranges and the file contents (for thailint directives) in dictionaries keyed by a path string
    and looks them up with the path string of the violation; both sides must spell the path the same way, whatever the target spelling.
    The item reads the key expression of every side (as given / resolved); the Coq lemma `directive_stores_agree` needs them equal."""
    DI = L + "dry/inline_ignore.py"
    tail_store = "lines = content.split('\\n')\nranges = self._extract_ignore_ranges(lines)\nif ranges:\n    self._ignore_ranges[%s] = ranges"
    store = _shape(DI, "InlineIgnoreParser", "parse_file", {
        tail_store % "str(file_path)": "ScGivenStr", tail_store % "str(file_path.resolve())": "ScResolvedStr"})
    tail_look = ("ranges = self._ignore_ranges.get(%s, [])\nif not ranges:\n    return False\nif end_line is not None:\n"
                 "    return self._check_range_overlap(line, end_line, ranges)\nreturn self._check_single_line(line, ranges)")
    look = _shape(DI, "InlineIgnoreParser", "should_ignore", {
        tail_look % "str(Path(file_path))": "ScGivenStr", tail_look % "str(Path(file_path).resolve())": "ScResolvedStr"})
    # DRYRule._process_file hands the path of the context on unchanged and keeps the content under str(path); the violations carry
    # str(block.file_path); the shared directive filter looks the content up under violation.file_path
    pf = _body(_fn(L + "dry/linter.py", "DRYRule", "_process_file"))
    if "file_path = context.file_path\n" not in pf or "self._helpers.inline_ignore.parse_file(file_path, context.file_content)" not in pf:
        raise Unsupported("dry: _process_file no longer hands context.file_path to the inline-ignore parser")
    if "self._file_contents[str(file_path)] = context.file_content" in pf:
        cstore = "ScGivenStr"
    elif "self._file_contents[str(file_path.resolve())] = context.file_content" in pf:
        cstore = "ScResolvedStr"
    else:
        raise Unsupported("dry: _process_file no longer stores the file content under a modelled key")
    fs = _body(_fn(L + "dry/violation_generator.py", "ViolationGenerator", "_filter_shared_ignored"))
    if "file_content = file_contents.get(violation.file_path, '')" in fs:
        clook = "ScGivenStr"
    elif "file_content = file_contents.get(str(Path(violation.file_path).resolve()), '')" in fs:
        clook = "ScResolvedStr"
    else:
        raise Unsupported("dry: _filter_shared_ignored no longer looks the content up under a modelled key")
    fi = _body(_fn(L + "dry/violation_generator.py", "ViolationGenerator", "_filter_inline_ignored"))
    if "if not inline_ignore.should_ignore(violation.file_path, start_line, end_line):" not in fi:
        raise Unsupported("dry: _filter_inline_ignored no longer asks with violation.file_path")
    vb = ast.unparse(parse(L + "dry/violation_builder.py"))
    if vb.count("file_path=str(block.file_path)") != 1:
        raise Unsupported("dry: violations no longer carry str(block.file_path)")
    # stringly-typed: the directive filter reads the file again under the violation's own path string (no second spelling involved)
    ST = L + "stringly_typed/ignore_checker.py"
    _shape(ST, "IgnoreChecker", "_should_ignore", {
        "file_content = self._get_file_content(violation.file_path)\nreturn self._ignore_parser.should_ignore_violation(violation, file_content)": 1})
    _shape(ST, "IgnoreChecker", "_get_file_content", {
        "with suppress(KeyError):\n    return self._file_content_cache[file_path]\ncontent = self._read_file_content(file_path)\n"
        "self._file_content_cache[file_path] = content\nreturn content": 1})
    _shape(ST, "IgnoreChecker", "_read_file_content", {
        "try:\n    return Path(file_path).read_text(encoding='utf-8')\nexcept (OSError, UnicodeDecodeError):\n    return ''": 1})
    return (defn("dry_inline_store_key", "pscope", store) + defn("dry_inline_lookup_key", "pscope", look)
            + defn("dry_content_store_key", "pscope", cstore) + defn("dry_content_lookup_key", "pscope", clook)
            + defn("stringly_directive_content_read_from_violation_path", "bool", "true"))


ITEMS = [
    ("excluded_tables", excluded_tables),
    ("excluded_shape", excluded_shape),
    ("repo_ignore_shape", repo_ignore_shape),
    ("root_markers", root_markers),
    ("command_sigs", command_sigs),
    ("other_ignore_kinds", other_ignore_kinds),
    ("directive_stores", directive_stores),
]


# ---------------------------------------------------------------- used by the harness (name pools follow the source tables)
_TABLES_CACHE: dict = {}


def tables_for_harness() -> dict:
    if not _TABLES_CACHE:
        _TABLES_CACHE.update(_tables_for_harness())
    return dict(_TABLES_CACHE)


def _tables_for_harness() -> dict:
    m = parse(CORE)
    out = {"excluded_dirs": sorted(str_elems(find_assign(m, "_HARDCODED_EXCLUDE_DIRS")))}
    # a changed source shape must not shrink the name pools: fall back to the last recorded generated layer
    snap = Path(__file__).resolve().parent.parent / "coq" / "Gen.expected" / "PathLocGen.v.txt"
    snap_text = snap.read_text() if snap.exists() else ""

    def _snap_list(pattern: str) -> list[str]:
        mm = re.search(pattern, snap_text)
        return re.findall(r'"((?:[^"]|"")*)"', mm.group(1)) if mm else []
    try:
        out["ts_markers"] = _ts_markers(L + "magic_numbers/linter.py", "MagicNumberRule")
    except Unsupported:
        out["ts_markers"] = _snap_list(r'Build_cmdsig "magic-numbers" \w+ \w+ \[[^\]]*\] \(Build_tspec [^)]*\) \(Build_tspec (\[[^\]]*\])')
    try:
        out["rust_default_ignore"] = _rust_default("unwrap_abuse", "UnwrapAbuseConfig")
    except Unsupported:
        out["rust_default_ignore"] = _snap_list(r'Build_cmdsig "unwrap-abuse" \w+ \w+ (\[[^\]]*\])')
    # directory names that occur as literal components of any default ignore pattern of any command (`**/migrations/**`, `tests/`):
    # a parent directory / project directory of that name is where a path-as-given decision goes wrong
    try:
        sigs_text = command_sigs()
    except (Unsupported, SyntaxError, ValueError, AttributeError):
        sigs_text = snap_text
    names = []
    for lit in re.findall(r'"((?:[^"]|"")*)"', sigs_text):
        if "/" in lit:
            names += [c for c in lit.split("/") if c and not any(ch in c for ch in "*?[.") and c not in names]
    out["default_ignore_dir_names"] = names
    try:
        mm = _shape_re(PR, None, "_find_root_with_pyprojroot", r".*for criterion in (\[.*\]):\n    root = .*")
        lst = ast.parse(mm.group(1), mode="eval").body
        out["root_markers"] = [(c.args[0].value, c.func.id == "has_dir") for c in lst.elts]
    except (Unsupported, AttributeError, SyntaxError):
        out["root_markers"] = [(".git", True), (".thailint.yaml", False), ("pyproject.toml", False)]
    return out
