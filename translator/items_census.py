"""Generated layer for C11: a census of the expressions in the analyzers that raise on unexpected input.

For every file under src/linters, src/analyzers, src/linter_config and for core/linter_utils.py, orchestrator/core.py,
orchestrator/language_detector.py (everything that runs between `lint_file` and a rule's result):

  conversion_sites   every `int(x)` / `float(x)` (non-constant argument), `.index(x)`, `.decode(...)`, one-argument `next(x)`:
                     (site id, kind, guarded) - guarded = lexically inside a `try` whose handlers catch the exception the call raises
  unpack_sites       every tuple-unpacking assignment from a non-literal right-hand side: (site id, ok) - ok = guarded by such a try,
                     or the right-hand side is a call of a function (same file, else unique in the scanned files) ALL of whose
                     `return`s are tuple displays of exactly that length
  subscript_counts   per function, the number of `x[i]` / `x["k"]` loads (no slices, no annotations) outside a try catching
                     IndexError / KeyError

  state_sites        every place outside __init__ where an attribute of `self` or a module-level name is assigned, subscript-assigned,
                     mutated through a container method or declared `global` in the linters / analyzers: (site id, covered) - covered = the
                     site is a reset (a fresh value is assigned) or mutates an attribute that the class (or a base class) resets outside
                     __init__.  Rule and analyzer objects live for the whole run: anything else is state that survives from one file to
                     the next (a parse memo, a cache, the store of a cross-file rule) and must be one of the audited sites

Proofs/ContainCensus.v proves that every conversion / unpacking site is guarded or is one of the individually audited sites, and
that the subscript table equals the recorded one, so a newly unguarded `int(...)`, `.index(...)`, `a, *b = x.split()` or `parts[2]`
breaks a proof obligation whether or not a generated input reaches it.
"""
import ast

from translator.lib import REPO, Unsupported, coq_list, coq_string, defn

GEN_FILE = "CensusGen"
HEADER = "From TL Require Import Lib.Base."
SERVES = ["C11"]
FINGERPRINTS = []

TYPING = {"list", "dict", "tuple", "set", "frozenset", "Optional", "Union", "Callable", "type", "Iterator", "Iterable", "Sequence", "Mapping",
          "Any", "Literal", "ClassVar", "Final", "Generator", "Pattern", "Match", "Type", "Dict", "List", "Tuple", "Set", "TypeVar", "Protocol",
          "Awaitable", "Deque", "DefaultDict", "Collection", "MutableMapping", "Annotated", "Counter", "defaultdict", "deque", "OrderedDict"}
WANT = {
    "int": {"ValueError", "Exception", "BaseException"}, "float": {"ValueError", "Exception", "BaseException"},
    "index": {"ValueError", "Exception", "BaseException"}, "decode": {"UnicodeDecodeError", "UnicodeError", "ValueError", "Exception", "BaseException"},
    "next": {"StopIteration", "Exception", "BaseException"}, "unpack": {"ValueError", "TypeError", "Exception", "BaseException"},
    "sub": {"IndexError", "KeyError", "LookupError", "Exception", "BaseException"},
}


def _files():
    src = REPO / "src"
    out = sorted(list((src / "linters").rglob("*.py")) + list((src / "analyzers").rglob("*.py")) + list((src / "linter_config").glob("*.py"))
                 + [src / "core" / "linter_utils.py", src / "orchestrator" / "core.py", src / "orchestrator" / "language_detector.py"])
    if len(out) < 50:
        raise Unsupported(f"only {len(out)} source files found")
    return out


def _catches(handlers, wanted) -> bool:
    for h in handlers:
        t = h.type
        if t is None:
            return True
        names = [ast.unparse(x) for x in t.elts] if isinstance(t, ast.Tuple) else [ast.unparse(t)]
        if any(n.split(".")[-1] in wanted for n in names):
            return True
    return False


_scan_cache = {}


def _scan():
    if "rows" in _scan_cache:
        return _scan_cache["rows"], _scan_cache["funcs"]
    rows, funcs = [], {}
    trees = {}
    for f in _files():
        rel = str(f.relative_to(REPO))
        try:
            trees[rel] = ast.parse(f.read_text(encoding="utf-8"))
        except (OSError, SyntaxError) as e:
            raise Unsupported(f"cannot parse {rel}: {e}") from e
    for rel, tree in trees.items():
        for n in ast.walk(tree):
            if isinstance(n, (ast.FunctionDef, ast.AsyncFunctionDef)):
                funcs.setdefault(n.name, []).append((rel, n))
    for rel, tree in trees.items():
        ann = set()
        for n in ast.walk(tree):
            for fld in ("annotation", "returns"):
                a = getattr(n, fld, None)
                if a is not None:
                    ann.update(id(x) for x in ast.walk(a))

        def visit(node, qual, guards):
            if isinstance(node, (ast.FunctionDef, ast.AsyncFunctionDef, ast.ClassDef)):
                qual = qual + [node.name]
            if isinstance(node, ast.Try):
                for ch in node.body:
                    visit(ch, qual, guards + [node.handlers])
                for ch in list(node.handlers) + node.orelse + node.finalbody:
                    visit(ch, qual, guards)
                return
            kind = None
            if isinstance(node, ast.Call):
                fn = node.func
                if isinstance(fn, ast.Name) and fn.id in ("int", "float") and node.args and not isinstance(node.args[0], ast.Constant):
                    kind = fn.id
                elif isinstance(fn, ast.Name) and fn.id == "next" and len(node.args) == 1 and not node.keywords:
                    kind = "next"
                elif isinstance(fn, ast.Attribute) and fn.attr == "index" and node.args:
                    kind = "index"
                elif isinstance(fn, ast.Attribute) and fn.attr == "decode":
                    kind = "decode"
            elif isinstance(node, ast.Subscript) and isinstance(node.ctx, ast.Load) and id(node) not in ann:
                base = node.value
                typing_like = (isinstance(base, ast.Name) and base.id in TYPING) or (isinstance(base, ast.Attribute) and base.attr in TYPING)
                if not typing_like and not isinstance(node.slice, (ast.Slice, ast.Tuple)):
                    kind = "sub"
            elif isinstance(node, ast.Assign) and isinstance(node.targets[0], (ast.Tuple, ast.List)) and not isinstance(node.value, (ast.Tuple, ast.List)):
                kind = "unpack"
            if kind:
                rows.append({"file": rel, "qual": ".".join(qual) or "<module>", "kind": kind, "node": node,
                             "guarded": any(_catches(h, WANT[kind]) for h in guards)})
            for ch in ast.iter_child_nodes(node):
                visit(ch, qual, guards)

        visit(tree, [], [])
    _scan_cache["rows"], _scan_cache["funcs"] = rows, funcs
    return rows, funcs


def _ids(rows):
    seen = {}
    out = []
    for r in rows:
        base = f"{r['file']}::{r['qual']}::{r['kind']}::{ast.unparse(r['node'])[:70]}"
        k = seen.get(base, 0)
        seen[base] = k + 1
        out.append(base if k == 0 else f"{base}#{k}")
    return out


def conversion_sites():
    _scan_cache.clear()
    rows, _ = _scan()
    conv = [r for r in rows if r["kind"] in ("int", "float", "index", "decode", "next")]
    if not conv:
        raise Unsupported("no conversion site found (scanner broken?)")
    items = [f"({coq_string(i)}, {coq_string(r['kind'])}, {'true' if r['guarded'] else 'false'})" for i, r in zip(_ids(conv), conv)]
    return defn("conversion_sites", "list (string * string * bool)", coq_list(items))


def _own_returns(fn):
    """return statements of fn itself (not of nested functions / lambdas)"""
    out, todo = [], list(fn.body)
    while todo:
        n = todo.pop()
        if isinstance(n, (ast.FunctionDef, ast.AsyncFunctionDef, ast.ClassDef, ast.Lambda)):
            continue
        if isinstance(n, ast.Return):
            out.append(n)
        todo.extend(ast.iter_child_nodes(n))
    return out


def _returns_tuples(fn, n, funcs, rel, depth=0) -> bool:
    """every `return` of fn is a tuple display of length n, or a call of a function for which the same holds (3 levels)"""
    rets = _own_returns(fn)
    if not rets or any(isinstance(x, (ast.Yield, ast.YieldFrom)) for x in ast.walk(fn)):
        return False
    for r in rets:
        v = r.value
        if isinstance(v, ast.Tuple) and len(v.elts) == n and not any(isinstance(e, ast.Starred) for e in v.elts):
            continue
        if isinstance(v, ast.Call) and depth < 3 and _callee_ok(v, n, funcs, rel, depth + 1):
            continue
        return False
    return True


def _callee_ok(call, n, funcs, rel, depth=0) -> bool:
    name = call.func.id if isinstance(call.func, ast.Name) else call.func.attr if isinstance(call.func, ast.Attribute) else None
    cands = funcs.get(name, [])
    same = [c for c in cands if c[0] == rel]
    cands = same or cands            # a method reached through an attribute may be any of the definitions: all must qualify
    return bool(cands) and all(_returns_tuples(fn, n, funcs, r, depth) for r, fn in cands)


def _arity_ok(row, funcs) -> bool:
    node = row["node"]
    tgt = node.targets[0]
    if any(isinstance(e, ast.Starred) for e in tgt.elts) or not isinstance(node.value, ast.Call):
        return False
    return _callee_ok(node.value, len(tgt.elts), funcs, row["file"])


def unpack_sites():
    rows, funcs = _scan()
    un = [r for r in rows if r["kind"] == "unpack"]
    if not un:
        raise Unsupported("no unpacking site found (scanner broken?)")
    items = [f"({coq_string(i)}, {'true' if (r['guarded'] or _arity_ok(r, funcs)) else 'false'})" for i, r in zip(_ids(un), un)]
    return defn("unpack_sites", "list (string * bool)", coq_list(items))


def subscript_counts():
    rows, _ = _scan()
    counts = {}
    for r in rows:
        if r["kind"] == "sub" and not r["guarded"]:
            k = f"{r['file']}::{r['qual']}"
            counts[k] = counts.get(k, 0) + 1
    if not counts:
        raise Unsupported("no subscript found (scanner broken?)")
    items = [f"({coq_string(k)}, {v})" for k, v in sorted(counts.items())]
    return defn("subscript_counts", "list (string * nat)", coq_list(items))


# ---------------------------------------------------------------- analyzer state that survives from one file to the next
MUTATORS = {"append", "extend", "add", "update", "clear", "insert", "pop", "remove", "setdefault", "discard", "popitem", "appendleft"}
FRESH_CALLS = {"set", "dict", "list", "tuple", "frozenset", "defaultdict", "OrderedDict", "deque", "Counter"}


def _state_files():
    src = REPO / "src"
    out = sorted(list((src / "linters").rglob("*.py")) + list((src / "analyzers").rglob("*.py")) + list((src / "linter_config").glob("*.py"))
                 + [src / "core" / "linter_utils.py", src / "core" / "registry.py", src / "core" / "base.py"])
    if len(out) < 50:
        raise Unsupported(f"only {len(out)} source files found")
    return out


def _fresh(e) -> bool:
    """a value that carries nothing over from the file being analysed: a constant, an empty display, set() / dict() / ..."""
    if isinstance(e, ast.Constant):
        return True
    if isinstance(e, (ast.List, ast.Tuple, ast.Set)) and all(isinstance(x, ast.Constant) for x in e.elts):
        return True
    if isinstance(e, ast.Dict) and not e.keys:
        return True
    if isinstance(e, ast.Call) and isinstance(e.func, ast.Name) and e.func.id in FRESH_CALLS and not e.keywords \
            and all(isinstance(a, ast.Constant) or (isinstance(a, ast.Name) and a.id in FRESH_CALLS) for a in e.args):
        return True
    return False


def _state_scan():
    """rows (site id, kind, owner class | '', attribute, fresh) for every place OUTSIDE __init__ where an attribute of `self` or a
    module-level name is assigned, subscript-assigned, mutated through a container method, or declared `global`"""
    rows, bases = [], {}
    for p in _state_files():
        rel = str(p.relative_to(REPO))
        try:
            mod = ast.parse(p.read_text(encoding="utf-8"))
        except SyntaxError as e:
            raise Unsupported(f"{rel}: {e}")
        modnames = set()
        for st in mod.body:
            for t in (st.targets if isinstance(st, ast.Assign) else [st.target] if isinstance(st, ast.AnnAssign) else []):
                if isinstance(t, ast.Name):
                    modnames.add(t.id)

        def scan(fn, owner):
            for n in ast.walk(fn):
                tgts, val = [], None
                if isinstance(n, ast.Assign):
                    tgts, val = n.targets, n.value
                elif isinstance(n, ast.AnnAssign) and n.value is not None:
                    tgts, val = [n.target], n.value
                elif isinstance(n, ast.AugAssign):
                    tgts, val = [n.target], None
                for t in tgts:
                    for tt in (t.elts if isinstance(t, (ast.Tuple, ast.List)) else [t]):
                        base, kind = tt, "="
                        while isinstance(base, ast.Subscript):
                            base, kind = base.value, "[]="
                        if isinstance(base, ast.Attribute) and isinstance(base.value, ast.Name) and base.value.id == "self":
                            fresh = kind == "=" and val is not None and not isinstance(t, (ast.Tuple, ast.List)) and _fresh(val)
                            rows.append((f"{rel}::{owner}{fn.name}::self.{base.attr}{kind}", kind, owner.rstrip("."), base.attr, fresh))
                        elif isinstance(base, ast.Name) and base.id in modnames and kind == "[]=":
                            rows.append((f"{rel}::{owner}{fn.name}::{base.id}{kind}", kind, "", base.id, False))
                if isinstance(n, ast.Call) and isinstance(n.func, ast.Attribute) and n.func.attr in MUTATORS:
                    b = n.func.value
                    if isinstance(b, ast.Attribute) and isinstance(b.value, ast.Name) and b.value.id == "self":
                        # x.clear() empties the container: a reset like `x = []`
                        rows.append((f"{rel}::{owner}{fn.name}::self.{b.attr}.{n.func.attr}", "mut", owner.rstrip("."), b.attr,
                                     n.func.attr == "clear" and not n.args))
                    elif isinstance(b, ast.Name) and b.id in modnames:
                        rows.append((f"{rel}::{owner}{fn.name}::{b.id}.{n.func.attr}", "mut", "", b.id, False))
                if isinstance(n, ast.Global):
                    for g in n.names:
                        rows.append((f"{rel}::{owner}{fn.name}::global {g}", "global", "", g, False))

        for st in mod.body:
            if isinstance(st, ast.ClassDef):
                bases.setdefault(st.name, set()).update(ast.unparse(b.value if isinstance(b, ast.Subscript) else b).split(".")[-1] for b in st.bases)
                for m in st.body:
                    if isinstance(m, (ast.FunctionDef, ast.AsyncFunctionDef)) and m.name != "__init__" and m.name != "__post_init__":
                        scan(m, st.name + ".")
            elif isinstance(st, (ast.FunctionDef, ast.AsyncFunctionDef)):
                scan(st, "")
    return rows, bases


def state_sites():
    """(site, covered): covered = the site IS a reset (assignment of a fresh value), or it mutates an attribute for which the class or
    one of its base classes has such a reset outside __init__ (the accumulator of a visitor, emptied at the start of every analysis)"""
    rows, bases = _state_scan()
    # a reset in a life-cycle method (clear / reset / finalize / close) is called from outside, not at the start of an analysis
    life = ("clear", "reset", "finalize", "close")
    resets = {(owner, attr) for sid, kind, owner, attr, fresh in rows if fresh and not sid.split("::")[1].split(".")[-1].lstrip("_").startswith(life)}

    def ancestors(c, seen=()):
        out = [c]
        for b in bases.get(c, ()):
            if b not in seen:
                out += ancestors(b, seen + (c,))
        return out

    out = {}
    for sid, kind, owner, attr, fresh in rows:
        covered = fresh or (kind in ("mut", "[]=") and owner != "" and any((a, attr) in resets for a in ancestors(owner)))
        out[sid] = out.get(sid, True) and covered
    if len(out) < 40:
        raise Unsupported(f"only {len(out)} state sites found (the census looks at the wrong places)")
    return defn("state_sites", "list (string * bool)", coq_list([f"({coq_string(k)}, {'true' if v else 'false'})" for k, v in sorted(out.items())]))


ITEMS = [
    ("conversion_sites", conversion_sites),
    ("unpack_sites", unpack_sites),
    ("subscript_counts", subscript_counts),
    ("state_sites", state_sites),
]
