"""Generated layer for the lazy-ignores line scanner model of C12 (Gen/LocLazyGen.v).

lazy-ignores works on TEXT, not on a parse tree: both of its scanners (PythonIgnoreDetector.find_ignores and
TestSkipDetector.find_skips) number the lines of the file content themselves, track triple-quoted regions by counting
unescaped triple quotes per line, hand every line outside such a region to a per-line regex scanner (an oracle) and report
(line number, match start + k, text).  All of that is logic and is modelled in Model/LocLazy.v; this file ties the model to
the source:

  lazy_scanner      TEMPLATE check of the control flow (the functions with every string constant blanked and the three
                    open places - the line splitter, enumerate's start, the column offset - replaced by names must equal the
                    recorded templates, in python_analyzer.py AND skip_detector.py) plus what the templates leave open:
                    lazy_splitter (code.splitlines() / code.split("\n")), lazy_start, lazy_col_off, lazy_quotes, the
                    look-behind of the triple-quote regex.
  lazy_forwarding   the rule forwards ignore.line / ignore.column / ignore.raw_text unchanged into the violation; the orphaned
                    violation is a file-level constant position.
"""
import ast
import copy

from translator.lib import Unsupported, coq_str_list, defn, find_class, find_func, parse
from translator.items_loc import _param_passthrough, site_expr

GEN_FILE = "LocLazyGen"
HEADER = "From TL Require Import Lib.Base Model.LocLazyTypes."
SERVES = ["C12"]
L = "src/linters/lazy_ignores/"
FINGERPRINTS = [
    (L + "python_analyzer.py", ["_count_unescaped_triple_quotes", "PythonIgnoreDetector"]),
    (L + "skip_detector.py", ["_count_unescaped_triple_quotes", "_update_docstring_state", "_get_python_scannable_lines", "TestSkipDetector"]),
    (L + "directive_utils.py", ["create_directive", "create_directive_no_rules"]),
    (L + "linter.py", ["LazyIgnoresRule"]),
    (L + "violation_builder.py", ["build_unjustified_violation", "build_orphaned_violation"]),
]


class _Open(ast.NodeTransformer):
    """blank string constants; replace enumerate(<split>, start=<k>) by enumerate(SPLIT, start=START) and
    <x>.start() + <k> by COLUMN; remember what stood there"""

    def __init__(self):
        self.consts, self.splits, self.starts, self.coloffs = [], [], [], []

    def visit_Constant(self, n):
        if isinstance(n.value, str):
            self.consts.append(n.value)
            return ast.copy_location(ast.Constant(value="§"), n)
        return n

    def visit_Call(self, n):
        if isinstance(n.func, ast.Name) and n.func.id == "enumerate" and len(n.args) == 1 and [k.arg for k in n.keywords] == ["start"] \
                and isinstance(n.args[0], ast.Call):
            self.splits.append(n.args[0])
            self.starts.append(n.keywords[0].value)
            return ast.copy_location(ast.Call(func=ast.Name(id="enumerate"), args=[ast.Name(id="SPLIT")],
                                              keywords=[ast.keyword(arg="start", value=ast.Name(id="START"))]), n)
        return self.generic_visit(n)

    def visit_BinOp(self, n):
        if isinstance(n.op, ast.Add) and isinstance(n.left, ast.Call) and ast.unparse(n.left) == "match.start()" and isinstance(n.right, ast.Constant):
            self.coloffs.append(n.right.value)
            return ast.copy_location(ast.Name(id="COLUMN"), n)
        return self.generic_visit(n)


def _open_template(scope, name):
    f = copy.deepcopy(find_func(scope, name))
    if f.body and isinstance(f.body[0], ast.Expr) and isinstance(f.body[0].value, ast.Constant) and isinstance(f.body[0].value.value, str):
        f.body = f.body[1:]
    o = _Open()
    f = o.visit(f)
    f.returns = None
    for a in f.args.args:
        a.annotation = None
    return ast.unparse(ast.fix_missing_locations(f)), o


T_COUNT = ("def _count_unescaped_triple_quotes(line, quote):\n"
           "    escaped_quote = re.escape(quote)\n"
           "    pattern = re.compile(f'§{escaped_quote}')\n"
           "    return len(pattern.findall(line))")
T_UPDATE = ("def _update_docstring_state({self}line, quotes, state):\n"
            "    for i, quote in enumerate(quotes):\n"
            "        if _count_unescaped_triple_quotes(line, quote) % 2 == 1:\n"
            "            state[i] = not state[i]")
T_SCANNABLE = ("def {name}({self}code):\n"
               "    in_docstring = [False, False]\n"
               "    quotes = ['§', '§']\n"
               "    scannable: list[tuple[int, str]] = []\n"
               "    for line_num, line in enumerate(SPLIT, start=START):\n"
               "        was_in_docstring = in_docstring[0] or in_docstring[1]\n"
               "        {selfdot}_update_docstring_state(line, quotes, in_docstring)\n"
               "        if not was_in_docstring:\n"
               "            scannable.append((line_num, line))\n"
               "    return scannable")
T_FIND_IGNORES = ("def find_ignores(self, code, file_path=None):\n"
                  "    effective_path = file_path or Path('§')\n"
                  "    scannable_lines = self._get_scannable_lines(code)\n"
                  "    directives: list[IgnoreDirective] = []\n"
                  "    for line_num, line in scannable_lines:\n"
                  "        directives.extend(self._scan_line(line, line_num, effective_path))\n"
                  "    return directives")
T_SCAN_LINE = ("def _scan_line(self, line, line_num, file_path):\n"
               "    found: list[IgnoreDirective] = []\n"
               "    for ignore_type, pattern in self.PATTERNS.items():\n"
               "        match = pattern.search(line)\n"
               "        if not match:\n"
               "            continue\n"
               "        if _is_pattern_in_string_literal(line, match.start()):\n"
               "            continue\n"
               "        found.append(create_directive(match, ignore_type, line_num, file_path, full_line=line))\n"
               "    return found")
T_FIND_SKIPS = ("def find_skips(self, code, file_path=None, language=Language.PYTHON):\n"
                "    effective_path = normalize_path(file_path)\n"
                "    lang = Language(language) if isinstance(language, str) else language\n"
                "    scanner = self._get_line_scanner(lang)\n"
                "    scannable_lines = self._get_scannable_lines(code, lang)\n"
                "    directives: list[IgnoreDirective] = []\n"
                "    for line_num, line in scannable_lines:\n"
                "        directives.extend(scanner(line, line_num, effective_path))\n"
                "    return directives")
T_SKIP_SCANNABLE = ("def _get_scannable_lines(self, code, lang):\n"
                    "    if lang != Language.PYTHON:\n"
                    "        return list(enumerate(SPLIT, start=START))\n"
                    "    return _get_python_scannable_lines(code)")
T_SCAN_PY = ("def _scan_python_line(self, line, line_num, file_path):\n"
             "    if _is_comment_line(line) or self._is_justified_python_skip(line):\n"
             "        return []\n"
             "    found = self._find_decorator_violations(line, line_num, file_path)\n"
             "    found.extend(self._find_skip_call_violations(line, line_num, file_path))\n"
             "    return found")
T_DECO = ("def _find_decorator_violations(self, line, line_num, file_path):\n"
          "    found: list[IgnoreDirective] = []\n"
          "    for ignore_type, pattern in self.PYTHON_VIOLATION_PATTERNS.items():\n"
          "        match = pattern.search(line)\n"
          "        if match:\n"
          "            found.append(create_directive_no_rules(match, ignore_type, line_num, file_path))\n"
          "    return found")
T_SKIPCALL = ("def _find_skip_call_violations(self, line, line_num, file_path):\n"
              "    match = self.PYTEST_SKIP_CALL_PATTERN.search(line)\n"
              "    if match:\n"
              "        return [create_directive_no_rules(match, IgnoreType.PYTEST_SKIP, line_num, file_path)]\n"
              "    return []")
T_CREATE = ("def create_directive(match, ignore_type, line_num, file_path, rule_ids=None, full_line=None):\n"
            "    if rule_ids is None:\n"
            "        rule_ids = tuple(extract_rule_ids(match))\n"
            "    if full_line is not None:\n"
            "        raw_text = full_line[match.start():].strip()\n"
            "    else:\n"
            "        raw_text = match.group(0).strip()\n"
            "    inline_justification = extract_inline_justification(raw_text)\n"
            "    return IgnoreDirective(ignore_type=ignore_type, rule_ids=rule_ids, line=line_num, column=COLUMN, raw_text=raw_text, "
            "file_path=file_path, inline_justification=inline_justification)")
T_CREATE_NR = ("def create_directive_no_rules(match, ignore_type, line_num, file_path):\n"
               "    return create_directive(match, ignore_type, line_num, file_path, rule_ids=())")
LOOKBEHIND = "(?<!\\\\)"      # the regex text (?<!\\) : not preceded by a backslash


def _splitter(e: ast.expr) -> str:
    s = ast.unparse(e)
    if s == "code.splitlines()":
        return "SpSplitlines"
    if s in ("code.split('\\n')", 'code.split("\\n")'):
        return "SpLF"
    raise Unsupported(f"line splitter {s}")


def _nat(e, what) -> int:
    v = e.value if isinstance(e, ast.Constant) else e
    if isinstance(v, bool) or not isinstance(v, int) or v < 0:
        raise Unsupported(f"{what}: not a natural number")
    return v


def _one(xs, what):
    if len(set(xs)) != 1:
        raise Unsupported(f"{what}: {sorted(set(map(str, xs)))}")
    return xs[0]


def lazy_scanner():
    pa, sk, du = parse(L + "python_analyzer.py"), parse(L + "skip_detector.py"), parse(L + "directive_utils.py")
    det, tsd = find_class(pa, "PythonIgnoreDetector"), find_class(sk, "TestSkipDetector")
    splitters, starts, quotes, coloffs = [], [], [], []

    def expect(scope, name, want, n_consts=None, where=""):
        got, o = _open_template(scope, name)
        if got != want:
            raise Unsupported(f"{where}{name}: source no longer has the recorded shape")
        if n_consts is not None and len(o.consts) != n_consts:
            raise Unsupported(f"{where}{name}: {len(o.consts)} string constants")
        return o

    for mod, where in ((pa, "python_analyzer."), (sk, "skip_detector.")):
        o = expect(mod, "_count_unescaped_triple_quotes", T_COUNT, 1, where)
        if o.consts != [LOOKBEHIND]:
            raise Unsupported(f"{where}_count_unescaped_triple_quotes: regex prefix {o.consts}")
    expect(det, "_update_docstring_state", T_UPDATE.format(self="self, "), 0, "PythonIgnoreDetector.")
    expect(sk, "_update_docstring_state", T_UPDATE.format(self=""), 0, "skip_detector.")
    for scope, name, tmpl, where in ((det, "_get_scannable_lines", T_SCANNABLE.format(name="_get_scannable_lines", self="self, ", selfdot="self."), "PythonIgnoreDetector."),
                                     (sk, "_get_python_scannable_lines", T_SCANNABLE.format(name="_get_python_scannable_lines", self="", selfdot=""), "skip_detector.")):
        o = expect(scope, name, tmpl, 2, where)
        if len(o.splits) != 1:
            raise Unsupported(f"{where}{name}: enumerate")
        splitters.append(_splitter(o.splits[0]))
        starts.append(_nat(o.starts[0], "enumerate start"))
        quotes.append(tuple(o.consts))
    o = expect(tsd, "_get_scannable_lines", T_SKIP_SCANNABLE, 0, "TestSkipDetector.")
    expect(det, "find_ignores", T_FIND_IGNORES, 1, "PythonIgnoreDetector.")
    expect(det, "_scan_line", T_SCAN_LINE, 0, "PythonIgnoreDetector.")
    expect(tsd, "find_skips", T_FIND_SKIPS, 0, "TestSkipDetector.")
    expect(tsd, "_scan_python_line", T_SCAN_PY, 0, "TestSkipDetector.")
    expect(tsd, "_find_decorator_violations", T_DECO, 0, "TestSkipDetector.")
    expect(tsd, "_find_skip_call_violations", T_SKIPCALL, 0, "TestSkipDetector.")
    o = expect(du, "create_directive", T_CREATE, 0, "directive_utils.")
    if len(o.coloffs) != 1:
        raise Unsupported("create_directive: column expression")
    coloffs.append(_nat(o.coloffs[0], "column offset"))
    expect(du, "create_directive_no_rules", T_CREATE_NR, 0, "directive_utils.")
    # _get_line_scanner hands Python files to _scan_python_line
    gls = find_func(tsd, "_get_line_scanner")
    ok = [n for n in ast.walk(gls) if isinstance(n, ast.If) and ast.unparse(n.test) == "lang == Language.PYTHON"
          and len(n.body) == 1 and isinstance(n.body[0], ast.Return) and ast.unparse(n.body[0].value) == "self._scan_python_line"]
    if len(ok) != 1 or gls.body.index(ok[0]) != (1 if isinstance(gls.body[0], ast.Expr) else 0):
        raise Unsupported("_get_line_scanner: Python is not scanned by _scan_python_line")
    qs = _one(quotes, "triple quotes of the two scanners")
    if any(len(q) == 0 or "\\" in q for q in qs):
        raise Unsupported("quote strings")
    return (defn("lazy_splitter", "splitter", _one(splitters, "line splitters of the two scanners"))
            + defn("lazy_start", "nat", str(_one(starts, "enumerate start")))
            + defn("lazy_col_off", "nat", str(coloffs[0]))
            + defn("lazy_quotes", "list string", coq_str_list(list(qs))))


def lazy_forwarding():
    lin = L + "linter.py"
    cls = find_class(parse(lin), "LazyIgnoresRule")
    for kw, want in (("line", "ignore.line"), ("column", "ignore.column"), ("raw_text", "ignore.raw_text")):
        if ast.unparse(site_expr(lin, "_find_unjustified", kw, "LazyIgnoresRule")) != want:
            raise Unsupported(f"_find_unjustified: {kw} is not {want}")
    fu = find_func(cls, "_find_unjustified")
    loops = [n for n in ast.walk(fu) if isinstance(n, ast.For)]
    if len(loops) != 1 or ast.unparse(loops[0].target) != "ignore" or ast.unparse(loops[0].iter) != "ignores":
        raise Unsupported("_find_unjustified: loop over ignores")
    vb = L + "violation_builder.py"
    _param_passthrough(vb, "build_unjustified_violation", "line")
    _param_passthrough(vb, "build_unjustified_violation", "column")
    if ast.unparse(site_expr(vb, "build_orphaned_violation", "line")) != "header_line":
        raise Unsupported("build_orphaned_violation: line is not the parameter header_line")
    col = site_expr(vb, "build_orphaned_violation", "column")
    hl = site_expr(lin, "_find_orphaned", "header_line", "LazyIgnoresRule")
    # the detectors' results reach _find_unjustified unchanged
    cc = find_func(cls, "check_content")
    src = ast.unparse(cc)
    for need in ("ignores = self._python_detector.find_ignores(code, Path(file_path))",
                 "test_skips = self._test_skip_detector.find_skips(code, Path(file_path), 'python')",
                 "ignores = list(ignores) + list(test_skips)",
                 "violations.extend(self._find_unjustified(ignores, suppressions, file_path))"):
        if need not in src:
            raise Unsupported(f"check_content: `{need}` not found")
    ch = ast.unparse(find_func(cls, "check"))
    if "return self.check_content(context.file_content, file_path)" not in ch:
        raise Unsupported("check: content is not passed on unchanged")
    return defn("lazy_orphan_pos", "nat * nat", f"({_nat(hl, 'orphaned line')}, {_nat(col, 'orphaned column')})")


ITEMS = [
    ("lazy_scanner", lazy_scanner),
    ("lazy_forwarding", lazy_forwarding),
]
