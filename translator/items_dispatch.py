"""Generated layer for command/language dispatch (C15).

Tables read from /repo with `ast`, fail-closed:
  extension_map, detect_consts (suffix lower-casing, shebang prefix/needle/result, the "unknown" literal),
  detect_locality (the detector is stateless and is called afresh per file on the path that is linted, not on its symlink target),
  language_enum, cli_filters (command variant -> conjunction of rule-id predicates), rule_table (every
  concrete rule class under src/linters: own rule id, package, base kind, language guard, config keys),
  registry_rule_ids (package, every rule id literal a package can emit).
"""
import ast

from translator.lib import (REPO, Unsupported, const_value, coq_list, coq_str_list, coq_string, defn, dict_str_str,
                            find_assign, find_class, find_func, parse)

GEN_FILE = "DispatchGen"
HEADER = "From TL Require Import Lib.Base Model.DispatchTypes."
SERVES = ["C15"]
LD = "src/orchestrator/language_detector.py"
BASE = "src/core/base.py"
PYRULE = "src/core/python_lint_rule.py"
CONSTS = "src/core/constants.py"
CLI_DIR = "src/cli/linters"
LINTERS = "src/linters"
FINGERPRINTS = [
    ("src/linters/method_property/linter.py", ["_is_test_file", "_check_python"]),
    ("src/linters/magic_numbers/context_analyzer.py", ["is_test_file", "is_acceptable_context"]),
    ("src/linters/stringly_typed/ignore_utils.py", ["is_ignored"]),
    (LD, ["detect_language", "_detect_from_shebang", "_read_first_line", "_parse_shebang_language"]),
    (BASE, ["MultiLanguageLintRule"]),
    (PYRULE, ["PythonOnlyLintRule"]),
    ("src/orchestrator/core.py", ["lint_file", "_execute_rules", "_safe_check_rule", "_get_rules_for_file", "lint_files", "lint_directory"]),
    ("src/cli/utils.py", ["execute_linting_on_paths", "setup_base_orchestrator", "handle_linting_error"]),
    ("src/core/linter_utils.py", ["load_linter_config", "has_file_content", "should_process_file"]),
    ("src/linters/dry/linter.py", ["check"]),
    ("src/linters/collection_pipeline/linter.py", ["check", "_load_config"]),
    ("src/linters/file_placement/linter.py", ["check", "_get_or_create_linter", "_extract_inline_config"]),
    ("src/linters/srp/linter.py", ["check", "_dispatch_by_language"]),
]


def _body(fn):
    """statements of a function without its docstring"""
    b = fn.body
    if b and isinstance(b[0], ast.Expr) and isinstance(b[0].value, ast.Constant) and isinstance(b[0].value.value, str):
        b = b[1:]
    return b


def _u(n) -> str:
    return ast.unparse(n)


# ------------------------------------------------------------------ locality of language detection
CORE = "src/orchestrator/core.py"
_RESOLVED_ARGS = ("file_path.resolve()", "file_path.resolve(strict=False)", "file_path.resolve(strict=True)", "Path(os.path.realpath(file_path))",
                  "file_path.readlink()", "file_path.absolute().resolve()")


def detect_locality():
    """the language of a file depends on nothing but the path that is linted: (a) the detector module holds no state (no decorators
    on its functions - e.g. a cache -, no module-level names besides EXTENSION_MAP, no global statements; the function bodies are pinned
    statement by statement by detect_consts); (b) the orchestrator calls it afresh for every file with the path it was given
    (`detect_language(file_path)`: detect_arg_resolved = false; a symlink-resolving argument: true; anything else fails closed) and
    hands exactly that value to the rules' context"""
    mod = parse(LD)
    names = ["_detect_from_shebang", "_read_first_line", "_parse_shebang_language", "detect_language"]
    for st in _body(mod):
        if isinstance(st, (ast.Import, ast.ImportFrom)):
            continue
        if isinstance(st, ast.Assign) and [_u(t) for t in st.targets] == ["EXTENSION_MAP"]:
            continue
        if isinstance(st, ast.FunctionDef) and st.name in names:
            if st.decorator_list:
                raise Unsupported(f"language_detector.{st.name} is decorated ({_u(st.decorator_list[0])}): its result may depend on earlier calls")
            continue
        raise Unsupported(f"language_detector: unexpected module-level statement `{_u(st)[:60]}`")
    for n in ast.walk(mod):
        if isinstance(n, (ast.Global, ast.Nonlocal, ast.ClassDef, ast.Lambda)):
            raise Unsupported(f"language_detector: {type(n).__name__} statement")
    core = parse(CORE)
    imp = [n for n in ast.walk(core) if isinstance(n, ast.ImportFrom) and any(a.name == "detect_language" for a in n.names)]
    if not (len(imp) == 1 and imp[0].module == "language_detector" and imp[0].level == 1 and all(a.asname is None for a in imp[0].names)):
        raise Unsupported("core.py: detect_language is not imported (exactly once, unrenamed) from .language_detector")
    if any(isinstance(n, (ast.Assign, ast.AnnAssign, ast.AugAssign)) and "detect_language" in
           [_u(t) for t in (n.targets if isinstance(n, ast.Assign) else [n.target])] for n in ast.walk(core)):
        raise Unsupported("core.py: detect_language is rebound")
    orch = find_class(core, "Orchestrator")
    lf = find_func(orch, "lint_file")
    stmts = [_u(x) for x in _body(lf)]
    calls = [n for n in ast.walk(core) if isinstance(n, ast.Call) and _u(n.func) == "detect_language"]
    args = set()
    for c in calls:
        if len(c.args) != 1 or c.keywords:
            raise Unsupported("core.py: detect_language call shape")
        args.add(_u(c.args[0]))
    if len(calls) != 2:
        raise Unsupported(f"core.py: {len(calls)} calls of detect_language (expected lint_file and _collect_cross_file_evidence)")
    if args == {"file_path"}:
        resolved = False
    elif args <= set(_RESOLVED_ARGS):
        resolved = True
    else:
        raise Unsupported(f"core.py: detect_language is called on {sorted(args)}")
    lang_stmt = [x for x in stmts if x.startswith("language =") or x.startswith("language:")]
    if not (len(lang_stmt) == 1 and lang_stmt[0] == f"language = detect_language({_u(calls[0].args[0])})" or lang_stmt == ["language = detect_language(file_path)"]):
        raise Unsupported(f"lint_file: language is computed as {lang_stmt}")
    stores = [n for n in ast.walk(lf) if isinstance(n, ast.Name) and n.id == "language" and isinstance(n.ctx, ast.Store)]
    if len(stores) != 1:
        raise Unsupported("lint_file: `language` is assigned more than once")
    for need in ("rules = self._get_rules_for_file(file_path, language)", "context = FileLintContext(file_path, language, metadata=metadata)",
                 "return self._execute_rules(rules, context)"):
        if need not in stmts:
            raise Unsupported(f"lint_file: statement `{need}` not found")
    if [n.id for n in ast.walk(lf) if isinstance(n, ast.Name) and n.id == "file_path" and isinstance(n.ctx, ast.Store)]:
        raise Unsupported("lint_file: file_path is reassigned")
    for fn_name, loop_over in (("lint_files", "file_paths"), ("lint_directory", "file_paths")):
        fn = find_func(orch, fn_name)
        loops = [x for x in _body(fn) if isinstance(x, ast.For)]
        if not (len(loops) >= 1 and _u(loops[0].target) == "file_path" and _u(loops[0].iter) == loop_over
                and [_u(x) for x in loops[0].body] == ["violations.extend(self.lint_file(file_path))"]):
            raise Unsupported(f"{fn_name}: the per-file loop does not hand each path unchanged to lint_file")
    ev = find_func(orch, "_collect_cross_file_evidence")
    ctxs = [_u(n) for n in ast.walk(ev) if isinstance(n, ast.Call) and _u(n.func) == "FileLintContext"]
    if not (len(ctxs) == 1 and ctxs[0].startswith("FileLintContext(file_path, detect_language(")):
        raise Unsupported(f"_collect_cross_file_evidence: context built as {ctxs}")
    ctx = find_class(core, "FileLintContext")
    init = find_func(ctx, "__init__")
    if [a.arg for a in init.args.args][:3] != ["self", "path", "lang"] or "self._language = lang" not in [_u(x) for x in _body(init)]:
        raise Unsupported("FileLintContext.__init__: language parameter / storage shape")
    lang_prop = find_func(ctx, "language")
    if [_u(x) for x in _body(lang_prop)] != ["return self._language"] or [_u(d) for d in lang_prop.decorator_list] != ["property"]:
        raise Unsupported("FileLintContext.language shape")
    st = [n for n in ast.walk(core) if isinstance(n, ast.Attribute) and n.attr == "_language" and isinstance(n.ctx, ast.Store)]
    if len(st) != 1:
        raise Unsupported("core.py: _language is stored in more than one place")
    return defn("detect_arg_resolved", "bool", "true" if resolved else "false") + defn("detect_stateless", "bool", "true")


# ------------------------------------------------------------------ language detection
def extension_map():
    pairs = dict_str_str(find_assign(parse(LD), "EXTENSION_MAP"))
    if len({k for k, _ in pairs}) != len(pairs):
        raise Unsupported("duplicate key in EXTENSION_MAP")
    return defn("extension_map", "list (string * string)", coq_list([f"({coq_string(k)}, {coq_string(v)})" for k, v in pairs]))


def detect_consts():
    mod = parse(LD)
    f = find_func(mod, "detect_language")
    b = _body(f)
    # ext = file_path.suffix[.lower()]
    if not (isinstance(b[0], ast.Assign) and _u(b[0].targets[0]) == "ext"):
        raise Unsupported("detect_language: first statement is not `ext = ...`")
    e = _u(b[0].value)
    if e == "file_path.suffix.lower()":
        lowered = True
    elif e == "file_path.suffix":
        lowered = False
    else:
        raise Unsupported(f"detect_language: unexpected extension expression {e}")
    if not (isinstance(b[1], ast.With) and _u(b[1].items[0].context_expr) == "suppress(KeyError)" and len(b[1].body) == 1
            and _u(b[1].body[0]) == "return EXTENSION_MAP[ext]"):
        raise Unsupported("detect_language: map lookup shape")
    if not (isinstance(b[2], ast.If) and not b[2].orelse):
        raise Unsupported("detect_language: shebang guard")
    t = b[2].test
    parts = [_u(v) for v in t.values] if isinstance(t, ast.BoolOp) and isinstance(t.op, ast.And) else [_u(t)]
    tail = ["file_path.exists()", "file_path.stat().st_size > 0"]
    if parts == tail:
        any_ext = True          # the fallback is tried for every unmapped extension
    elif parts in (["not ext"] + tail, ["ext == ''"] + tail):
        any_ext = False         # ... only for extensionless names
    else:
        raise Unsupported(f"detect_language: shebang guard {_u(t)}")
    inner = b[2].body
    if not (len(inner) == 2 and _u(inner[0]) == "lang = _detect_from_shebang(file_path)" and isinstance(inner[1], ast.If)
            and _u(inner[1].test) == "lang" and _u(inner[1].body[0]) == "return lang" and not inner[1].orelse):
        raise Unsupported("detect_language: shebang branch shape")
    if not (len(b) == 4 and isinstance(b[3], ast.Return)):
        raise Unsupported("detect_language: tail")
    unknown = const_value(b[3].value)
    # _detect_from_shebang / _read_first_line
    d = _body(find_func(mod, "_detect_from_shebang"))
    if not (len(d) == 1 and isinstance(d[0], ast.Try) and [_u(s) for s in d[0].body] ==
            ["first_line = _read_first_line(file_path)", "return _parse_shebang_language(first_line)"]
            and len(d[0].handlers) == 1 and _u(d[0].handlers[0].type) == "(UnicodeDecodeError, OSError)"
            and _u(d[0].handlers[0].body[0]) == "return None"):
        raise Unsupported("_detect_from_shebang shape")
    r = _body(find_func(mod, "_read_first_line"))
    if not (len(r) == 1 and _u(r[0]) == "return file_path.read_text(encoding='utf-8').split('\\n')[0]"):
        raise Unsupported(f"_read_first_line shape: {_u(r[0])}")
    p = _body(find_func(mod, "_parse_shebang_language"))
    if len(p) != 3:
        raise Unsupported("_parse_shebang_language: statement count")
    s0, s1, s2 = p
    ok0 = (isinstance(s0, ast.If) and isinstance(s0.test, ast.UnaryOp) and isinstance(s0.test.op, ast.Not)
           and isinstance(s0.test.operand, ast.Call) and _u(s0.test.operand.func) == "line.startswith" and len(s0.test.operand.args) == 1
           and _u(s0.body[0]) == "return None" and not s0.orelse)
    if not ok0:
        raise Unsupported("_parse_shebang_language: prefix test")
    prefix = const_value(s0.test.operand.args[0])
    ok1 = (isinstance(s1, ast.If) and isinstance(s1.test, ast.Compare) and isinstance(s1.test.ops[0], ast.In)
           and _u(s1.test.comparators[0]) == "line" and len(s1.body) == 1 and isinstance(s1.body[0], ast.Return) and not s1.orelse)
    if not ok1:
        raise Unsupported("_parse_shebang_language: needle test")
    needle = const_value(s1.test.left)
    result = const_value(s1.body[0].value)
    if _u(s2) != "return None":
        raise Unsupported("_parse_shebang_language: tail")
    for x in (prefix, needle, result, unknown):
        if not isinstance(x, str):
            raise Unsupported("non-string constant in language detector")
    return (defn("ext_lowered", "bool", "true" if lowered else "false") + defn("shebang_guard_any_ext", "bool", "true" if any_ext else "false")
            + defn("shebang_prefix", "string", coq_string(prefix))
            + defn("shebang_needle", "string", coq_string(needle)) + defn("shebang_lang", "string", coq_string(result))
            + defn("unknown_lang", "string", coq_string(unknown)))


def _language_enum() -> dict[str, str]:
    c = find_class(parse(CONSTS), "Language")
    out = {}
    for st in c.body:
        if isinstance(st, ast.Assign) and len(st.targets) == 1 and isinstance(st.targets[0], ast.Name):
            v = const_value(st.value)
            if not isinstance(v, str):
                raise Unsupported("Language member is not a string")
            out[st.targets[0].id] = v
    if not out:
        raise Unsupported("Language enum empty")
    return out


def language_enum():
    e = _language_enum()
    return defn("language_enum", "list (string * string)", coq_list([f"({coq_string(k)}, {coq_string(v)})" for k, v in e.items()]))


def _lang_const(e: ast.expr, enum: dict[str, str]) -> str:
    if isinstance(e, ast.Constant) and isinstance(e.value, str):
        return e.value
    if isinstance(e, ast.Attribute) and isinstance(e.value, ast.Name) and e.value.id == "Language":
        if e.attr not in enum:
            raise Unsupported(f"Language.{e.attr} not in enum")
        return enum[e.attr]
    raise Unsupported(f"language constant expected, got {_u(e)}")


def _lang_test(t: ast.expr, subject: str, enum) -> list[str]:
    """`<subject> == L` / `<subject> in (L1, L2)` -> languages"""
    if isinstance(t, ast.Compare) and len(t.ops) == 1 and _u(t.left) == subject:
        if isinstance(t.ops[0], ast.Eq):
            return [_lang_const(t.comparators[0], enum)]
        if isinstance(t.ops[0], ast.In) and isinstance(t.comparators[0], (ast.Tuple, ast.List, ast.Set)):
            return [_lang_const(x, enum) for x in t.comparators[0].elts]
    raise Unsupported(f"language test expected, got {_u(t)}")


# ------------------------------------------------------------------ CLI filters
def _cli_modules():
    d = REPO / CLI_DIR
    names = sorted(p.name for p in d.glob("*.py") if p.name not in ("__init__.py",))
    if not names:
        raise Unsupported("no CLI linter modules")
    return [f"{CLI_DIR}/{n}" for n in names]


def _atom_from_test(t: ast.expr, var: str, param: str | None = None):
    """predicate on <var>.rule_id -> (kind, needle) ; needle is a str, or ("param", name) when it is a variable"""
    rid = f"{var}.rule_id"

    def needle_of(e):
        if isinstance(e, ast.Constant) and isinstance(e.value, str):
            return e.value
        if isinstance(e, ast.Name):
            return ("var", e.id)
        raise Unsupported(f"filter needle {_u(e)}")
    if isinstance(t, ast.Call) and _u(t.func) == f"{rid}.startswith" and len(t.args) == 1 and not t.keywords:
        return ("FStartswith", needle_of(t.args[0]))
    if isinstance(t, ast.Compare) and len(t.ops) == 1:
        if isinstance(t.ops[0], ast.In) and _u(t.comparators[0]) == rid:
            return ("FContains", needle_of(t.left))
        if isinstance(t.ops[0], ast.Eq) and _u(t.left) == rid:
            return ("FEq", needle_of(t.comparators[0]))
    raise Unsupported(f"unrecognised rule-id filter predicate: {_u(t)}")


def _filters_in(fn: ast.AST):
    """every filtering comprehension over violations inside fn: [(kind, needle)]"""
    out = []
    for n in ast.walk(fn):
        if isinstance(n, (ast.ListComp, ast.GeneratorExp, ast.SetComp)) and any(g.ifs for g in n.generators):
            if len(n.generators) != 1 or not isinstance(n.generators[0].target, ast.Name):
                raise Unsupported(f"filter comprehension shape: {_u(n)}")
            g = n.generators[0]
            if not (isinstance(n.elt, ast.Name) and n.elt.id == g.target.id):
                raise Unsupported(f"filter comprehension maps its elements: {_u(n)}")
            if "violation" not in _u(g.iter):
                continue  # not a comprehension over violations (e.g. over paths)
            for t in g.ifs:
                out.append(_atom_from_test(t, g.target.id))
    return out


def _closure(mod: ast.Module, root: ast.AST):
    funcs = {n.name: n for n in mod.body if isinstance(n, (ast.FunctionDef, ast.AsyncFunctionDef))}
    seen, todo, order = set(), [root], []
    while todo:
        f = todo.pop()
        if id(f) in seen:
            continue
        seen.add(id(f))
        order.append(f)
        for n in ast.walk(f):
            if isinstance(n, ast.Name) and n.id in funcs and id(funcs[n.id]) not in seen:
                todo.append(funcs[n.id])
    return order


def _shared_helpers():
    """filter helpers of shared.py: name -> kind (needle = 2nd parameter)"""
    mod = parse(f"{CLI_DIR}/shared.py")
    out = {}
    for n in mod.body:
        if isinstance(n, ast.FunctionDef) and n.name.startswith("filter_violations"):
            fl = _filters_in(n)
            if len(fl) != 1 or not (isinstance(fl[0][1], tuple) and fl[0][1][1] == n.args.args[1].arg):
                raise Unsupported(f"shared helper {n.name} shape")
            out[n.name] = fl[0][0]
    return out


def _commands(mod: ast.Module):
    """[(command name, root function node, decorated function or None)]"""
    funcs = {n.name: n for n in mod.body if isinstance(n, (ast.FunctionDef, ast.AsyncFunctionDef))}
    out = []
    for st in mod.body:
        if isinstance(st, ast.Assign) and isinstance(st.value, ast.Call) and _u(st.value.func) == "create_linter_command":
            a = st.value.args
            if len(a) < 2 or not isinstance(a[1], ast.Name) or a[1].id not in funcs:
                raise Unsupported(f"create_linter_command arguments: {_u(st.value)[:80]}")
            out.append((const_value(a[0]), funcs[a[1].id], None))
        if isinstance(st, (ast.FunctionDef, ast.AsyncFunctionDef)):
            for d in st.decorator_list:
                if isinstance(d, ast.Call) and _u(d.func) == "cli.command":
                    if d.args:
                        name = const_value(d.args[0])
                    else:
                        kw = [k for k in d.keywords if k.arg == "name"]
                        if not kw:
                            raise Unsupported(f"cli.command without a name on {st.name}")
                        name = const_value(kw[0].value)
                    out.append((name, st, st))
    return out


def _choice_option(fn: ast.FunctionDef, dest: str):
    """(flag, choices) of the click.option whose destination is `dest`"""
    for d in fn.decorator_list:
        if isinstance(d, ast.Call) and _u(d.func) == "click.option":
            strs = [a.value for a in d.args if isinstance(a, ast.Constant) and isinstance(a.value, str)]
            if dest not in strs:
                continue
            flags = [s for s in strs if s.startswith("--")]
            ty = [k.value for k in d.keywords if k.arg == "type"]
            if len(flags) != 1 or len(ty) != 1 or not (isinstance(ty[0], ast.Call) and _u(ty[0].func) == "click.Choice"):
                raise Unsupported(f"option {dest}: not a single-flag click.Choice")
            return flags[0], [const_value(x) for x in ty[0].args[0].elts]
    raise Unsupported(f"no click.option with destination {dest}")


def _variable_filter(mod: ast.Module, fn: ast.FunctionDef, var: str, decorated):
    """`[v for v in vs if v.rule_id == <var>]` where `<var> = TABLE.get(<param>)` and the function returns its
    input unchanged when <param> is falsy or unknown: -> (flag, [(choice, rule id)])"""
    b = _body(fn)
    params = [a.arg for a in fn.args.args]
    if len(params) != 2:
        raise Unsupported(f"{fn.name}: parameters")
    vs, param = params
    texts = [_u(s) for s in b]
    if not (len(b) == 4 and texts[0] == f"if not {param}:\n    return {vs}" and texts[1].startswith(f"{var} = ")
            and texts[1].endswith(f".get({param})") and isinstance(b[2], ast.If) and _u(b[2].test) == f"not {var}"
            and _u(b[2].body[-1]) == f"return {vs}" and isinstance(b[3], ast.Return)):
        raise Unsupported(f"{fn.name}: unexpected shape of an option-driven filter")
    table_name = texts[1][len(var) + 3:-len(f".get({param})")]
    table = dict(dict_str_str(find_assign(mod, table_name)))
    if decorated is None:
        raise Unsupported(f"{fn.name}: option-driven filter on a command without its own options")
    flag, choices = _choice_option(decorated, param)
    pairs = []
    for c in choices:
        if c not in table:
            raise Unsupported(f"choice {c} missing from {table_name}")
        pairs.append((c, table[c]))
    return flag, pairs


def _cli_filters():
    helpers = _shared_helpers()
    out = []  # (command variant, [(kind, needle)])
    for rel in _cli_modules():
        if rel.endswith("/shared.py"):
            continue
        mod = parse(rel)
        for name, root, decorated in _commands(mod):
            atoms, variants = [], None
            for fn in _closure(mod, root):
                for kind, needle in _filters_in(fn):
                    if isinstance(needle, tuple):
                        if variants is not None:
                            raise Unsupported(f"{name}: two option-driven filters")
                        variants = _variable_filter(mod, fn, needle[1], decorated)
                        if kind != "FEq":
                            raise Unsupported(f"{name}: option-driven filter is not an equality")
                    else:
                        atoms.append((kind, needle))
                for n in ast.walk(fn):
                    if isinstance(n, ast.Call) and isinstance(n.func, ast.Name) and n.func.id in helpers:
                        if len(n.args) != 2:
                            raise Unsupported(f"{name}: helper call arguments")
                        atoms.append((helpers[n.func.id], const_value(n.args[1])))
            out.append((name, atoms))
            if variants:
                flag, pairs = variants
                for choice, rid in pairs:
                    out.append((f"{name} {flag} {choice}", atoms + [("FEq", rid)]))
    if len({c for c, _ in out}) != len(out):
        raise Unsupported("duplicate command name")
    return sorted(out)


def cli_filters():
    rows = []
    for cmd, atoms in _cli_filters():
        al = coq_list([f"({k}, {coq_string(n)})" for k, n in atoms])
        rows.append(f"({coq_string(cmd)}, {al})")
    return defn("cli_filters", "list (string * list (fkind * string))", coq_list(rows))


# ------------------------------------------------------------------ rule classes
def _linter_files():
    d = REPO / LINTERS
    files = sorted(str(p.relative_to(REPO)) for p in d.rglob("*.py"))
    if not files:
        raise Unsupported("no linter sources")
    return files


def _pkg_of(rel: str) -> str:
    parts = rel.split("/")
    if len(parts) < 4:
        raise Unsupported(f"{rel}: not inside a linter package")
    return parts[2]


def _rule_id_of(cls: ast.ClassDef):
    for st in cls.body:
        if isinstance(st, ast.FunctionDef) and st.name == "rule_id":
            if not any(_u(d) == "property" for d in st.decorator_list):
                raise Unsupported(f"{cls.name}.rule_id is not a property")
            b = _body(st)
            if len(b) == 1 and isinstance(b[0], ast.Return) and isinstance(b[0].value, ast.Constant) and isinstance(b[0].value.value, str):
                return b[0].value.value
            raise Unsupported(f"{cls.name}.rule_id does not return a string literal")
    return None


def _methods(cls: ast.ClassDef):
    return {st.name: st for st in cls.body if isinstance(st, (ast.FunctionDef, ast.AsyncFunctionDef))}


def _is_empty_list(e) -> bool:
    return isinstance(e, ast.List) and not e.elts


def _dispatch_table(fn: ast.FunctionDef, subject: str, enum):
    """`if <subject> == L: return self.m(...)` ... `return []` -> [(langs, method)]"""
    out = []
    b = _body(fn)
    if not (b and isinstance(b[-1], ast.Return) and _is_empty_list(b[-1].value)):
        raise Unsupported(f"{fn.name}: does not end with `return []`")
    for st in b[:-1]:
        if not (isinstance(st, ast.If) and not st.orelse and len(st.body) == 1 and isinstance(st.body[0], ast.Return)
                and isinstance(st.body[0].value, ast.Call) and isinstance(st.body[0].value.func, ast.Attribute)):
            raise Unsupported(f"{fn.name}: unexpected statement {_u(st)[:70]}")
        out.append((_lang_test(st.test, subject, enum), st.body[0].value.func.attr))
    return out


def _check_only_dispatches(fn: ast.FunctionDef, what: str):
    """every return of a `check` method is `return []` or the language dispatch"""
    for n in ast.walk(fn):
        if isinstance(n, ast.Return):
            if n.value is None or _is_empty_list(n.value) or _u(n.value) == "self._dispatch_by_language(context, config)":
                continue
            raise Unsupported(f"{what}.check returns {_u(n.value)[:60]} outside the language dispatch")


def _trivial(fn: ast.FunctionDef) -> bool:
    b = _body(fn)
    return len(b) == 1 and isinstance(b[0], ast.Return) and _is_empty_list(b[0].value)


def _multi_langs(cls: ast.ClassDef, enum):
    base = find_class(parse(BASE), "MultiLanguageLintRule")
    bm, cm = _methods(base), _methods(cls)
    _check_only_dispatches(bm["check"], "MultiLanguageLintRule")
    if "check" in cm:
        _check_only_dispatches(cm["check"], cls.name)
    disp = cm.get("_dispatch_by_language", bm["_dispatch_by_language"])
    langs = []
    for ls, meth in _dispatch_table(disp, "context.language", enum):
        impl = cm.get(meth)
        if impl is None:
            inherited = bm.get(meth)
            if inherited is None:
                raise Unsupported(f"{cls.name}: dispatch target {meth} not found")
            if _trivial(inherited) or any("abstractmethod" in _u(d) for d in inherited.decorator_list):
                continue
            raise Unsupported(f"{cls.name}: inherited {meth} is not trivial")
        if _trivial(impl):
            continue
        langs.extend(ls)
    return langs


def _pyonly_langs(cls: ast.ClassDef, enum):
    base = find_class(parse(PYRULE), "PythonOnlyLintRule")
    bm, cm = _methods(base), _methods(cls)
    for m in ("check", "_should_analyze"):
        if m in cm:
            raise Unsupported(f"{cls.name} overrides {m}")
    b = _body(bm["check"])
    if _u(b[0]) != "if not self._should_analyze(context):\n    return []":
        raise Unsupported("PythonOnlyLintRule.check does not start with the language guard")
    s = _body(bm["_should_analyze"])
    if not (len(s) == 1 and isinstance(s[0], ast.Return) and isinstance(s[0].value, ast.BoolOp) and isinstance(s[0].value.op, ast.And)):
        raise Unsupported("PythonOnlyLintRule._should_analyze shape")
    for v in s[0].value.values:
        if isinstance(v, ast.Compare) and _u(v.left) == "context.language":
            return _lang_test(v, "context.language", enum)
    raise Unsupported("PythonOnlyLintRule._should_analyze has no language test")


def _guard_first(check: ast.FunctionDef, stmt_index: int, what: str):
    for st in _body(check)[:stmt_index]:
        for n in ast.walk(st):
            if isinstance(n, ast.Return) and not (n.value is None or _is_empty_list(n.value)):
                raise Unsupported(f"{what}.check returns a value before its language guard")


def _generic_guard(cls: ast.ClassDef, enum):
    """Base-derived rule: one comparison on context.language, either `if context.language != L: return False/[]`
    or `return context.language == L and ...`, in check itself or in a _should_analyze whose failure returns []."""
    cm = _methods(cls)
    if "check" not in cm:
        raise Unsupported(f"{cls.name}: no check method")
    sites = []
    for name, fn in cm.items():
        for n in ast.walk(fn):
            if isinstance(n, ast.Compare) and _u(n.left) == "context.language":
                sites.append((name, fn, n))
    if len(sites) != 1:
        raise Unsupported(f"{cls.name}: {len(sites)} comparisons on context.language")
    name, fn, cmp_ = sites[0]
    if name not in ("check", "_should_analyze"):
        raise Unsupported(f"{cls.name}: language comparison inside {name}")
    langs = None
    for st in ast.walk(fn):
        if isinstance(st, ast.If) and st.test is cmp_ and isinstance(cmp_.ops[0], ast.NotEq) and not st.orelse and len(st.body) == 1 \
                and isinstance(st.body[0], ast.Return):
            rv = st.body[0].value
            good = _is_empty_list(rv) if name == "check" else (isinstance(rv, ast.Constant) and rv.value is False)
            if good:
                langs = [_lang_const(cmp_.comparators[0], enum)]
        if isinstance(st, ast.Return) and isinstance(st.value, ast.BoolOp) and isinstance(st.value.op, ast.And) and cmp_ in st.value.values \
                and isinstance(cmp_.ops[0], ast.Eq) and name == "_should_analyze":
            langs = [_lang_const(cmp_.comparators[0], enum)]
    if langs is None:
        raise Unsupported(f"{cls.name}: unrecognised language guard {_u(cmp_)}")
    # the guard must dominate every non-empty return of check
    cb = _body(cm["check"])
    if name == "check":
        idx = [i for i, st in enumerate(cb) if any(n is cmp_ for n in ast.walk(st))]
        _guard_first(cm["check"], idx[0], cls.name)
        if not isinstance(cb[idx[0]], ast.If) or cb[idx[0]].test is not cmp_:
            raise Unsupported(f"{cls.name}: language guard is nested")
    else:
        idx = [i for i, st in enumerate(cb) if isinstance(st, ast.If) and isinstance(st.test, ast.UnaryOp) and isinstance(st.test.op, ast.Not)
               and _u(st.test.operand).startswith("self._should_analyze(") and len(st.body) == 1 and isinstance(st.body[0], ast.Return)
               and _is_empty_list(st.body[0].value)]
        if not idx:
            raise Unsupported(f"{cls.name}.check does not guard on _should_analyze")
        _guard_first(cm["check"], idx[0], cls.name)
        # inside _should_analyze every `return False` is fine; a `return True` before the comparison would bypass it
        for st in _body(fn):
            if any(n is cmp_ for n in ast.walk(st)):
                break
            for n in ast.walk(st):
                if isinstance(n, ast.Return) and not (isinstance(n.value, ast.Constant) and n.value.value is False):
                    raise Unsupported(f"{cls.name}._should_analyze returns before the language test")
    return langs


def _dry_langs(cls, enum):
    for n in ast.walk(cls):
        if isinstance(n, ast.Compare) and "language" in _u(n.left):
            raise Unsupported("DRYRule compares languages itself")
    fa = find_class(parse("src/linters/dry/file_analyzer.py"), "FileAnalyzer")
    langs = [l for ls, _ in _dispatch_table(_methods(fa)["analyze"], "language", enum) for l in ls]
    mod = parse("src/linters/dry/linter.py")
    ex = find_func(mod, "_get_extractor_for_language")
    dicts = [n for n in ast.walk(ex) if isinstance(n, ast.Dict)]
    if len(dicts) != 1:
        raise Unsupported("_get_extractor_for_language: dict")
    keys = [const_value(k) for k in dicts[0].keys]
    if not set(keys) <= set(langs):
        raise Unsupported("DRY constant extractors cover a language the block analyzer does not")
    return langs


def _header_langs(cls, enum):
    cm = _methods(cls)
    d = find_assign(cls, "_parsers")
    if not isinstance(d, ast.Dict):
        raise Unsupported("FileHeaderRule._parsers is not a dict literal")
    keys = [const_value(k) for k in d.keys]
    b = _body(cm["_check_language_header"])
    if [_u(s) for s in b[:2]] != ["parser = self._parsers.get(context.language)", "if not parser:\n    return []"]:
        raise Unsupported("FileHeaderRule._check_language_header shape")
    cb = _body(cm["check"])
    if _u(cb[-1]) != "return self._check_language_header(context, config)":
        raise Unsupported("FileHeaderRule.check tail")
    for st in cb[:-1]:
        for n in ast.walk(st):
            if isinstance(n, ast.Return) and not _is_empty_list(n.value):
                raise Unsupported("FileHeaderRule.check returns early with a value")
    return keys


def _agnostic(cls, enum):
    for n in ast.walk(cls):
        if isinstance(n, ast.Attribute) and n.attr == "language":
            raise Unsupported(f"{cls.name} is listed as language-agnostic but reads the language")
    return None


SPECIAL = {"DRYRule": _dry_langs, "FileHeaderRule": _header_langs, "FilePlacementRule": _agnostic}


def _config_keys(cls: ast.ClassDef, rel: str):
    """string keys a rule uses to find its section (in order of first appearance)"""
    keys = []

    def add(k):
        if isinstance(k, str) and k not in keys and not k.startswith("_") and k != "project_root":
            keys.append(k)
    scopes = [cls]
    if cls.name == "DRYRule":
        scopes.append(find_class(parse("src/linters/dry/config_loader.py"), "ConfigLoader"))
    for scope in scopes:
        for n in ast.walk(scope):
            if isinstance(n, ast.Call) and _u(n.func) == "load_linter_config" and len(n.args) >= 2:
                if isinstance(n.args[1], ast.Constant):
                    add(n.args[1].value)
            if isinstance(n, ast.Call) and isinstance(n.func, ast.Attribute) and n.func.attr == "get" and n.args \
                    and _u(n.func.value) in ("metadata", "config_dict", "context.metadata", "config") and isinstance(n.args[0], ast.Constant):
                add(n.args[0].value)
            if isinstance(n, ast.Compare) and len(n.ops) == 1 and isinstance(n.ops[0], ast.In) and isinstance(n.left, ast.Constant) \
                    and _u(n.comparators[0]) in ("metadata", "context.metadata"):
                add(n.left.value)
            if isinstance(n, ast.Subscript) and _u(n.value) in ("metadata", "context.metadata") and isinstance(n.slice, ast.Constant):
                add(n.slice.value)
            if isinstance(n, ast.Assign) and _u(n.targets[0]) == "config_keys" and isinstance(n.value, (ast.Tuple, ast.Set, ast.List)):
                for x in n.value.elts:
                    add(const_value(x))
            if isinstance(n, ast.Assign) and _u(n.targets[0]) == "key" and isinstance(n.value, ast.IfExp) \
                    and isinstance(n.value.body, ast.Constant) and isinstance(n.value.orelse, ast.Constant):
                add(n.value.body.value)      # key = "a_b" if "a_b" in metadata else "a-b"
                add(n.value.orelse.value)
            if isinstance(n, ast.FunctionDef) and n.name == "_config_key":
                b = _body(n)
                if len(b) == 1 and isinstance(b[0], ast.Return):
                    add(const_value(b[0].value))
    return keys


def _rules():
    enum = _language_enum()
    out = []
    for rel in _linter_files():
        mod = parse(rel)
        for cls in [n for n in ast.walk(mod) if isinstance(n, ast.ClassDef)]:
            rid = _rule_id_of(cls)
            if rid is None:
                continue
            bases = [_u(b).split("[")[0] for b in cls.bases]
            if "MultiLanguageLintRule" in bases:
                kind, langs = "KMulti", _multi_langs(cls, enum)
            elif "PythonOnlyLintRule" in bases:
                kind, langs = "KPyOnly", _pyonly_langs(cls, enum)
            elif "BaseLintRule" in bases:
                kind = "KBase"
                langs = SPECIAL[cls.name](cls, enum) if cls.name in SPECIAL else _generic_guard(cls, enum)
            else:
                raise Unsupported(f"{cls.name}: unknown base classes {bases}")
            out.append({"rid": rid, "pkg": _pkg_of(rel), "cls": cls.name, "kind": kind, "langs": langs, "keys": _config_keys(cls, rel)})
    if len({r["rid"] for r in out}) != len(out):
        raise Unsupported("two rule classes share a rule id")
    if not out:
        raise Unsupported("no rule class found")
    return sorted(out, key=lambda r: r["rid"])


def rule_table():
    rows = []
    for r in _rules():
        langs = "None" if r["langs"] is None else f"(Some {coq_str_list(r['langs'])})"
        rows.append(f"mk_rule {coq_string(r['rid'])} {coq_string(r['pkg'])} {r['kind']} {langs} {coq_str_list(r['keys'])}")
    return defn("rule_table", "list rule", "[" + ";\n  ".join(rows) + "]")


def _registry():
    """(package, rule id) for every rule id literal a package can put on a violation: the rule classes' own ids and
    every `rule_id=<literal>` of a Violation(...) construction; variable ids must be pass-throughs of a rule's own id."""
    out = []
    own = {(r["pkg"], r["rid"]) for r in _rules()}
    out.extend(sorted(own))
    for rel in _linter_files():
        pkg = _pkg_of(rel) if rel.count("/") >= 3 else None
        for n in ast.walk(parse(rel)):
            if isinstance(n, ast.Call) and _u(n.func).split(".")[-1] == "Violation":
                kws = [k for k in n.keywords if k.arg == "rule_id"]
                if not kws:
                    if n.args:
                        raise Unsupported(f"{rel}: positional Violation(...) construction")
                    continue
                v = kws[0].value
                if isinstance(v, ast.Constant) and isinstance(v.value, str):
                    if pkg is None:
                        raise Unsupported(f"{rel}: violation built outside a linter package")
                    if (pkg, v.value) not in out:
                        out.append((pkg, v.value))
                elif _u(v) in ("self.rule_id", "rule_id", "info.rule_id", "self._rule_id"):
                    continue
                else:
                    raise Unsupported(f"{rel}: computed rule id {_u(v)[:60]}")
    return out


def registry_rule_ids():
    return defn("registry_rule_ids", "list (string * string)", "[" + ";\n  ".join(f"({coq_string(p)}, {coq_string(r)})" for p, r in _registry()) + "]")


# ------------------------------------------------------------------ name-based exemptions (test files)
def _name_expr_dnf(e: ast.expr, subjects) -> list[list[tuple[str, str]]]:
    """boolean expression over the file NAME -> disjunctive normal form of (kind, needle) atoms"""
    if isinstance(e, ast.BoolOp) and isinstance(e.op, ast.Or):
        out = []
        for v in e.values:
            out.extend(_name_expr_dnf(v, subjects))
        return out
    if isinstance(e, ast.BoolOp) and isinstance(e.op, ast.And):
        acc = [[]]
        for v in e.values:
            acc = [a + b for a in acc for b in _name_expr_dnf(v, subjects)]
        return acc
    if isinstance(e, ast.Call) and isinstance(e.func, ast.Attribute) and _u(e.func.value) in subjects and len(e.args) == 1 and not e.keywords:
        if e.func.attr == "startswith":
            return [[("NStarts", const_value(e.args[0]))]]
        if e.func.attr == "endswith":
            return [[("NEnds", const_value(e.args[0]))]]
    if isinstance(e, ast.Compare) and len(e.ops) == 1:
        if isinstance(e.ops[0], ast.In) and _u(e.comparators[0]) in subjects:
            return [[("NContains", const_value(e.left))]]
        if isinstance(e.ops[0], ast.Eq) and _u(e.left) in subjects:
            return [[("NEq", const_value(e.comparators[0]))]]
    raise Unsupported(f"unrecognised file-name predicate {_u(e)[:70]}")


def _name_pred_of(fn: ast.FunctionDef, subjects, prelude) -> list[list[tuple[str, str]]]:
    """`[prelude...] (if <expr>: return True)* return False|<expr>` -> DNF"""
    dnf = []
    body = _body(fn)
    for i, st in enumerate(body):
        t = _u(st)
        if t in prelude:
            continue
        if isinstance(st, ast.If) and not st.orelse and len(st.body) == 1 and _u(st.body[0]) == "return True":
            dnf.extend(_name_expr_dnf(st.test, subjects))
            continue
        if isinstance(st, ast.Return) and i == len(body) - 1:
            if _u(st) != "return False":
                dnf.extend(_name_expr_dnf(st.value, subjects))
            return dnf
        raise Unsupported(f"{fn.name}: unexpected statement {t[:70]}")
    raise Unsupported(f"{fn.name}: no final return")


def _glob_name_atoms(patterns: list[str]):
    """`**/*SUFFIX` -> the name ends with SUFFIX ; `**/NAME` -> the name is NAME ; `**/dir/**` -> directory pattern (not a name predicate)"""
    dnf, dirs = [], []
    for pt in patterns:
        if not pt.startswith("**/"):
            raise Unsupported(f"ignore pattern {pt}")
        rest = pt[3:]
        if rest.endswith("/**") and not any(c in rest[:-3] for c in "*?[/"):
            dirs.append(rest[:-3])
        elif rest.startswith("*") and not any(c in rest[1:] for c in "*?[/"):
            dnf.append([("NEnds", rest[1:])])
        elif not any(c in rest for c in "*?[/"):
            dnf.append([("NEq", rest)])
        else:
            raise Unsupported(f"ignore pattern {pt}")
    return dnf, dirs


def _name_exemptions():
    """(rule id, languages, DNF over the file name): a file whose NAME satisfies the predicate gets no finding of that rule"""
    out = []
    # method-property: `if self._is_test_file(context.file_path): return []` at the top of _check_python
    mp = find_class(parse("src/linters/method_property/linter.py"), "MethodPropertyRule")
    mm = _methods(mp)
    if "if self._is_test_file(context.file_path):\n    return []" not in [_u(st) for st in _body(mm["_check_python"])]:
        raise Unsupported("MethodPropertyRule._check_python does not skip test files")
    out.append(("method-property.should-be-property", ["python"],
                _name_pred_of(mm["_is_test_file"], ("file_name",), ("path_str = str(file_path)", "file_name = Path(path_str).name"))))
    # magic-numbers (Python): is_test_file(file_path) makes every context acceptable
    ca = parse("src/linters/magic_numbers/context_analyzer.py")
    acc = find_func(ca, "is_acceptable_context")
    if not any(isinstance(st, ast.If) and _u(st.test) == "is_test_file(file_path) or is_constant_definition(node, parent)" and _u(st.body[0]) == "return True"
               for st in _body(acc)):
        raise Unsupported("is_acceptable_context does not accept test files")
    out.append(("magic-numbers.numeric-literal", ["python"],
                _name_pred_of(find_func(ca, "is_test_file"), ("file_path.name",), ("if not file_path:\n    return False",))))
    # stringly-typed: DEFAULT_IGNORE_PATTERNS matched with fnmatch on the path (or as a substring)
    iu = find_func(parse("src/linters/stringly_typed/ignore_utils.py"), "is_ignored")
    texts = [_u(st) for st in ast.walk(iu) if isinstance(st, ast.If)]
    if not ("if fnmatch.fnmatch(path_str, pattern):\n    return True" in texts and "if pattern in path_str:\n    return True" in texts):
        raise Unsupported("stringly_typed is_ignored shape")
    from translator.lib import str_elems
    pats = str_elems(find_assign(parse("src/linters/stringly_typed/config.py"), "DEFAULT_IGNORE_PATTERNS"))
    dnf, _dirs = _glob_name_atoms(pats)
    st_langs = next(r["langs"] for r in _rules() if r["rid"] == "stringly-typed.repeated-validation")
    out.append(("stringly-typed.repeated-validation", st_langs, dnf))
    for rid, _l, dnf in out:
        if not dnf:
            raise Unsupported(f"{rid}: empty exemption predicate")
        for conj in dnf:
            for _k, n in conj:
                if not isinstance(n, str):
                    raise Unsupported(f"{rid}: non-string needle")
    return out


def name_exemptions():
    rows = []
    for rid, langs, dnf in _name_exemptions():
        d = coq_list([coq_list([f"({k}, {coq_string(n)})" for k, n in conj]) for conj in dnf])
        rows.append(f"({coq_string(rid)}, {coq_str_list(langs)}, {d})")
    return defn("name_exemptions", "list (string * list string * list (list (nkind * string)))", "[" + ";\n  ".join(rows) + "]")


ITEMS = [
    ("extension_map", extension_map),
    ("detect_consts", detect_consts),
    ("detect_locality", detect_locality),
    ("language_enum", language_enum),
    ("cli_filters", cli_filters),
    ("rule_table", rule_table),
    ("registry_rule_ids", registry_rule_ids),
    ("name_exemptions", name_exemptions),
]
