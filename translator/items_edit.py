"""Generated layer for property C13 (layout edits): the literals of the text-level steps that the theorems of
Proofs/Edit*.v are stated about and that are not already read by the generated layers of C03 / C04 / C16
(Gen/DryGen.v, Gen/IgnoreGen.v, Gen/SrpGen.v: comment markers, import filters, the header window, slice offsets,
comment prefixes, the TS span formula).  Fail-closed: an unexpected shape raises Unsupported.

  file_lines_sep        the separator of FileLintContext.file_lines            content.split("\\n")
  file_read_encoding    the codec FileLintContext.file_content decodes with    read_text(encoding="utf-8")  (keeps U+FEFF)
  ignore_line_splitters the method every line-splitting site of src/linter_config/ignore.py uses  (splitlines)
  loc_line_seps         the separators of heuristics.count_loc / RustSRPAnalyzer._node_loc
  tokenize_line_seps    the separators of token_hasher.tokenize and the two _tokenize_with_line_numbers
  block_filter_line_seps the separators of the four DRY block filters
  loc_strip_calls       count_loc strips each line with str.strip() (no argument) before testing it
  dry_block_window      `# dry: ignore-block` covers the next N lines (a documented position-sensitive directive; the
                        harness never inserts inside that window)
  block_filters         the three text-only DRY block filters (ImportGroupFilter, LoggerCallFilter, ExceptionReraiseFilter) as a
                        template: every statement of should_filter / _is_except_raise_pattern is matched against the shape
                        Model/EditFilter.v transcribes, the literals (prefixes, counts, comparisons, the alternatives of the logger
                        pattern) are generated; the registration order and the `any` of the registry
"""
import ast
import re

from translator.lib import CMP, Unsupported, coq_str_list, coq_string, defn, find_class, find_func, parse

GEN_FILE = "EditGen"
HEADER = "From TL Require Import Lib.Base Lib.GenTypes."
SERVES = ["C13"]
FINGERPRINTS = [
    ("src/orchestrator/core.py", ["FileLintContext"]),
    ("src/linters/dry/token_hasher.py", ["tokenize", "normalize_line", "_strip_comments"]),
    ("src/linters/srp/heuristics.py", ["count_loc"]),
    ("src/linters/srp/rust_analyzer.py", ["_node_loc"]),
    ("src/linters/srp/typescript_metrics_calculator.py", ["count_loc"]),
    ("src/linters/dry/python_analyzer.py", ["_tokenize_with_line_numbers", "_normalize_and_filter_line"]),
    ("src/linters/dry/typescript_analyzer.py", ["_tokenize_with_line_numbers", "_normalize_and_filter_line"]),
    ("src/linters/dry/inline_ignore.py", ["InlineIgnoreParser"]),
    ("src/linter_config/ignore.py", ["_read_file_first_lines", "_has_file_ignore_in_content", "_is_ignored_in_content"]),
    ("src/linters/dry/block_filter.py", ["ImportGroupFilter", "LoggerCallFilter", "ExceptionReraiseFilter", "BlockFilterRegistry",
                                          "create_default_registry"]),
]


def _split_args(scope: ast.AST, method: str) -> list:
    """the argument lists of every `<x>.<method>(...)` call in scope"""
    out = []
    for n in ast.walk(scope):
        if isinstance(n, ast.Call) and isinstance(n.func, ast.Attribute) and n.func.attr == method:
            out.append(n)
    return out


def _one_sep(scope: ast.AST, what: str) -> str:
    calls = _split_args(scope, "split")
    seps = []
    for c in calls:
        if len(c.args) == 1 and not c.keywords and isinstance(c.args[0], ast.Constant) and isinstance(c.args[0].value, str):
            seps.append(c.args[0].value)
        elif not c.args and not c.keywords:
            continue        # str.split() on one line: white-space splitting, not line splitting
        else:
            raise Unsupported(f"{what}: unexpected split call {ast.unparse(c)}")
    if len(seps) != 1:
        raise Unsupported(f"{what}: {len(seps)} line-splitting calls")
    if _split_args(scope, "splitlines"):
        raise Unsupported(f"{what}: uses splitlines as well")
    return seps[0]


def file_lines_sep():
    c = find_class(parse("src/orchestrator/core.py"), "FileLintContext")
    return defn("file_lines_sep", "string", coq_string(_one_sep(find_func(c, "file_lines"), "file_lines")))


def file_read_encoding():
    c = find_class(parse("src/orchestrator/core.py"), "FileLintContext")
    f = find_func(c, "file_content")
    calls = _split_args(f, "read_text")
    if len(calls) != 1:
        raise Unsupported(f"file_content: {len(calls)} read_text calls")
    call = calls[0]
    kw = {k.arg: k.value for k in call.keywords}
    if call.args or set(kw) != {"encoding"} or not isinstance(kw["encoding"], ast.Constant) or not isinstance(kw["encoding"].value, str):
        raise Unsupported(f"file_content: unexpected call {ast.unparse(call)}")
    return defn("file_read_encoding", "string", coq_string(kw["encoding"].value))


def ignore_line_splitters():
    mod = parse("src/linter_config/ignore.py")
    names = []
    for fn in ("_read_file_first_lines", "_has_file_ignore_in_content", "_is_ignored_in_content"):
        f = find_func(mod, fn)
        sl = _split_args(f, "splitlines")
        sp = [c for c in _split_args(f, "split")]
        if len(sl) + len(sp) != 1:
            raise Unsupported(f"{fn}: {len(sl)} splitlines and {len(sp)} split calls")
        call = (sl + sp)[0]
        if call.args or call.keywords:
            names.append(ast.unparse(call.func).split(".")[-1] + "(" + ", ".join(ast.unparse(a) for a in call.args) + ")")
        else:
            names.append(call.func.attr)
    return defn("ignore_line_splitters", "list string", coq_str_list(names))


def loc_line_seps():
    py = _one_sep(find_func(parse("src/linters/srp/heuristics.py"), "count_loc"), "count_loc")
    rs = _one_sep(find_func(parse("src/linters/srp/rust_analyzer.py"), "_node_loc"), "_node_loc")
    return defn("loc_line_seps", "list string", coq_str_list([py, rs]))


def tokenize_line_seps():
    a = _one_sep(find_func(parse("src/linters/dry/token_hasher.py"), "tokenize"), "tokenize")
    b = _one_sep(find_func(find_class(parse("src/linters/dry/python_analyzer.py"), "PythonDuplicateAnalyzer"), "_tokenize_with_line_numbers"), "py tokenizer")
    c = _one_sep(find_func(find_class(parse("src/linters/dry/typescript_analyzer.py"), "TypeScriptDuplicateAnalyzer"), "_tokenize_with_line_numbers"), "ts tokenizer")
    return defn("tokenize_line_seps", "list string", coq_str_list([a, b, c]))


def block_filter_line_seps():
    mod = parse("src/linters/dry/block_filter.py")
    seps = []
    for cls in ("KeywordArgumentFilter", "ImportGroupFilter", "LoggerCallFilter", "ExceptionReraiseFilter"):
        seps.append(_one_sep(find_func(find_class(mod, cls), "should_filter"), cls))
    return defn("block_filter_line_seps", "list string", coq_str_list(seps))


def loc_strip_calls():
    """every .strip() in the two filtering count functions is the argument-less white-space strip"""
    out = []
    for rel, fn in (("src/linters/srp/heuristics.py", "count_loc"), ("src/linters/srp/rust_analyzer.py", "_node_loc")):
        f = find_func(parse(rel), fn)
        calls = _split_args(f, "strip")
        if not calls:
            raise Unsupported(f"{fn}: no strip call")
        for c in calls:
            if c.args or c.keywords:
                raise Unsupported(f"{fn}: strip with arguments")
        if _split_args(f, "lstrip") or _split_args(f, "rstrip"):
            raise Unsupported(f"{fn}: one-sided strip")
        out.append(fn)
    return defn("loc_strip_calls", "list string", coq_str_list(out))


def dry_block_window():
    c = find_class(parse("src/linters/dry/inline_ignore.py"), "InlineIgnoreParser")
    f = find_func(c, "_parse_ignore_directive")
    hits = []
    for n in ast.walk(f):
        if isinstance(n, ast.Call) and isinstance(n.func, ast.Name) and n.func.id == "min" and len(n.args) == 2:
            a = n.args[0]
            if isinstance(a, ast.BinOp) and isinstance(a.op, ast.Add) and isinstance(a.right, ast.Constant) and isinstance(a.right.value, int):
                hits.append(a.right.value)
    if len(hits) != 1:
        raise Unsupported(f"ignore-block window: {hits}")
    return defn("dry_block_window", "nat", str(hits[0]))


def _stmts(f: ast.FunctionDef) -> list[ast.stmt]:
    b = f.body
    if b and isinstance(b[0], ast.Expr) and isinstance(b[0].value, ast.Constant) and isinstance(b[0].value.value, str):
        b = b[1:]
    return b


def _src(f: ast.FunctionDef) -> list[str]:
    return [ast.unparse(x) for x in _stmts(f)]


SLICE = "lines = file_content.split('\\n')[block.start_line - 1:block.end_line]"
STRIPPED = "{v} = [s for line in lines if (s := line.strip())]"


def _lit(e: ast.expr, what: str) -> str:
    if not (isinstance(e, ast.Constant) and isinstance(e.value, str)):
        raise Unsupported(f"{what}: not a string literal: {ast.unparse(e)}")
    return e.value


def _len_test(stmt: ast.stmt, var: str, what: str) -> tuple[str, int]:
    """`if len(<var>) <op> <int>:` -> (cmp constructor, int)"""
    if not (isinstance(stmt, ast.If) and not stmt.orelse and isinstance(stmt.test, ast.Compare) and len(stmt.test.ops) == 1
            and ast.unparse(stmt.test.left) == f"len({var})" and type(stmt.test.ops[0]) in CMP
            and isinstance(stmt.test.comparators[0], ast.Constant) and type(stmt.test.comparators[0].value) is int
            and stmt.test.comparators[0].value >= 0):
        raise Unsupported(f"{what}: unexpected length test {ast.unparse(stmt)}")
    return CMP[type(stmt.test.ops[0])], stmt.test.comparators[0].value


def _method_call(e: ast.expr, obj: str, meth: str, what: str) -> str:
    if not (isinstance(e, ast.Call) and isinstance(e.func, ast.Attribute) and e.func.attr == meth and ast.unparse(e.func.value) == obj
            and len(e.args) == 1 and not e.keywords):
        raise Unsupported(f"{what}: expected {obj}.{meth}(<literal>), found {ast.unparse(e)}")
    return _lit(e.args[0], what)


def block_filters():
    m = parse("src/linters/dry/block_filter.py")
    # --- ImportGroupFilter: every non-blank stripped line starts with one of the prefixes
    f = find_func(find_class(m, "ImportGroupFilter"), "should_filter")
    st = _stmts(f)
    if len(st) != 3 or ast.unparse(st[0]) != SLICE or ast.unparse(st[2]) != "return True" or not isinstance(st[1], ast.For) \
            or ast.unparse(st[1].target) != "line" or ast.unparse(st[1].iter) != "lines" or st[1].orelse or len(st[1].body) != 3 \
            or ast.unparse(st[1].body[0]) != "stripped = line.strip()" or ast.unparse(st[1].body[1]) != "if not stripped:\n    continue":
        raise Unsupported(f"ImportGroupFilter.should_filter changed: {_src(f)}")
    test = st[1].body[2]
    if not (isinstance(test, ast.If) and not test.orelse and [ast.unparse(x) for x in test.body] == ["return False"]
            and isinstance(test.test, ast.UnaryOp) and isinstance(test.test.op, ast.Not) and isinstance(test.test.operand, ast.BoolOp)
            and isinstance(test.test.operand.op, ast.Or)):
        raise Unsupported(f"ImportGroupFilter: unexpected line test {ast.unparse(test)}")
    prefixes = [_method_call(v, "stripped", "startswith", "ImportGroupFilter") for v in test.test.operand.values]
    # --- LoggerCallFilter: exactly <count> non-blank stripped lines and the first one matches the pattern
    c = find_class(m, "LoggerCallFilter")
    init = _src(find_func(c, "__init__"))
    mm = re.fullmatch(r"self\._logger_pattern = re\.compile\((?P<q>'|\")(?P<pat>.*)(?P=q)\)", init[0]) if len(init) == 1 else None
    if not mm:
        raise Unsupported(f"LoggerCallFilter.__init__ changed: {init}")
    pats = [n for n in ast.walk(find_func(c, "__init__")) if isinstance(n, ast.Call) and ast.unparse(n.func) == "re.compile"]
    if len(pats) != 1 or len(pats[0].args) != 1 or pats[0].keywords:
        raise Unsupported("LoggerCallFilter: pattern flags / arguments")
    pat = _lit(pats[0].args[0], "logger pattern")
    pm = re.fullmatch(r"\^\\s\*\((?P<self>[A-Za-z_]+)\\\.\)\?\((?P<names>[A-Za-z_|]+)\)\\\.\((?P<meths>[A-Za-z_|]+)\)\\s\*\\\(", pat)
    if not pm:
        raise Unsupported(f"logger pattern changed: {pat!r} (Model/EditFilter.v logger_match transcribes ^\\s*(self\\.)?(n1|..)\\.(m1|..)\\s*\\( )")
    names, meths = pm.group("names").split("|"), pm.group("meths").split("|")
    if "" in names or "" in meths:
        raise Unsupported("logger pattern: empty alternative")
    f = find_func(c, "should_filter")
    st = _stmts(f)
    if len(st) != 5 or ast.unparse(st[0]) != SLICE or ast.unparse(st[1]) != STRIPPED.format(v="non_empty") \
            or ast.unparse(st[2]) != "if not non_empty:\n    return False" or ast.unparse(st[4]) != "return False" \
            or not isinstance(st[3], ast.If) or [ast.unparse(x) for x in st[3].body] != ["return bool(self._logger_pattern.match(non_empty[0]))"]:
        raise Unsupported(f"LoggerCallFilter.should_filter changed: {_src(f)}")
    lg_cmp, lg_n = _len_test(st[3], "non_empty", "LoggerCallFilter")
    # --- ExceptionReraiseFilter: exactly <count> non-blank stripped lines, `except ...:` then `raise ... from ...`
    c = find_class(m, "ExceptionReraiseFilter")
    f = find_func(c, "should_filter")
    st = _stmts(f)
    if len(st) != 4 or ast.unparse(st[0]) != SLICE or ast.unparse(st[1]) != STRIPPED.format(v="stripped_lines") \
            or not isinstance(st[2], ast.If) or [ast.unparse(x) for x in st[2].body] != ["return False"] \
            or ast.unparse(st[3]) != "return self._is_except_raise_pattern(stripped_lines)":
        raise Unsupported(f"ExceptionReraiseFilter.should_filter changed: {_src(f)}")
    rr_cmp, rr_n = _len_test(st[2], "stripped_lines", "ExceptionReraiseFilter")
    g = find_func(c, "_is_except_raise_pattern")
    st = _stmts(g)
    if len(st) != 4 or ast.unparse(st[0]) != "first, second = (lines[0], lines[1])" or ast.unparse(st[3]) != "return is_except and is_raise":
        raise Unsupported(f"_is_except_raise_pattern changed: {_src(g)}")
    lits = []
    for stmt, var, target, second in ((st[1], "first", "is_except", "endswith"), (st[2], "second", "is_raise", "in")):
        if not (isinstance(stmt, ast.Assign) and ast.unparse(stmt.targets[0]) == target and isinstance(stmt.value, ast.BoolOp)
                and isinstance(stmt.value.op, ast.And) and len(stmt.value.values) == 2):
            raise Unsupported(f"_is_except_raise_pattern: {ast.unparse(stmt)}")
        a, b = stmt.value.values
        lits.append(_method_call(a, var, "startswith", target))
        if second == "endswith":
            lits.append(_method_call(b, var, "endswith", target))
        else:
            if not (isinstance(b, ast.Compare) and len(b.ops) == 1 and isinstance(b.ops[0], ast.In) and ast.unparse(b.comparators[0]) == var):
                raise Unsupported(f"_is_except_raise_pattern: {ast.unparse(b)}")
            lits.append(_lit(b.left, target))
    # --- the registry: `any` over the registered filters, in registration order
    reg = find_class(m, "BlockFilterRegistry")
    if _src(find_func(reg, "should_filter_block")) != ["enabled_filters = (f for f in self._filters if f.name in self._enabled_filters)",
                                                       "return any((f.should_filter(block, file_content) for f in enabled_filters))"]:
        raise Unsupported("BlockFilterRegistry.should_filter_block changed")
    if _src(find_func(reg, "register")) != ["self._filters.append(filter_instance)", "self._enabled_filters.add(filter_instance.name)"]:
        raise Unsupported("BlockFilterRegistry.register changed")
    order = []
    for stmt in _stmts(find_func(m, "create_default_registry")):
        t = ast.unparse(stmt)
        mm = re.fullmatch(r"registry\.register\((\w+)\((.*)\)\)", t)
        if mm:
            cls = find_class(m, mm.group(1))
            nm = _src(find_func(cls, "name"))
            nmm = re.fullmatch(r"return '(\w+)'", nm[0]) if len(nm) == 1 else None
            if not nmm or (mm.group(2) and mm.group(1) != "KeywordArgumentFilter"):
                raise Unsupported(f"create_default_registry: {t}")
            order.append(nmm.group(1))
        elif t not in ("registry = BlockFilterRegistry()", "return registry"):
            raise Unsupported(f"create_default_registry: {t}")
    return (defn("flt_import_prefixes", "list string", coq_str_list(prefixes))
            + defn("flt_logger_self", "string", coq_string(pm.group("self") + "."))
            + defn("flt_logger_names", "list string", coq_str_list(names))
            + defn("flt_logger_methods", "list string", coq_str_list(meths))
            + defn("flt_logger_cmp", "cmp", lg_cmp) + defn("flt_logger_count", "nat", str(lg_n))
            + defn("flt_reraise_cmp", "cmp", rr_cmp) + defn("flt_reraise_count", "nat", str(rr_n))
            + defn("flt_reraise_lits", "list string", coq_str_list(lits))
            + defn("flt_registry", "list string", coq_str_list(order)))


ITEMS = [
    ("file_lines_sep", file_lines_sep),
    ("file_read_encoding", file_read_encoding),
    ("ignore_line_splitters", ignore_line_splitters),
    ("loc_line_seps", loc_line_seps),
    ("tokenize_line_seps", tokenize_line_seps),
    ("block_filter_line_seps", block_filter_line_seps),
    ("loc_strip_calls", loc_strip_calls),
    ("dry_block_window", dry_block_window),
    ("block_filters", block_filters),
]
