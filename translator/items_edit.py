"""Generated layer for property C13 (layout edits): the literals of the text-level steps that the theorems of
Proofs/Edit*.v are stated about and that are not already read by the generated layers of C03 / C04 / C16
(Gen/DryGen.v, Gen/IgnoreGen.v, Gen/SrpGen.v: comment markers, import filters, the header window, slice offsets,
comment prefixes, the TS span formula).  Fail-closed: an unexpected shape raises Unsupported.

  file_lines_sep        the separator of FileLintContext.file_lines            content.split("\\n")
  file_read_encoding    the codec FileLintContext.file_content decodes with    read_text(encoding="utf-8")  (keeps U+FEFF)
  ignore_line_splitters the method every line-splitting site of src/linter_config/ignore.py uses  (splitlines)
  loc_line_seps         the separators of heuristics.count_loc / RustSRPAnalyzer._node_loc
  tokenize_line_seps    the separators of token_hasher.tokenize and the two _tokenize_with_line_numbers
  block_filter_line_seps the separators of the four DRY block filters
  loc_strip_calls       count_loc strips each line with str.strip() (no argument) before testing it
  dry_block_window      `# dry: ignore-block` covers the next N lines (a documented position-sensitive directive; the
                        harness never inserts inside that window)
"""
import ast

from translator.lib import Unsupported, coq_str_list, coq_string, defn, find_class, find_func, parse

GEN_FILE = "EditGen"
HEADER = "From TL Require Import Lib.Base Lib.GenTypes."
SERVES = ["C13"]
FINGERPRINTS = [
    ("src/orchestrator/core.py", ["FileLintContext"]),
    ("src/linters/dry/token_hasher.py", ["tokenize", "normalize_line", "_strip_comments"]),
    ("src/linters/srp/heuristics.py", ["count_loc"]),
    ("src/linters/srp/rust_analyzer.py", ["_node_loc"]),
    ("src/linters/srp/typescript_metrics_calculator.py", ["count_loc"]),
    ("src/linters/dry/python_analyzer.py", ["_tokenize_with_line_numbers", "_normalize_and_filter_line"]),
    ("src/linters/dry/typescript_analyzer.py", ["_tokenize_with_line_numbers", "_normalize_and_filter_line"]),
    ("src/linters/dry/inline_ignore.py", ["InlineIgnoreParser"]),
    ("src/linter_config/ignore.py", ["_read_file_first_lines", "_has_file_ignore_in_content", "_is_ignored_in_content"]),
]


def _split_args(scope: ast.AST, method: str) -> list:
    """the argument lists of every `<x>.<method>(...)` call in scope"""
    out = []
    for n in ast.walk(scope):
        if isinstance(n, ast.Call) and isinstance(n.func, ast.Attribute) and n.func.attr == method:
            out.append(n)
    return out


def _one_sep(scope: ast.AST, what: str) -> str:
    calls = _split_args(scope, "split")
    seps = []
    for c in calls:
        if len(c.args) == 1 and not c.keywords and isinstance(c.args[0], ast.Constant) and isinstance(c.args[0].value, str):
            seps.append(c.args[0].value)
        elif not c.args and not c.keywords:
            continue        # str.split() on one line: white-space splitting, not line splitting
        else:
            raise Unsupported(f"{what}: unexpected split call {ast.unparse(c)}")
    if len(seps) != 1:
        raise Unsupported(f"{what}: {len(seps)} line-splitting calls")
    if _split_args(scope, "splitlines"):
        raise Unsupported(f"{what}: uses splitlines as well")
    return seps[0]


def file_lines_sep():
    c = find_class(parse("src/orchestrator/core.py"), "FileLintContext")
    return defn("file_lines_sep", "string", coq_string(_one_sep(find_func(c, "file_lines"), "file_lines")))


def file_read_encoding():
    c = find_class(parse("src/orchestrator/core.py"), "FileLintContext")
    f = find_func(c, "file_content")
    calls = _split_args(f, "read_text")
    if len(calls) != 1:
        raise Unsupported(f"file_content: {len(calls)} read_text calls")
    call = calls[0]
    kw = {k.arg: k.value for k in call.keywords}
    if call.args or set(kw) != {"encoding"} or not isinstance(kw["encoding"], ast.Constant) or not isinstance(kw["encoding"].value, str):
        raise Unsupported(f"file_content: unexpected call {ast.unparse(call)}")
    return defn("file_read_encoding", "string", coq_string(kw["encoding"].value))


def ignore_line_splitters():
    mod = parse("src/linter_config/ignore.py")
    names = []
    for fn in ("_read_file_first_lines", "_has_file_ignore_in_content", "_is_ignored_in_content"):
        f = find_func(mod, fn)
        sl = _split_args(f, "splitlines")
        sp = [c for c in _split_args(f, "split")]
        if len(sl) + len(sp) != 1:
            raise Unsupported(f"{fn}: {len(sl)} splitlines and {len(sp)} split calls")
        call = (sl + sp)[0]
        if call.args or call.keywords:
            names.append(ast.unparse(call.func).split(".")[-1] + "(" + ", ".join(ast.unparse(a) for a in call.args) + ")")
        else:
            names.append(call.func.attr)
    return defn("ignore_line_splitters", "list string", coq_str_list(names))


def loc_line_seps():
    py = _one_sep(find_func(parse("src/linters/srp/heuristics.py"), "count_loc"), "count_loc")
    rs = _one_sep(find_func(parse("src/linters/srp/rust_analyzer.py"), "_node_loc"), "_node_loc")
    return defn("loc_line_seps", "list string", coq_str_list([py, rs]))


def tokenize_line_seps():
    a = _one_sep(find_func(parse("src/linters/dry/token_hasher.py"), "tokenize"), "tokenize")
    b = _one_sep(find_func(find_class(parse("src/linters/dry/python_analyzer.py"), "PythonDuplicateAnalyzer"), "_tokenize_with_line_numbers"), "py tokenizer")
    c = _one_sep(find_func(find_class(parse("src/linters/dry/typescript_analyzer.py"), "TypeScriptDuplicateAnalyzer"), "_tokenize_with_line_numbers"), "ts tokenizer")
    return defn("tokenize_line_seps", "list string", coq_str_list([a, b, c]))


def block_filter_line_seps():
    mod = parse("src/linters/dry/block_filter.py")
    seps = []
    for cls in ("KeywordArgumentFilter", "ImportGroupFilter", "LoggerCallFilter", "ExceptionReraiseFilter"):
        seps.append(_one_sep(find_func(find_class(mod, cls), "should_filter"), cls))
    return defn("block_filter_line_seps", "list string", coq_str_list(seps))


def loc_strip_calls():
    """every .strip() in the two filtering count functions is the argument-less white-space strip"""
    out = []
    for rel, fn in (("src/linters/srp/heuristics.py", "count_loc"), ("src/linters/srp/rust_analyzer.py", "_node_loc")):
        f = find_func(parse(rel), fn)
        calls = _split_args(f, "strip")
        if not calls:
            raise Unsupported(f"{fn}: no strip call")
        for c in calls:
            if c.args or c.keywords:
                raise Unsupported(f"{fn}: strip with arguments")
        if _split_args(f, "lstrip") or _split_args(f, "rstrip"):
            raise Unsupported(f"{fn}: one-sided strip")
        out.append(fn)
    return defn("loc_strip_calls", "list string", coq_str_list(out))


def dry_block_window():
    c = find_class(parse("src/linters/dry/inline_ignore.py"), "InlineIgnoreParser")
    f = find_func(c, "_parse_ignore_directive")
    hits = []
    for n in ast.walk(f):
        if isinstance(n, ast.Call) and isinstance(n.func, ast.Name) and n.func.id == "min" and len(n.args) == 2:
            a = n.args[0]
            if isinstance(a, ast.BinOp) and isinstance(a.op, ast.Add) and isinstance(a.right, ast.Constant) and isinstance(a.right.value, int):
                hits.append(a.right.value)
    if len(hits) != 1:
        raise Unsupported(f"ignore-block window: {hits}")
    return defn("dry_block_window", "nat", str(hits[0]))


ITEMS = [
    ("file_lines_sep", file_lines_sep),
    ("file_read_encoding", file_read_encoding),
    ("ignore_line_splitters", ignore_line_splitters),
    ("loc_line_seps", loc_line_seps),
    ("tokenize_line_seps", tokenize_line_seps),
    ("block_filter_line_seps", block_filter_line_seps),
    ("loc_strip_calls", loc_strip_calls),
    ("dry_block_window", dry_block_window),
]
