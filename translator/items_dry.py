"""Generated layer for the DRY / duplicate-code linter (C03; also useful to C07/C08).

Every literal the C03 theorems depend on is read from /repo/src/linters/dry with `ast`:
tables, comment markers, the import-skipping state machine (translated expression by expression),
window arithmetic of both analyzers, the two SQL queries, the overlap predicates, the
min-occurrence test, the violation fields and the message format.  Fail-closed: an unexpected
shape raises Unsupported, the item is not emitted and every Coq file using it stops compiling.
"""
import ast
import re

from translator.lib import (CMP, Unsupported, coq_str_list, coq_string, const_value, defn, find_assign, find_class,
                            find_func, fstring_parts, parse, str_elems)

GEN_FILE = "DryGen"
HEADER = "From TL Require Import Lib.Base Lib.GenTypes Model.DryBase."
SERVES = ["C03"]
D = "src/linters/dry/"
FINGERPRINTS = [
    (D + "python_analyzer.py", ["analyze", "_filter_valid_blocks", "_create_block_if_valid", "_tokenize_with_line_numbers",
                                "_normalize_and_filter_line", "_rolling_hash_with_tracking", "_get_docstring_ranges_from_content"]),
    (D + "typescript_analyzer.py", ["analyze", "_build_blocks", "_tokenize_with_line_numbers", "_normalize_and_filter_line",
                                    "_rolling_hash_with_tracking", "_get_jsdoc_ranges_from_content"]),
    (D + "token_hasher.py", ["normalize_line", "should_skip_import_line", "_strip_comments"]),
    (D + "deduplicator.py", ["ViolationDeduplicator"]),
    (D + "violation_filter.py", ["ViolationFilter"]),
    (D + "violation_generator.py", ["generate_violations", "_collect_violations", "_meets_min_occurrences"]),
    (D + "violation_builder.py", ["DRYViolationBuilder"]),
    (D + "block_grouper.py", ["BlockGrouper"]),
    (D + "cache.py", ["add_blocks", "find_duplicates_by_hash"]),
    (D + "cache_query.py", ["CacheQueryService"]),
    (D + "linter.py", ["DRYRule"]),
    (D + "file_analyzer.py", ["FileAnalyzer"]),
    (D + "inline_ignore.py", ["InlineIgnoreParser"]),
    (D + "block_filter.py", ["KeywordArgumentFilter", "create_default_registry", "ImportGroupFilter", "LoggerCallFilter", "ExceptionReraiseFilter", "BlockFilterRegistry"]),
    (D + "violation_generator.py", ["_filter_ignored", "_is_ignored", "_filter_inline_ignored", "_filter_shared_ignored"]),
    ("src/linter_config/ignore.py", ["should_ignore_violation", "_is_ignored_in_content", "_check_block_ignore", "_process_block_line",
                                     "_check_prev_line_ignore", "_check_current_line_ignore", "_has_file_ignore_in_content"]),
    ("src/linter_config/directive_markers.py", ["has_ignore_directive_marker", "has_line_ignore_marker", "has_ignore_next_line_marker",
                                                "has_ignore_start_marker", "has_ignore_end_marker"]),
]


def _body(f):
    """function body without the docstring"""
    b = list(f.body)
    if b and isinstance(b[0], ast.Expr) and isinstance(b[0].value, ast.Constant) and isinstance(b[0].value.value, str):
        b = b[1:]
    return b


# ---------------------------------------------------------------- a tiny expression translator
class Env:
    """how names / attribute paths / calls of the source map to Coq terms"""

    def __init__(self, names=None, attrs=None, calls=None, str_var=None):
        self.names = dict(names or {})     # python name -> coq term
        self.attrs = dict(attrs or {})     # "obj.attr" -> coq term
        self.calls = dict(calls or {})     # python callee text -> coq function (applied to translated args)
        self.str_var = str_var             # the name of the string variable (for `in` tests)


def tr(e: ast.expr, env: Env) -> str:
    if isinstance(e, ast.BoolOp):
        op = " && " if isinstance(e.op, ast.And) else " || "
        return "(" + op.join(tr(v, env) for v in e.values) + ")"
    if isinstance(e, ast.UnaryOp) and isinstance(e.op, ast.Not):
        return f"(negb {tr(e.operand, env)})"
    if isinstance(e, ast.Constant) and isinstance(e.value, bool):
        return "true" if e.value else "false"
    if isinstance(e, ast.Constant) and isinstance(e.value, int) and e.value >= 0:
        return str(e.value)
    if isinstance(e, ast.Constant) and isinstance(e.value, str):
        return coq_string(e.value)
    if isinstance(e, ast.Name):
        if e.id in env.names:
            return env.names[e.id]
        raise Unsupported(f"unknown name {e.id}")
    if isinstance(e, ast.Attribute):
        k = ast.unparse(e)
        if k in env.attrs:
            return env.attrs[k]
        raise Unsupported(f"unknown attribute {k}")
    if isinstance(e, ast.BinOp) and isinstance(e.op, (ast.Add, ast.Sub)):
        return f"({tr(e.left, env)} {'+' if isinstance(e.op, ast.Add) else '-'} {tr(e.right, env)})"
    if isinstance(e, ast.Compare) and len(e.ops) == 1:
        op, l, r = e.ops[0], e.left, e.comparators[0]
        if isinstance(op, (ast.In, ast.NotIn)):
            if isinstance(l, ast.Constant) and isinstance(l.value, str):
                t = f"(str_contains {coq_string(l.value)} {tr(r, env)})"
            elif isinstance(r, ast.Name) and r.id in env.names:
                t = f"(smem {tr(l, env)} {env.names[r.id]})"
            else:
                raise Unsupported(f"unsupported membership test {ast.unparse(e)}")
            return t if isinstance(op, ast.In) else f"(negb {t})"
        k = ast.unparse(e)
        if k in env.attrs:          # e.g. `d.file_path != block.file_path` mapped as a whole
            return env.attrs[k]
        a, b = tr(l, env), tr(r, env)
        if type(op) not in CMP:
            raise Unsupported(f"comparison {ast.unparse(e)}")
        return {"CLe": f"({a} <=? {b})", "CLt": f"({a} <? {b})", "CGe": f"({b} <=? {a})", "CGt": f"({b} <? {a})",
                "CEq": f"({a} =? {b})", "CNe": f"(negb ({a} =? {b}))"}[CMP[type(op)]]
    if isinstance(e, ast.Call):
        k = ast.unparse(e.func)
        if k in env.calls and not e.keywords:
            return "(" + env.calls[k] + "".join(" " + tr(a, env) for a in e.args) + ")"
        raise Unsupported(f"unknown call {k}")
    if isinstance(e, ast.Tuple):
        return "(" + ", ".join(tr(x, env) for x in e.elts) + ")"
    raise Unsupported(f"unsupported expression {ast.unparse(e)[:60]}")


def tr_block(stmts, env: Env) -> str:
    """straight-line code: assignments (let), `if c: <block ending in return>`, return"""
    if not stmts:
        raise Unsupported("block without return")
    st, rest = stmts[0], stmts[1:]
    if isinstance(st, ast.Return) and st.value is not None:
        if rest:
            raise Unsupported("code after return")
        return tr(st.value, env)
    if isinstance(st, ast.Assign) and len(st.targets) == 1 and isinstance(st.targets[0], ast.Name):
        v = st.targets[0].id
        val = tr(st.value, env)
        env2 = Env(env.names, env.attrs, env.calls, env.str_var)
        env2.names[v] = f"v_{v}"
        return f"(let v_{v} := {val} in {tr_block(rest, env2)})"
    if isinstance(st, ast.If) and not st.orelse:
        return f"(if {tr(st.test, env)} then {tr_block(st.body, env)} else {tr_block(rest, env)})"
    raise Unsupported(f"unsupported statement {ast.unparse(st)[:60]}")


TH = D + "token_hasher.py"


def import_tables():
    m = parse(TH)
    toks = str_elems(find_assign(m, "_IMPORT_TOKENS"))
    pre = str_elems(find_assign(m, "_IMPORT_PREFIXES"))
    return defn("dry_import_tokens", "list string", coq_str_list(toks)) + defn("dry_import_prefixes", "list string", coq_str_list(pre))


def comment_markers():
    """_strip_comments: a sequence of `if "M" in line: line = line[: line.index("M")]`, then `return line`"""
    f = find_func(parse(TH), "_strip_comments")
    if [a.arg for a in f.args.args] != ["line"]:
        raise Unsupported("_strip_comments signature")
    marks = []
    body = _body(f)
    for st in body[:-1]:
        ok = (isinstance(st, ast.If) and not st.orelse and len(st.body) == 1 and isinstance(st.test, ast.Compare)
              and isinstance(st.test.ops[0], ast.In) and isinstance(st.test.left, ast.Constant)
              and ast.unparse(st.test.comparators[0]) == "line")
        if not ok:
            raise Unsupported(f"_strip_comments: unexpected statement {ast.unparse(st)[:60]}")
        mk = st.test.left.value
        if ast.unparse(st.body[0]) != f"line = line[:line.index({mk!r})]":
            raise Unsupported(f"_strip_comments: unexpected cut {ast.unparse(st.body[0])}")
        marks.append(mk)
    if ast.unparse(body[-1]) != "return line":
        raise Unsupported("_strip_comments: last statement")
    return defn("dry_comment_markers", "list string", coq_str_list(marks))


def normalize_shape():
    f = find_func(parse(TH), "normalize_line")
    body = [ast.unparse(s) for s in _body(f)]
    if body[:1] != ["line = _strip_comments(line)"] or len(body) != 2:
        raise Unsupported(f"normalize_line: {body}")
    m = re.fullmatch(r"return (.+)\.join\(line\.split\(\)\)", body[1])
    if not m:
        raise Unsupported(f"normalize_line: {body[1]}")
    return defn("dry_norm_sep", "string", coq_string(ast.literal_eval(m.group(1))))


def import_machine():
    m = parse(TH)
    out = ""
    f = find_func(m, "_is_import_statement")
    env = Env(names={"line": "line", "_IMPORT_TOKENS": "dry_import_tokens", "_IMPORT_PREFIXES": "dry_import_prefixes"},
              calls={"line.startswith": "str_starts_any line"})
    # line.startswith(_IMPORT_PREFIXES) -> (str_starts_any line dry_import_prefixes)
    out += f"Definition dry_is_import_statement (line : string) : bool := {tr_block(_body(f), env)}.\n"
    env.calls["_is_import_statement"] = "dry_is_import_statement"
    f = find_func(m, "_is_multiline_import_start")
    out += f"Definition dry_is_multiline_import_start (line : string) : bool := {tr_block(_body(f), env)}.\n"
    f = find_func(m, "_handle_multiline_import_continuation")
    out += f"Definition dry_handle_continuation (line : string) : bool * bool := {tr_block(_body(f), env)}.\n"
    env.calls["_is_multiline_import_start"] = "dry_is_multiline_import_start"
    env.calls["_handle_multiline_import_continuation"] = "dry_handle_continuation"
    env.names["in_multiline_import"] = "st"
    f = find_func(m, "should_skip_import_line")
    if [a.arg for a in f.args.args] != ["line", "in_multiline_import"]:
        raise Unsupported("should_skip_import_line signature")
    out += f"Definition dry_should_skip (line : string) (st : bool) : bool * bool := {tr_block(_body(f), env)}.\n"
    return out


def _analyzer_literals(rel, cls, tag):
    c = find_class(parse(rel), cls)
    # ---- _rolling_hash_with_tracking
    f = find_func(c, "_rolling_hash_with_tracking")
    body = _body(f)
    src = [ast.unparse(s) for s in body]
    guard = body[0]
    if not (isinstance(guard, ast.If) and ast.unparse(guard.body[0]) == "return []" and isinstance(guard.test, ast.Compare)
            and ast.unparse(guard.test.left) == "len(lines_with_numbers)" and ast.unparse(guard.test.comparators[0]) == "window_size"):
        raise Unsupported(f"{tag}: window guard {src[0][:80]}")
    guard_cmp = CMP[type(guard.test.ops[0])]
    loops = [s for s in body if isinstance(s, ast.For)]
    if len(loops) != 1:
        raise Unsupported(f"{tag}: rolling loop")
    loop = loops[0]
    m = re.fullmatch(r"range\(len\(lines_with_numbers\) - window_size(?: \+ (\d+))?\)", ast.unparse(loop.iter))
    if not m:
        raise Unsupported(f"{tag}: loop range {ast.unparse(loop.iter)}")
    off = int(m.group(1) or 0)
    lsrc = [ast.unparse(s) for s in loop.body]
    want = ["window = lines_with_numbers[i:i + window_size]", "code_lines = [code for _, code in window]"]
    if lsrc[:2] != want:
        raise Unsupported(f"{tag}: loop body {lsrc[:2]}")
    m = re.fullmatch(r"snippet = (.+)\.join\(code_lines\)", lsrc[2])
    if not m or lsrc[3] != "hash_val = hash(snippet)":
        raise Unsupported(f"{tag}: snippet/hash {lsrc[2:4]}")
    sep = ast.literal_eval(m.group(1))
    ms = re.fullmatch(r"start_line = window\[(-?\d+)\]\[0\]", lsrc[4])
    me = re.fullmatch(r"end_line = window\[(-?\d+)\]\[0\]", lsrc[5])
    if not ms or not me or lsrc[6] != "hashes.append((hash_val, start_line, end_line, snippet))" or len(lsrc) != 7:
        raise Unsupported(f"{tag}: start/end/append {lsrc[4:]}")

    def widx(txt):
        n = int(txt)
        return f"(WIdx {n})" if n >= 0 else f"(WFromEnd {-n - 1})"
    # ---- _tokenize_with_line_numbers: enumerate(content.split("\n"), start=1), `if line_num not in <doc lines>`
    f = find_func(c, "_tokenize_with_line_numbers")
    enum = [n for n in ast.walk(f) if isinstance(n, ast.Call) and isinstance(n.func, ast.Name) and n.func.id == "enumerate"]
    if len(enum) != 1 or len(enum[0].args) != 1 or [k.arg for k in enum[0].keywords] != ["start"]:
        raise Unsupported(f"{tag}: enumerate")
    msp = re.fullmatch(r"content\.split\((.+)\)", ast.unparse(enum[0].args[0]))
    if not msp:
        raise Unsupported(f"{tag}: split")
    line_sep = ast.literal_eval(msp.group(1))
    start = const_value(enum[0].keywords[0].value)
    gens = [n for n in ast.walk(f) if isinstance(n, ast.GeneratorExp)]
    if len(gens) != 1 or len(gens[0].generators[0].ifs) != 1 or not re.fullmatch(r"line_num not in \w+", ast.unparse(gens[0].generators[0].ifs[0])):
        raise Unsupported(f"{tag}: docstring line filter")
    loops = [s for s in _body(f) if isinstance(s, ast.For)]
    if len(loops) != 1 or [ast.unparse(s) for s in loops[0].body] != [
            "in_multiline_import, normalized = self._normalize_and_filter_line(line, in_multiline_import)",
            "if normalized is not None:\n    lines_with_numbers.append((line_num, normalized))"]:
        raise Unsupported(f"{tag}: tokenize loop")
    # ---- _normalize_and_filter_line
    f = find_func(c, "_normalize_and_filter_line")
    want = ["normalized = token_hasher.normalize_line(line)",
            "if not normalized:\n    return (in_multiline_import, None)",
            "new_state, should_skip = token_hasher.should_skip_import_line(normalized, in_multiline_import)",
            "if should_skip:\n    return (new_state, None)",
            "return (new_state, normalized)"]
    if [ast.unparse(s) for s in _body(f)] != want:
        raise Unsupported(f"{tag}: _normalize_and_filter_line changed")
    return (defn(f"dry_{tag}_guard_cmp", "cmp", guard_cmp) + defn(f"dry_{tag}_window_off", "nat", str(off))
            + defn(f"dry_{tag}_snippet_sep", "string", coq_string(sep)) + defn(f"dry_{tag}_win_start", "winidx", widx(ms.group(1)))
            + defn(f"dry_{tag}_win_end", "winidx", widx(me.group(1))) + defn(f"dry_{tag}_line_sep", "string", coq_string(line_sep))
            + defn(f"dry_{tag}_first_line", "nat", str(start)))


def py_analyzer():
    return _analyzer_literals(D + "python_analyzer.py", "PythonDuplicateAnalyzer", "py")


def ts_analyzer():
    return _analyzer_literals(D + "typescript_analyzer.py", "TypeScriptDuplicateAnalyzer", "ts")


def analyzer_dispatch():
    """FileAnalyzer.analyze: python -> python analyzer; typescript, javascript -> typescript analyzer"""
    f = find_func(find_class(parse(D + "file_analyzer.py"), "FileAnalyzer"), "analyze")
    src = [ast.unparse(s) for s in _body(f)]
    want = ["if language == Language.PYTHON:\n    return self._python_analyzer.analyze(file_path, content, config)",
            "if language in (Language.TYPESCRIPT, Language.JAVASCRIPT):\n    return self._typescript_analyzer.analyze(file_path, content, config)",
            "return []"]
    if src != want:
        raise Unsupported("FileAnalyzer.analyze changed")
    return defn("dry_languages", "list string", coq_str_list(["python", "typescript", "javascript"]))


def sql_queries():
    c = find_class(parse(D + "cache_query.py"), "CacheQueryService")

    def sql_of(fn):
        f = find_func(c, fn)
        hits = [n for n in ast.walk(f) if isinstance(n, ast.Call) and ast.unparse(n.func) == "db.execute"]
        if len(hits) != 1 or not isinstance(hits[0].args[0], ast.Constant):
            raise Unsupported(f"{fn}: db.execute")
        return " ".join(hits[0].args[0].value.split())
    q1 = sql_of("get_duplicate_hashes")
    m = re.fullmatch(r"SELECT hash_value FROM code_blocks GROUP BY hash_value HAVING COUNT\(\*\) (>=|>|=|<=|<|!=|<>) (\d+)", q1)
    if not m:
        raise Unsupported(f"get_duplicate_hashes SQL: {q1}")
    op = {">=": "CGe", ">": "CGt", "=": "CEq", "<=": "CLe", "<": "CLt", "!=": "CNe", "<>": "CNe"}[m.group(1)]
    q2 = sql_of("find_blocks_by_hash")
    m2 = re.fullmatch(r"SELECT file_path, start_line, end_line, snippet, hash_value FROM code_blocks WHERE hash_value = \? ORDER BY (.+)", q2)
    if not m2:
        raise Unsupported(f"find_blocks_by_hash SQL: {q2}")
    order = [x.strip() for x in m2.group(1).split(",")]
    # the insert in cache.add_blocks must store the five fields unchanged
    f = find_func(find_class(parse(D + "cache.py"), "DRYCache"), "add_blocks")
    ins = [n for n in ast.walk(f) if isinstance(n, ast.Call) and ast.unparse(n.func) == "self.db.execute" and isinstance(n.args[0], ast.Constant)
           and "code_blocks" in n.args[0].value]
    if len(ins) != 1 or " ".join(ins[0].args[0].value.split()) != "INSERT INTO code_blocks (file_path, hash_value, start_line, end_line, snippet) VALUES (?, ?, ?, ?, ?)" \
            or ast.unparse(ins[0].args[1]) != "(str(file_path), block.hash_value, block.start_line, block.end_line, block.snippet)":
        raise Unsupported("cache.add_blocks insert changed")
    f = find_func(find_class(parse(D + "cache.py"), "DRYCache"), "find_duplicates_by_hash")
    if "CodeBlock(file_path=Path(file_path_str), start_line=start, end_line=end, snippet=snippet, hash_value=hash_val)" not in ast.unparse(f) \
            or "for file_path_str, start, end, snippet, hash_val in rows" not in ast.unparse(f):
        raise Unsupported("cache.find_duplicates_by_hash changed")
    return (defn("dry_dup_cmp", "cmp", op) + defn("dry_dup_min", "nat", m.group(2))
            + defn("dry_order_by", "list string", coq_str_list(order)))


def blocks_overlap():
    c = find_class(parse(D + "deduplicator.py"), "ViolationDeduplicator")
    f = find_func(c, "_blocks_overlap")
    if [a.arg for a in f.args.args] != ["self", "block1", "block2"]:
        raise Unsupported("_blocks_overlap signature")
    env = Env(attrs={"block1.start_line": "s1", "block1.end_line": "e1", "block2.start_line": "s2", "block2.end_line": "e2"})
    out = f"Definition dry_blocks_overlap (s1 e1 s2 e2 : nat) : bool := {tr_block(_body(f), env)}.\n"
    # the greedy loop and its sort key
    f = find_func(c, "_remove_overlaps_from_file")
    want = ["sorted_blocks = sorted(file_blocks, key=lambda b: b.start_line)", "kept_blocks: list[CodeBlock] = []",
            "for block in sorted_blocks:\n    if not self._overlaps_any_kept(block, kept_blocks):\n        kept_blocks.append(block)",
            "return kept_blocks"]
    if [ast.unparse(s) for s in _body(f)] != want:
        raise Unsupported("_remove_overlaps_from_file changed")
    f = find_func(c, "_overlaps_any_kept")
    if [ast.unparse(s) for s in _body(f)] != ["return any((self._blocks_overlap(block, kept) for kept in kept_blocks))"]:
        raise Unsupported("_overlaps_any_kept changed")
    f = find_func(c, "deduplicate_blocks")
    want = ["if not blocks:\n    return []", "grouped = self._grouper.group_blocks_by_file(blocks)", "deduplicated = []",
            "for file_blocks in grouped.values():\n    kept = self._remove_overlaps_from_file(file_blocks)\n    deduplicated.extend(kept)",
            "return deduplicated"]
    if [ast.unparse(s) for s in _body(f)] != want:
        raise Unsupported("deduplicate_blocks changed")
    f = find_func(c, "deduplicate_violations")
    want = ["if not violations:\n    return []", "grouped = self._grouper.group_violations_by_file(violations)", "deduplicated = []",
            "for file_violations in grouped.values():\n    sorted_violations = sorted(file_violations, key=lambda v: v.line or 0)\n"
            "    kept = self._filter.filter_overlapping(sorted_violations)\n    deduplicated.extend(kept)", "return deduplicated"]
    if [ast.unparse(s) for s in _body(f)] != want:
        raise Unsupported("deduplicate_violations changed")
    return out + defn("dry_block_sort_key", "string", coq_string("start_line")) + defn("dry_viol_sort_key", "string", coq_string("line"))


def viol_overlap():
    c = find_class(parse(D + "violation_filter.py"), "ViolationFilter")
    f = find_func(c, "_overlaps")
    if [a.arg for a in f.args.args] != ["self", "v1", "v2"]:
        raise Unsupported("_overlaps signature")
    env = Env(attrs={"v1.line": "line1", "v2.line": "line2"})
    body = _body(f)
    # `x = v.line or 0` and `line_count = self._extract_line_count(vN.message)` are rewritten to plain names
    stmts = []
    for st in body:
        s = ast.unparse(st)
        m = re.fullmatch(r"(\w+) = (v[12])\.line or 0", s)
        if m:
            env.names[m.group(1)] = {"v1": "line1", "v2": "line2"}[m.group(2)]
            continue
        m = re.fullmatch(r"(\w+) = self\._extract_line_count\((v[12])\.message\)", s)
        if m:
            env.names[m.group(1)] = {"v1": "count1", "v2": "count2"}[m.group(2)]
            continue
        stmts.append(st)
    out = f"Definition dry_viol_overlap (line1 line2 count1 count2 : nat) : bool := {tr_block(stmts, env)}.\n"
    f = find_func(c, "filter_overlapping")
    want = ["kept: list[Violation] = []",
            "for violation in sorted_violations:\n    if not self._overlaps_any(violation, kept):\n        kept.append(violation)", "return kept"]
    if [ast.unparse(s) for s in _body(f)] != want:
        raise Unsupported("filter_overlapping changed")
    f = find_func(c, "_overlaps_any")
    if [ast.unparse(s) for s in _body(f)] != ["return any((self._overlaps(violation, kept) for kept in kept_violations))"]:
        raise Unsupported("_overlaps_any changed")
    return out


def _extract_shape(rel, cls):
    f = find_func(find_class(parse(rel), cls), "_extract_line_count")
    body = _body(f)
    if len(body) != 1 or not isinstance(body[0], ast.Try):
        raise Unsupported("_extract_line_count: shape")
    src = [ast.unparse(s) for s in body[0].body]
    m1 = re.fullmatch(r"start = message\.index\((.+)\) \+ (\d+)", src[0])
    m2 = re.fullmatch(r"end = message\.index\((.+)\)", src[1])
    if not m1 or not m2 or src[2:] != ["return int(message[start:end])"]:
        raise Unsupported(f"_extract_line_count: {src}")
    return ast.literal_eval(m1.group(1)), int(m1.group(2)), ast.literal_eval(m2.group(1))


def extract_line_count():
    a = _extract_shape(D + "violation_filter.py", "ViolationFilter")
    b = _extract_shape(D + "violation_generator.py", "ViolationGenerator")
    if a != b:
        raise Unsupported(f"the two _extract_line_count differ: {a} vs {b}")
    return (defn("dry_count_open", "string", coq_string(a[0])) + defn("dry_count_open_off", "nat", str(a[1]))
            + defn("dry_count_close", "string", coq_string(a[2])))


def meets_min():
    c = find_class(parse(D + "violation_generator.py"), "ViolationGenerator")
    f = find_func(c, "_meets_min_occurrences")
    stmts = []
    for st in _body(f):
        s = ast.unparse(st)
        if s in ("first_block = blocks[0]", "language = detect_language(first_block.file_path)",
                 "min_occurrences = config.get_min_occurrences_for_language(language)"):
            continue
        stmts.append(st)
    env = Env(names={"min_occurrences": "k"}, calls={}, attrs={})
    env.calls["len"] = "dry_id_nat"
    env.names["blocks"] = "n"
    out = f"Definition dry_meets (n k : nat) : bool := {tr_block(stmts, env)}.\n"
    f = find_func(c, "_collect_violations")
    want = ["violations = []",
            "for hash_value in storage.duplicate_hashes:\n    blocks = storage.get_blocks_for_hash(hash_value)\n"
            "    dedup_blocks = self._deduplicator.deduplicate_blocks(blocks)\n    if not self._meets_min_occurrences(dedup_blocks, config):\n        continue\n"
            "    for block in dedup_blocks:\n        violation = self._violation_builder.build_violation(block, dedup_blocks, rule_id)\n        violations.append(violation)",
            "return violations"]
    if [ast.unparse(s) for s in _body(f)] != want:
        raise Unsupported("_collect_violations changed")
    f = find_func(c, "generate_violations")
    src = [ast.unparse(s) for s in _body(f)]
    if src[:2] != ["raw_violations = self._collect_violations(storage, rule_id, config)",
                   "deduplicated = self._deduplicator.deduplicate_violations(raw_violations)"]:
        raise Unsupported("generate_violations changed")
    # per-language override falls back to the global value
    cf = find_func(find_class(parse(D + "config.py"), "DRYConfig"), "get_min_occurrences_for_language")
    if ast.unparse(_body(cf)[-1]) != "return override if override is not None else self.min_occurrences":
        raise Unsupported("get_min_occurrences_for_language changed")
    return out


def violation_fields():
    c = find_class(parse(D + "violation_builder.py"), "DRYViolationBuilder")
    f = find_func(c, "build_violation")
    src = [ast.unparse(s) for s in _body(f)]
    env = Env(attrs={"block.end_line": "e", "block.start_line": "s"})
    m = None
    for st in _body(f):
        if isinstance(st, ast.Assign) and ast.unparse(st.targets[0]) == "line_count":
            m = tr(st.value, env)
    if m is None or "occurrence_count = len(all_duplicates)" not in src \
            or "location_refs = self._get_location_refs(block, all_duplicates)" not in src \
            or "message = self._build_message(line_count, occurrence_count, location_refs)" not in src:
        raise Unsupported("build_violation changed")
    ret = _body(f)[-1]
    if not (isinstance(ret, ast.Return) and isinstance(ret.value, ast.Call)):
        raise Unsupported("build_violation return")
    kw = {k.arg: ast.unparse(k.value) for k in ret.value.keywords}
    if kw.get("message") != "message" or kw.get("file_path") != "str(block.file_path)" or kw.get("line") != "block.start_line" or kw.get("rule_id") != "rule_id":
        raise Unsupported(f"build_violation fields {kw}")
    col = int(kw.get("column", "x")) if kw.get("column", "").isdigit() else None
    if col is None:
        raise Unsupported("build_violation column")
    out = f"Definition dry_line_count (s e : nat) : nat := {m}.\n" + defn("dry_column", "nat", str(col))
    # other locations
    f = find_func(c, "_get_location_refs")
    comps = [n for n in ast.walk(f) if isinstance(n, ast.ListComp)]
    if len(comps) != 2:
        raise Unsupported("_get_location_refs: comprehensions")
    flt = [x for x in comps if ast.unparse(x.elt) == "d"]
    fmt = [x for x in comps if isinstance(x.elt, ast.JoinedStr)]
    if len(flt) != 1 or len(fmt) != 1 or ast.unparse(flt[0].generators[0].iter) != "all_duplicates" or len(flt[0].generators[0].ifs) != 1 \
            or ast.unparse(fmt[0].generators[0].iter) != "other_blocks" or fmt[0].generators[0].ifs:
        raise Unsupported("_get_location_refs changed")
    env = Env(attrs={"d.file_path != block.file_path": "(negb same_file)", "d.file_path == block.file_path": "same_file",
                     "d.start_line": "ds", "block.start_line": "bs", "d.end_line": "de", "block.end_line": "be"})
    out += f"Definition dry_is_other (same_file : bool) (ds de bs be : nat) : bool := {tr(flt[0].generators[0].ifs[0], env)}.\n"
    parts = []
    for kind, v in fstring_parts(fmt[0].elt):
        parts.append({"lit": lambda: f"RLit {coq_string(v)}", "var": lambda: {"loc.file_path": "RPath", "loc.start_line": "RStart", "loc.end_line": "REnd"}.get(v)}[kind]())
        if parts[-1] is None:
            raise Unsupported(f"location format variable {v}")
    out += defn("dry_ref_format", "list refpart", "[" + "; ".join(parts) + "]")
    # message
    f = find_func(c, "_build_message")
    body = _body(f)
    if len(body) != 3 or not isinstance(body[0], ast.Assign) or ast.unparse(body[0].targets[0]) != "message" or ast.unparse(body[2]) != "return message" \
            or not isinstance(body[1], ast.If) or ast.unparse(body[1].test) != "locations" or len(body[1].body) != 1 or not isinstance(body[1].body[0], ast.AugAssign):
        raise Unsupported("_build_message changed")

    def mparts(e):
        res = []
        for kind, v in fstring_parts(e):
            if kind == "lit":
                res.append(f"DLit {coq_string(v)}")
            elif v == "line_count":
                res.append("DLines")
            elif v == "occurrence_count":
                res.append("DOcc")
            else:
                mm = re.fullmatch(r"(.+)\.join\(locations\)", v)
                if not mm:
                    raise Unsupported(f"message variable {v}")
                res.append(f"DLocs {coq_string(ast.literal_eval(mm.group(1)))}")
        return "[" + "; ".join(res) + "]"
    out += defn("dry_msg_head", "list dmsgpart", mparts(body[0].value)) + defn("dry_msg_locs", "list dmsgpart", mparts(body[1].body[0].value))
    return out


def rule_identity():
    c = find_class(parse(D + "linter.py"), "DRYRule")
    f = find_func(c, "rule_id")
    rid = const_value(_body(f)[0].value)
    f = find_func(c, "finalize")
    if "self._helpers.violation_generator.generate_violations(self._storage, self.rule_id, self._config, ignore_ctx)" not in ast.unparse(f):
        raise Unsupported("DRYRule.finalize changed")
    f = find_func(c, "_analyze_and_store")
    if "blocks = self._active_file_analyzer.analyze(context.file_path, context.file_content, context.language, config)" not in ast.unparse(f) \
            or "self._active_storage.add_blocks(context.file_path, blocks)" not in ast.unparse(f):
        raise Unsupported("DRYRule._analyze_and_store changed")
    return defn("dry_rule_id", "string", coq_string(rid))


def config_keys():
    m = parse(D + "config.py")
    f = find_func(find_class(m, "DRYConfig"), "from_dict")
    ret = _body(f)[-1]
    kw = {k.arg: ast.unparse(k.value) for k in ret.value.keywords}
    want = {"enabled": "config.get('enabled', False)", "min_duplicate_lines": "config.get('min_duplicate_lines', DEFAULT_MIN_DUPLICATE_LINES)",
            "min_occurrences": "config.get('min_occurrences', 2)", "storage_mode": "config.get('storage_mode', 'memory')",
            "ignore_patterns": "config.get('ignore', [])"}
    for k, v in want.items():
        if kw.get(k) != v:
            raise Unsupported(f"DRYConfig.from_dict {k}: {kw.get(k)}")
    d = const_value(find_assign(m, "DEFAULT_MIN_DUPLICATE_LINES"))
    lc = find_func(find_class(parse(D + "config_loader.py"), "ConfigLoader"), "load_config")
    if "metadata.get('dry', {})" not in ast.unparse(lc):
        raise Unsupported("ConfigLoader.load_config key")
    return (defn("dry_config_keys", "list string", coq_str_list(["dry", "enabled", "min_duplicate_lines", "min_occurrences", "storage_mode"]))
            + defn("dry_default_min_lines", "nat", str(d)) + defn("dry_default_min_occurrences", "nat", "2"))


def suppression():
    """inline_ignore.py ranges, the range-overlap test, the end line used by _filter_inline_ignored, the dry.ignore
    substring test, the three filters of generate_violations and HEADER_SCAN_LINES"""
    c = find_class(parse(D + "inline_ignore.py"), "InlineIgnoreParser")
    f = find_func(c, "_parse_ignore_directive")
    src = [ast.unparse(x) for x in _body(f)]
    m1 = re.fullmatch(r"if re\.search\('#\\\\s\*dry:\\\\s\*ignore-block', line\):\n    start = line_num \+ (\d+)\n    end = min\(line_num \+ (\d+), total_lines\)\n    return \(start, end\)", src[0])
    m2 = re.fullmatch(r"if re\.search\('#\\\\s\*dry:\\\\s\*ignore-next', line\):\n    return \(line_num \+ (\d+), line_num \+ (\d+)\)", src[1])
    if not m1 or not m2 or m2.group(1) != m2.group(2) or src[2:] != ["return None"]:
        raise Unsupported(f"_parse_ignore_directive changed: {src}")
    f = find_func(c, "_extract_ignore_ranges")
    if "for i, line in enumerate(lines, start=1) if (ignore_range := self._parse_ignore_directive(line, i, len(lines)))" not in ast.unparse(f):
        raise Unsupported("_extract_ignore_ranges changed")
    f = find_func(c, "parse_file")
    if [ast.unparse(x) for x in _body(f)][:2] != ["lines = content.split('\\n')", "ranges = self._extract_ignore_ranges(lines)"]:
        raise Unsupported("InlineIgnoreParser.parse_file changed")
    f = find_func(c, "_check_range_overlap")
    ret = _body(f)[0]
    g = ret.value.args[0] if isinstance(ret, ast.Return) and isinstance(ret.value, ast.Call) and ast.unparse(ret.value.func) == "any" else None
    if not isinstance(g, ast.GeneratorExp) or ast.unparse(g.generators[0].target) != "(ign_start, ign_end)" or ast.unparse(g.generators[0].iter) != "ranges":
        raise Unsupported("_check_range_overlap changed")
    env = Env(names={"line": "line", "end_line": "end_line", "ign_start": "ign_start", "ign_end": "ign_end"})
    out = f"Definition dry_range_overlap (line end_line ign_start ign_end : nat) : bool := {tr(g.elt, env)}.\n"
    f = find_func(c, "should_ignore")
    if "return self._check_range_overlap(line, end_line, ranges)" not in ast.unparse(f):
        raise Unsupported("InlineIgnoreParser.should_ignore changed")
    vg = find_class(parse(D + "violation_generator.py"), "ViolationGenerator")
    f = find_func(vg, "_filter_inline_ignored")
    u = ast.unparse(f)
    m3 = re.search(r"end_line = (.+)\n", u)
    if not m3 or "start_line = violation.line or 0" not in u or "line_count = self._extract_line_count(violation.message)" not in u \
            or "if not inline_ignore.should_ignore(violation.file_path, start_line, end_line):" not in u:
        raise Unsupported("_filter_inline_ignored changed")
    env = Env(names={"start_line": "start", "line_count": "count"})
    out += f"Definition dry_inline_end (start count : nat) : nat := {tr(ast.parse(m3.group(1), mode='eval').body, env)}.\n"
    f = find_func(vg, "_is_ignored")
    if [ast.unparse(x) for x in _body(f)] != ["path_str = str(Path(file_path))", "return any((pattern in path_str for pattern in ignore_patterns))"]:
        raise Unsupported("_is_ignored changed")
    f = find_func(vg, "generate_violations")
    want = ["raw_violations = self._collect_violations(storage, rule_id, config)",
            "deduplicated = self._deduplicator.deduplicate_violations(raw_violations)",
            "pattern_filtered = self._filter_ignored(deduplicated, config.ignore_patterns)",
            "inline_filtered = self._filter_inline_ignored(pattern_filtered, ignore_ctx.inline_ignore)",
            "if ignore_ctx.shared_parser and ignore_ctx.file_contents:\n    return self._filter_shared_ignored(inline_filtered, ignore_ctx.shared_parser, ignore_ctx.file_contents)",
            "return inline_filtered"]
    if [ast.unparse(x) for x in _body(f)] != want:
        raise Unsupported("generate_violations changed")
    hs = const_value(find_assign(parse("src/core/constants.py"), "HEADER_SCAN_LINES"))
    return (out + defn("dry_ignore_block_off", "nat", m1.group(1)) + defn("dry_ignore_block_len", "nat", m1.group(2))
            + defn("dry_ignore_next_off", "nat", m2.group(1)) + defn("dry_header_scan_lines", "nat", str(hs))
            + defn("dry_ignore_block_re", "string", coq_string(r"#\s*dry:\s*ignore-block")) + defn("dry_ignore_next_re", "string", coq_string(r"#\s*dry:\s*ignore-next")))


def kwarg_filter():
    """KeywordArgumentFilter: threshold (as a fraction), the pattern text the hand matcher was written for, the ratio
    comparison, the multi-line containment test"""
    from fractions import Fraction
    m = parse(D + "block_filter.py")
    thr = const_value(find_assign(m, "DEFAULT_KEYWORD_ARG_THRESHOLD"))
    fr = Fraction(str(thr))
    if not 0 < fr <= 1:
        raise Unsupported(f"threshold {thr}")
    c = find_class(m, "KeywordArgumentFilter")
    init = find_func(c, "__init__")
    if [ast.unparse(d) for d in init.args.defaults] != ["DEFAULT_KEYWORD_ARG_THRESHOLD"] or "self.threshold = threshold" not in ast.unparse(init):
        raise Unsupported("KeywordArgumentFilter.__init__ changed")
    pats = [n for n in ast.walk(init) if isinstance(n, ast.Call) and ast.unparse(n.func) == "re.compile"]
    if len(pats) != 1 or not isinstance(pats[0].args[0], ast.Constant) or len(pats[0].args) != 1:
        raise Unsupported("kwarg pattern")
    pat = pats[0].args[0].value
    if pat != "^\\s*\\w+\\s*=\\s*.+,?\\s*$":
        raise Unsupported(f"kwarg pattern changed: {pat!r} (Model/DryFilter.v kwarg_line was written for the old one)")
    f = find_func(c, "should_filter")
    body = _body(f)
    src = [ast.unparse(x) for x in body]
    want = ["lines = file_content.split('\\n')[block.start_line - 1:block.end_line]", "if not lines:\n    return False",
            "kwarg_lines = sum((1 for line in lines if self._kwarg_pattern.match(line)))", "ratio = kwarg_lines / len(lines)"]
    if src[:4] != want or len(src) != 6 or src[5] != "return False" or not isinstance(body[4], ast.If) \
            or ast.unparse(body[4].body[0]) != "return self._is_inside_function_call(block, file_content)" \
            or ast.unparse(body[4].test.left) != "ratio" or ast.unparse(body[4].test.comparators[0]) != "self.threshold":
        raise Unsupported(f"KeywordArgumentFilter.should_filter changed: {src}")
    op = CMP[type(body[4].test.ops[0])]
    f = find_func(c, "_is_inside_function_call")
    if "return any((isinstance(node, ast.Call) and self._check_multiline_containment(node, block) for node in ast.walk(tree)))" not in ast.unparse(f):
        raise Unsupported("_is_inside_function_call changed")
    f = find_func(c, "_check_multiline_containment")
    stmts = [x for x in _body(f) if ast.unparse(x) != "if not KeywordArgumentFilter._has_valid_line_info(node):\n    return False"]
    env = Env(attrs={"node.lineno": "a", "node.end_lineno": "b", "block.start_line": "s", "block.end_line": "e"})
    out = f"Definition dry_call_contains (a b s e : nat) : bool := {tr_block(stmts, env)}.\n"
    reg = find_func(m, "create_default_registry")
    if "registry.register(KeywordArgumentFilter(threshold=DEFAULT_KEYWORD_ARG_THRESHOLD))" not in ast.unparse(reg):
        raise Unsupported("create_default_registry changed")
    return (out + defn("dry_kwarg_cmp", "cmp", op) + defn("dry_kwarg_num", "nat", str(fr.numerator)) + defn("dry_kwarg_den", "nat", str(fr.denominator))
            + defn("dry_kwarg_pattern", "string", coq_string(pat)))


def _name_of(cls):
    """the string a filter class returns from its `name` property"""
    f = find_func(cls, "name")
    b = _body(f)
    if len(b) != 1 or not isinstance(b[0], ast.Return) or not isinstance(b[0].value, ast.Constant) or not isinstance(b[0].value.value, str):
        raise Unsupported(f"{cls.name}.name changed")
    return b[0].value.value


SLICE = "lines = file_content.split('\\n')[block.start_line - 1:block.end_line]"


def text_filters():
    """the three text-only block filters of block_filter.py (ImportGroupFilter, LoggerCallFilter, ExceptionReraiseFilter),
    the registry (order of registration, `any` over the enabled filters) and how dry.filters switches filters on and off"""
    m = parse(D + "block_filter.py")
    # ---- ImportGroupFilter.should_filter
    c = find_class(m, "ImportGroupFilter")
    b = _body(find_func(c, "should_filter"))
    src = [ast.unparse(x) for x in b]
    if len(b) != 3 or src[0] != SLICE or src[2] != "return True" or not isinstance(b[1], ast.For) or ast.unparse(b[1].target) != "line" \
            or ast.unparse(b[1].iter) != "lines" or b[1].orelse:
        raise Unsupported(f"ImportGroupFilter.should_filter changed: {src}")
    lb = b[1].body
    if len(lb) != 3 or ast.unparse(lb[0]) != "stripped = line.strip()" or ast.unparse(lb[1]) != "if not stripped:\n    continue" \
            or not isinstance(lb[2], ast.If) or lb[2].orelse or [ast.unparse(x) for x in lb[2].body] != ["return False"]:
        raise Unsupported(f"ImportGroupFilter loop changed: {[ast.unparse(x) for x in lb]}")
    env = Env(names={"stripped": "stripped"}, calls={"stripped.startswith": "str_starts stripped"})
    out = f"Definition dry_import_line_rejected (stripped : string) : bool := {tr(lb[2].test, env)}.\n"
    # ---- LoggerCallFilter
    c = find_class(m, "LoggerCallFilter")
    init = find_func(c, "__init__")
    pats = [n for n in ast.walk(init) if isinstance(n, ast.Call) and ast.unparse(n.func) == "re.compile"]
    if len(pats) != 1 or len(pats[0].args) != 1 or pats[0].keywords or not isinstance(pats[0].args[0], ast.Constant) \
            or "self._logger_pattern = re.compile(" not in ast.unparse(init):
        raise Unsupported("LoggerCallFilter.__init__ changed")
    pat = pats[0].args[0].value
    word = r"[A-Za-z_][A-Za-z0-9_]*"
    mm = re.fullmatch(r"\^\\s\*\((" + word + r")\\\.\)\?\((" + word + r"(?:\|" + word + r")*)\)\\\.\((" + word + r"(?:\|" + word + r")*)\)\\s\*\\\(", pat)
    if not mm:
        raise Unsupported(f"logger pattern has a new structure: {pat!r} (Model/DryFilter.v logger_line_gen was written for "
                          r"^\s*(self\.)?(a|b)\.(m|n)\s*\( )")
    b = _body(find_func(c, "should_filter"))
    src = [ast.unparse(x) for x in b]
    want = [SLICE, "non_empty = [s for line in lines if (s := line.strip())]", "if not non_empty:\n    return False", None, "return False"]
    if len(b) != 5 or any(w is not None and w != x for w, x in zip(want, src)) or not isinstance(b[3], ast.If) or b[3].orelse \
            or [ast.unparse(x) for x in b[3].body] != ["return bool(self._logger_pattern.match(non_empty[0]))"]:
        raise Unsupported(f"LoggerCallFilter.should_filter changed: {src}")
    env = Env(names={"non_empty": "n"}, calls={"len": "dry_id_nat"})
    out += f"Definition dry_logger_single (n : nat) : bool := {tr(b[3].test, env)}.\n"
    out += (defn("dry_logger_pattern", "string", coq_string(pat)) + defn("dry_logger_self", "string", coq_string(mm.group(1) + "."))
            + defn("dry_logger_objs", "list string", coq_str_list(mm.group(2).split("|")))
            + defn("dry_logger_meths", "list string", coq_str_list(mm.group(3).split("|"))))
    # ---- ExceptionReraiseFilter
    c = find_class(m, "ExceptionReraiseFilter")
    b = _body(find_func(c, "should_filter"))
    src = [ast.unparse(x) for x in b]
    if len(b) != 4 or src[0] != SLICE or src[1] != "stripped_lines = [s for line in lines if (s := line.strip())]" \
            or not isinstance(b[2], ast.If) or b[2].orelse or [ast.unparse(x) for x in b[2].body] != ["return False"] \
            or src[3] != "return self._is_except_raise_pattern(stripped_lines)":
        raise Unsupported(f"ExceptionReraiseFilter.should_filter changed: {src}")
    env = Env(names={"stripped_lines": "n"}, calls={"len": "dry_id_nat"})
    out += f"Definition dry_reraise_len_bad (n : nat) : bool := {tr(b[2].test, env)}.\n"
    b = _body(find_func(c, "_is_except_raise_pattern"))
    if not b or ast.unparse(b[0]) != "first, second = (lines[0], lines[1])":
        raise Unsupported("_is_except_raise_pattern changed")
    env = Env(names={"first": "first", "second": "second"},
              calls={"first.startswith": "str_starts first", "first.endswith": "str_ends first",
                     "second.startswith": "str_starts second", "second.endswith": "str_ends second"})
    out += f"Definition dry_is_except_raise (first second : string) : bool := {tr_block(b[1:], env)}.\n"
    # ---- registry: order of registration, any() over the enabled filters, dry.filters
    reg = _body(find_func(m, "create_default_registry"))
    src = [ast.unparse(x) for x in reg]
    if src[:1] != ["registry = BlockFilterRegistry()"] or src[-1:] != ["return registry"]:
        raise Unsupported("create_default_registry changed")
    names = []
    for line in src[1:-1]:
        mm2 = re.fullmatch(r"registry\.register\((\w+)\((?:threshold=DEFAULT_KEYWORD_ARG_THRESHOLD)?\)\)", line)
        if not mm2:
            raise Unsupported(f"create_default_registry: {line}")
        names.append(_name_of(find_class(m, mm2.group(1))))
    known = {"keyword_argument_filter", "import_group_filter", "logger_call_filter", "exception_reraise_filter"}
    if not set(names) <= known or len(set(names)) != len(names):
        raise Unsupported(f"registry holds a filter the model does not know: {names}")
    r = find_class(m, "BlockFilterRegistry")
    if [ast.unparse(x) for x in _body(find_func(r, "register"))] != ["self._filters.append(filter_instance)", "self._enabled_filters.add(filter_instance.name)"] \
            or [ast.unparse(x) for x in _body(find_func(r, "enable_filter"))] != ["self._enabled_filters.add(filter_name)"] \
            or [ast.unparse(x) for x in _body(find_func(r, "disable_filter"))] != ["self._enabled_filters.discard(filter_name)"] \
            or [ast.unparse(x) for x in _body(find_func(r, "should_filter_block"))] != [
                "enabled_filters = (f for f in self._filters if f.name in self._enabled_filters)",
                "return any((f.should_filter(block, file_content) for f in enabled_filters))"]:
        raise Unsupported("BlockFilterRegistry changed")
    fa = find_class(parse(D + "file_analyzer.py"), "FileAnalyzer")
    want = ["registry = create_default_registry()", "if not config:\n    return registry",
            "for filter_name, enabled in config.filters.items():\n    if enabled:\n        registry.enable_filter(filter_name)\n    else:\n        registry.disable_filter(filter_name)",
            "return registry"]
    if [ast.unparse(x) for x in _body(find_func(fa, "_create_filter_registry"))] != want:
        raise Unsupported("FileAnalyzer._create_filter_registry changed")
    init = ast.unparse(find_func(fa, "__init__"))
    if "self._python_analyzer = PythonDuplicateAnalyzer(filter_registry)" not in init or "self._typescript_analyzer = TypeScriptDuplicateAnalyzer()" not in init:
        raise Unsupported("FileAnalyzer.__init__ changed (which analyzer receives the configured registry)")
    for rel, cls in ((D + "python_analyzer.py", "PythonDuplicateAnalyzer"), (D + "typescript_analyzer.py", "TypeScriptDuplicateAnalyzer")):
        if "self._filter_registry = filter_registry or create_default_registry()" not in ast.unparse(find_func(find_class(parse(rel), cls), "__init__")):
            raise Unsupported(f"{cls}.__init__ changed")
    fd = find_func(find_class(parse(D + "config.py"), "DRYConfig"), "from_dict")
    dflt = None
    for st in ast.walk(fd):
        if isinstance(st, ast.Assign) and ast.unparse(st.targets[0]) == "default_filters" and isinstance(st.value, ast.Dict):
            dflt = [(const_value(k), const_value(v)) for k, v in zip(st.value.keys, st.value.values)]
    u = ast.unparse(fd)
    if dflt is None or "custom_filters = config.get('filters', {})" not in u or "filters = {**default_filters, **custom_filters}" not in u \
            or "filters=filters" not in u or not all(isinstance(k, str) and isinstance(v, bool) for k, v in dflt):
        raise Unsupported("DRYConfig.from_dict filters changed")
    pairs = "[" + "; ".join(f"({coq_string(k)}, {'true' if v else 'false'})" for k, v in dflt) + "]"
    return out + defn("dry_registry", "list string", coq_str_list(names)) + defn("dry_filter_defaults", "list (string * bool)", pairs)


ITEMS = [
    ("import_tables", import_tables),
    ("comment_markers", comment_markers),
    ("normalize_shape", normalize_shape),
    ("import_machine", import_machine),
    ("py_analyzer", py_analyzer),
    ("ts_analyzer", ts_analyzer),
    ("analyzer_dispatch", analyzer_dispatch),
    ("sql_queries", sql_queries),
    ("blocks_overlap", blocks_overlap),
    ("viol_overlap", viol_overlap),
    ("extract_line_count", extract_line_count),
    ("meets_min", meets_min),
    ("violation_fields", violation_fields),
    ("rule_identity", rule_identity),
    ("config_keys", config_keys),
    ("suppression", suppression),
    ("kwarg_filter", kwarg_filter),
    ("text_filters", text_filters),
]
