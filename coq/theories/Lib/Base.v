(* Lib/Base.v — small shared vocabulary: list maxima, string membership,
   decimal rendering of naturals, multiset comparison of result lists.
   Definitions only plus their elementary lemmas; stdlib only. *)
From Coq Require Export List Arith Bool String Ascii Lia PeanoNat.
From Coq Require Import DecimalString Decimal.
Export ListNotations.
Open Scope string_scope.
Open Scope list_scope.
Open Scope nat_scope.

(* ---------- maxima over lists of naturals ---------- *)
Fixpoint maxl (l : list nat) : nat :=
  match l with [] => 0 | x :: xs => Nat.max x (maxl xs) end.

Lemma maxl_app l1 l2 : maxl (l1 ++ l2) = Nat.max (maxl l1) (maxl l2).
Proof. induction l1 as [|x xs IH]; [reflexivity|]. change ((x :: xs) ++ l2) with (x :: (xs ++ l2)). cbn [maxl]. rewrite IH. lia. Qed.

Lemma maxl_map_ext {A} (f g : A -> nat) l :
  Forall (fun x => f x = g x) l -> maxl (map f l) = maxl (map g l).
Proof. induction 1 as [|x xs Hx _ IH]; cbn [map maxl]; [reflexivity|]. now rewrite Hx, IH. Qed.

(* max d (max over children of (d + g c)) = d + max over children of g c *)
Lemma max_shift {A} (f g : A -> nat) (d : nat) l :
  Forall (fun x => f x = d + g x) l ->
  Nat.max d (maxl (map f l)) = d + maxl (map g l).
Proof.
  induction 1 as [|x xs Hx _ IH]; cbn [map maxl]; [lia|]. rewrite Hx. lia.
Qed.

Lemma maxl_le_all l m : Forall (fun x => x <= m) l -> maxl l <= m.
Proof. induction 1; cbn [maxl]; lia. Qed.

Lemma maxl_ge_in l x : In x l -> x <= maxl l.
Proof. induction l as [|y ys IH]; cbn [maxl In]; [tauto|]. intros [->|H]; [lia|]. specialize (IH H). lia. Qed.

(* ---------- strings ---------- *)
Fixpoint smem (s : string) (l : list string) : bool :=
  match l with [] => false | x :: xs => if String.eqb s x then true else smem s xs end.

Lemma smem_In s l : smem s l = true <-> In s l.
Proof.
  induction l as [|x xs IH]; cbn [smem In]; [split; [discriminate|tauto]|].
  destruct (String.eqb_spec s x) as [->|Hne]; [tauto|].
  rewrite IH. split; [tauto|]. intros [E|H]; [congruence|exact H].
Qed.

Definition show_nat (n : nat) : string := NilEmpty.string_of_uint (Nat.to_uint n).

Definition sconcat (l : list string) : string := fold_right String.append "" l.

(* ---------- multiset comparison with a boolean equality ---------- *)
Section Multiset.
  Context {A : Type} (eqb : A -> A -> bool).
  Fixpoint count (x : A) (l : list A) : nat :=
    match l with [] => 0 | y :: ys => (if eqb x y then 1 else 0) + count x ys end.
  Definition sub_ms (a b : list A) : bool := forallb (fun x => count x a <=? count x b) a.
  Definition ms_eqb (a b : list A) : bool :=
    (List.length a =? List.length b) && sub_ms a b && sub_ms b a.
End Multiset.

Definition b2n (b : bool) : nat := if b then 1 else 0.

(* strings given as byte lists by the harness (arbitrary bytes, no escaping issues) *)
Fixpoint bytes_to_string (l : list nat) : string :=
  match l with [] => EmptyString | c :: cs => String (ascii_of_nat c) (bytes_to_string cs) end.
