(* Lib/GenTypes.v — the small types the generated layer (Gen/*.v) is expressed in. *)
From TL Require Import Lib.Base.

Inductive cmp := CLe | CLt | CGe | CGt | CEq | CNe.

Definition cmp_nat (c : cmp) (a b : nat) : bool :=
  match c with
  | CLe => a <=? b | CLt => a <? b | CGe => b <=? a | CGt => b <? a
  | CEq => a =? b | CNe => negb (a =? b)
  end.

(* parts of an f-string message: literal text, the function name, the depth *)
Inductive msgpart := MLit (s : string) | MName | MDepth.

Definition render_msg (parts : list msgpart) (name : string) (depth : nat) : string :=
  sconcat (map (fun p => match p with MLit s => s | MName => name | MDepth => show_nat depth end) parts).
