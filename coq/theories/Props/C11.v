(* Props/C11.v — property C11 (no input makes a linter crash, hang or silently drop its analysis): THE PART
   THAT IS LOGIC.  Only statements closed by `exact <lemma>` and their Print Assumptions.
   What is proved here: the orchestrator's failure containment with rules as partial functions (sibling
   isolation, exactness, what escapes and why, what hook H1 shows, exit status), the evidence order of the two
   cross-file rules, and language detection.  What is NOT and cannot be proved here - whether CPython's parser,
   tree-sitter, the recursive walkers or the OS raise or hang on a given byte string - is validated at run time
   by the mutation stream of harness/props/c11.py. *)
From TL Require Import Lib.Base Lib.GenTypes Model.ContainTypes Gen.ContainGen Model.Contain
     Proofs.ContainMain Proofs.ContainDetect Proofs.ContainStaged Gen.CensusGen Proofs.ContainCensus Model.ContainWalk Proofs.ContainWalk
     Gen.ContainOutGen Model.ContainOut Model.ContainOutRun Proofs.ContainOut Model.ContainState Proofs.ContainState.
Require Import ZArith.

(* ---- 1. sibling isolation ------------------------------------------------------------------------------------ *)
(* For every rule set (rules = arbitrary partial functions), every file list and EVERY set `bad` of files - in
   particular the files on which some rules fail - and NO hypothesis on the rules (check() and finalize() may fail in any
   way): the run completes, its cells are
   the specified ones, the cells of the other files are exactly the cells of the run without the bad files, and
   the cross-file findings agree provided the bad files left no evidence in the stores. *)
Theorem C11_sibling_isolation : forall q rules files (bad : string -> bool),
  q_value_error_escapes q = false -> q_finalize_unguarded q = false ->
  exists cells fins cells' fins',
    fst (run q rules files) = Completed cells fins /\
    fst (run q rules (filter (fun p => negb (bad p)) files)) = Completed cells' fins' /\
    filter (fun c => negb (bad (cell_path c))) cells = cells' /\
    cells = spec_cells rules files /\
    ((forall r p, In r rules -> In p files -> bad p = true -> r_contrib r p = []) -> fins = fins').
Proof. exact sibling_isolation_ideal. Qed.
Print Assumptions C11_sibling_isolation.

(* the same for ANY quirk vector (the faithful one included) whenever no failure escapes the except table *)
Theorem C11_sibling_isolation_faithful : forall q rules files (bad : string -> bool),
  all_contained q rules files ->
  final_safe rules files -> final_safe rules (filter (fun p => negb (bad p)) files) ->
  exists cells fins cells' fins',
    fst (run q rules files) = Completed cells fins /\
    fst (run q rules (filter (fun p => negb (bad p)) files)) = Completed cells' fins' /\
    filter (fun c => negb (bad (cell_path c))) cells = cells' /\
    cells = spec_cells rules files /\
    ((forall r p, In r rules -> In p files -> bad p = true -> r_contrib r p = []) -> fins = fins').
Proof. exact sibling_isolation. Qed.
Print Assumptions C11_sibling_isolation_faithful.

(* the precise condition for cross-file rules: the stores coincide IFF the removed files contributed nothing *)
Theorem C11_cross_file_condition : forall r files (bad : string -> bool),
  store_of r files = store_of r (filter (fun p => negb (bad p)) files)
  <-> (forall p, In p files -> bad p = true -> r_contrib r p = []).
Proof. exact store_filter_iff. Qed.
Print Assumptions C11_cross_file_condition.

(* ---- 2. exactness, and what the re-raised ValueError clause costs -------------------------------------------- *)
Theorem C11_run_exact : forall q rules files,
  q_value_error_escapes q = false -> q_finalize_unguarded q = false ->
  fst (run q rules files) = spec_run rules files.
Proof. exact run_ideal_exact. Qed.
Print Assumptions C11_run_exact.

(* partial: the faithful model is exact on every input on which no rule fails with a ValueError-family exception and no
   finalize() fails *)
Theorem C11_faithful_exact_outside_value_family_partial : forall q rules files,
  (forall r p e, In r rules -> In p files -> r_res r p = Fail e -> value_family e = false) ->
  final_safe rules files ->
  run q rules files = (spec_run rules files, spec_log rules files).
Proof. exact run_actual_partial. Qed.
Print Assumptions C11_faithful_exact_outside_value_family_partial.

Theorem C11_code_table_lets_exactly_value_family_through : forall q e,
  q_value_error_escapes q = true -> contained q e = negb (value_family e).
Proof. exact actual_contains_iff. Qed.
Print Assumptions C11_code_table_lets_exactly_value_family_through.

Theorem C11_corrected_table_contains_everything : forall q e, q_value_error_escapes q = false -> contained q e = true.
Proof. exact ideal_contains_all. Qed.
Print Assumptions C11_corrected_table_contains_everything.

Theorem C11_escape_crashes : forall q rules files,
  (exists r p e, In r rules /\ In p files /\ r_res r p = Fail e /\ contained q e = false) ->
  exists e', fst (run q rules files) = Crashed e'.
Proof. exact escape_crashes. Qed.
Print Assumptions C11_escape_crashes.

Theorem C11_crash_has_cause : forall q rules files e,
  fst (run q rules files) = Crashed e ->
  (exists r p, In r rules /\ In p files /\ r_res r p = Fail e /\ contained q e = false)
  \/ (exists r, In r rules /\ is_okb (r_final r (store_of r files)) = false).
Proof. exact crash_has_cause. Qed.
Print Assumptions C11_crash_has_cause.

(* finalize() is not guarded in the source (flag q_finalize_unguarded): a failing finalize() aborts the faithful run ... *)
Theorem C11_finalize_failure_crashes : forall q rules files,
  q_finalize_unguarded q = true ->
  all_contained q rules files ->
  (exists r, In r rules /\ is_okb (r_final r (store_of r files)) = false) ->
  exists e', fst (run q rules files) = Crashed e'.
Proof. exact finalize_failure_crashes. Qed.
Print Assumptions C11_finalize_failure_crashes.

(* ... whereas the demanded behaviour costs exactly that rule's cross-file findings *)
Theorem C11_guarded_finalize_failure_is_local : forall q rules files,
  q_value_error_escapes q = false -> q_finalize_unguarded q = false ->
  exists cells, fst (run q rules files) = Completed cells (map (fun r => (r_id r, ok_or_nil (r_final r (store_of r files)))) rules).
Proof. exact guarded_finalize_failure_is_local. Qed.
Print Assumptions C11_guarded_finalize_failure_is_local.

(* every quirk vector: exact whenever nothing escapes the except table and (the finalize loop is guarded or no finalize() fails) *)
Theorem C11_run_exact_general : forall q rules files,
  all_contained q rules files -> fin_guard q "lint_files" = true \/ final_safe rules files ->
  fst (run q rules files) = spec_run rules files.
Proof. exact run_exact_fst. Qed.
Print Assumptions C11_run_exact_general.

Theorem C11_failing_pair_costs_its_own_cell : forall q rules files r p,
  all_contained q rules files -> final_safe rules files -> In r rules -> In p files ->
  exists cells fins, fst (run q rules files) = Completed cells fins /\
    In (p, r_id r, ok_or_nil (r_res r p)) cells.
Proof. exact failing_pair_costs_its_own_cell. Qed.
Print Assumptions C11_failing_pair_costs_its_own_cell.

(* ---- 3. hook H1 shows every swallowed failure: an empty failure log means no rule failed ---------------------- *)
Theorem C11_failure_log_complete : forall q rules files,
  all_contained q rules files -> final_safe rules files -> snd (run q rules files) = spec_log rules files.
Proof. exact log_complete. Qed.
Print Assumptions C11_failure_log_complete.

Theorem C11_empty_log_means_no_failure : forall q rules files,
  all_contained q rules files -> final_safe rules files -> snd (run q rules files) = [] ->
  forall r p, In r rules -> In p files -> exists vs, r_res r p = Ok vs.
Proof. exact empty_log_means_no_failure. Qed.
Print Assumptions C11_empty_log_means_no_failure.

(* ---- 4. exit status ------------------------------------------------------------------------------------------ *)
Theorem C11_exit_0_or_1 : forall q rules files,
  q_value_error_escapes q = false -> q_finalize_unguarded q = false -> exit_code (fst (run q rules files)) <= 1.
Proof. exact ideal_exit_0_or_1. Qed.
Print Assumptions C11_exit_0_or_1.

Theorem C11_crash_exit_is_2 : forall e, exit_code (Crashed e) = 2.
Proof. exact crash_exit_is_2. Qed.
Print Assumptions C11_crash_exit_is_2.

(* ---- 5. the parallel path ------------------------------------------------------------------------------------ *)
(* worker and future reader re-raise the ValueError family and swallow everything else; the parent re-runs the
   cross-file rules before finalizing (Gen: par_parent_collects) *)
Theorem C11_par_run_exact : forall q rules files,
  all_contained q rules files -> fin_guard q "_finalize_rules" = true \/ final_safe rules files -> (forall r, In r rules -> wf_rule r) ->
  fst (run_par q rules files) = spec_run rules files.
Proof. exact run_par_exact. Qed.
Print Assumptions C11_par_run_exact.

Theorem C11_par_log : forall q rules files,
  all_contained q rules files -> final_safe rules files -> (forall r, In r rules -> wf_rule r) ->
  snd (run_par q rules files) = spec_log rules files ++ spec_log (filter r_cross rules) files.
Proof. exact run_par_log. Qed.
Print Assumptions C11_par_log.

Theorem C11_par_isolation : forall q rules files (bad : string -> bool),
  all_contained q rules files ->
  exists cells cells',
    fst (par_all q rules files) = Ok cells /\
    fst (par_all q rules (filter (fun p => negb (bad p)) files)) = Ok cells' /\
    filter (fun c => negb (bad (cell_path c))) cells = cells'.
Proof. exact par_isolation. Qed.
Print Assumptions C11_par_isolation.

Theorem C11_par_exact : forall q rules files,
  q_value_error_escapes q = false -> fst (par_all q rules files) = Ok (spec_cells rules files).
Proof. exact par_ideal_exact. Qed.
Print Assumptions C11_par_exact.

Theorem C11_par_escape_crashes : forall q rules files,
  (exists r p e, In r rules /\ In p files /\ r_res r p = Fail e /\ contained q e = false) ->
  exists e', fst (run_par q rules files) = Crashed e'.
Proof. exact par_escape_crashes. Qed.
Print Assumptions C11_par_escape_crashes.

Theorem C11_pool_tables : forall e,
  (value_family e = true -> dispatch worker_handlers e = Some HReraise /\ dispatch future_handlers e = Some HReraise)
  /\ (value_family e = false -> dispatch worker_handlers e = Some HReturnEmpty).
Proof. exact (fun e => conj (pool_reraises_value_family e) (pool_swallows_the_rest e)). Qed.
Print Assumptions C11_pool_tables.

(* ---- 6. the content readers and the parser wrapper ----------------------------------------------------------- *)
Theorem C11_unreadable_content_is_not_a_failure : forall e,
  In e [EUnicodeDecode; EOS; EFileNotFound; EPermission] ->
  dispatch file_content_handlers e = Some HReturnNone /\ dispatch shebang_handlers e = Some HReturnNone.
Proof. exact content_readers_catch. Qed.
Print Assumptions C11_unreadable_content_is_not_a_failure.

Theorem C11_syntax_errors_are_reported :
  dispatch parse_python_handlers ESyntax = Some HViolation /\ dispatch parse_python_handlers EIndentation = Some HViolation.
Proof. exact syntax_errors_reported. Qed.
Print Assumptions C11_syntax_errors_are_reported.

(* ---- 7. cross-file rules: evidence is stored only after the analysis it comes from --------------------------- *)
Theorem C11_dry_isolated_when_block_analysis_fails : forall id an fin files (bad : string -> bool),
  (forall p, In p files -> bad p = true ->
     exists e u1 u2, an p "file_contents" = Ok u1 /\ an p "inline_ignore" = Ok u2 /\ an p "blocks" = Fail e) ->
  store_of (staged_rule id dry_steps an fin) files
  = store_of (staged_rule id dry_steps an fin) (filter (fun p => negb (bad p)) files).
Proof. exact dry_isolated_when_block_analysis_fails. Qed.
Print Assumptions C11_dry_isolated_when_block_analysis_fails.

Theorem C11_dry_leaks_when_constants_fail : forall id an fin p e u1 u2 ev,
  an p "file_contents" = Ok u1 -> an p "inline_ignore" = Ok u2 -> an p "blocks" = Ok ev -> an p "constants" = Fail e ->
  ev <> [] ->
  store_of (staged_rule id dry_steps an fin) [p] <> store_of (staged_rule id dry_steps an fin) (filter (fun _ => false) [p]).
Proof. exact dry_leaks_when_constants_fail. Qed.
Print Assumptions C11_dry_leaks_when_constants_fail.

Theorem C11_stringly_py_first_failure_stores_nothing : forall an e,
  an "patterns" = Fail e -> run_ops stringly_py_steps an [] [] = (Fail e, []).
Proof. exact stringly_py_first_failure_stores_nothing. Qed.
Print Assumptions C11_stringly_py_first_failure_stores_nothing.

Theorem C11_stringly_py_later_failure_keeps_earlier : forall an e pats,
  an "patterns" = Ok pats -> an "calls" = Fail e -> run_ops stringly_py_steps an [] [] = (Fail e, pats).
Proof. exact stringly_py_later_failure_keeps_earlier. Qed.
Print Assumptions C11_stringly_py_later_failure_keeps_earlier.

Theorem C11_stringly_ts_failure_stores_nothing : forall an e,
  an "ts_results" = Fail e -> run_ops stringly_ts_steps an [] [] = (Fail e, []).
Proof. exact stringly_ts_failure_stores_nothing. Qed.
Print Assumptions C11_stringly_ts_failure_stores_nothing.

(* ---- 8. language detection on arbitrary names and contents ---------------------------------------------------- *)
Theorem C11_detect_in_range : forall name present decodes content, In (detect name present decodes content) detect_range.
Proof. exact detect_in_range. Qed.
Print Assumptions C11_detect_in_range.

Theorem C11_detect_known_ext : forall name l,
  assoc (ext_of name) extension_map = Some l ->
  forall present decodes content, detect name present decodes content = l.
Proof. exact detect_known_ext. Qed.
Print Assumptions C11_detect_known_ext.

Theorem C11_detect_by_extension : forall stem e' ext lang present decodes content,
  In (ext, lang) extension_map -> stem <> [] ->
  map lower_ascii e' = list_ascii_of_string ext ->
  detect (string_of_list_ascii (stem ++ e')) present decodes content = lang.
Proof. exact detect_by_extension. Qed.
Print Assumptions C11_detect_by_extension.

Theorem C11_detect_unmapped_ext_is_unknown : forall name present decodes content,
  shebang_requires_no_ext = true ->
  assoc (ext_of name) extension_map = None -> ext_of name <> "" ->
  detect name present decodes content = unknown_language.
Proof. exact detect_unmapped_ext_is_unknown. Qed.
Print Assumptions C11_detect_unmapped_ext_is_unknown.

Theorem C11_detect_unknown : forall name present decodes content,
  assoc (ext_of name) extension_map = None ->
  present = false \/ decodes = false \/ prefixb shebang_prefix (first_line content) = false ->
  detect name present decodes content = unknown_language.
Proof. exact detect_unknown. Qed.
Print Assumptions C11_detect_unknown.

(* ---- 9. census of the raising expressions in the analyzers (regenerated from the source on every run) ----------- *)
(* every int()/float()/.index()/.decode()/next() call in src/linters, src/analyzers, src/linter_config, core/linter_utils,
   orchestrator/core, orchestrator/language_detector is inside a try that catches what it raises, or is an audited site *)
Theorem C11_conversion_census : forall s, In s conversion_sites -> snd s = true \/ In (fst (fst s)) audited_conversions.
Proof. exact conversion_census. Qed.
Print Assumptions C11_conversion_census.

(* every tuple-unpacking assignment is guarded, unpacks a call all of whose returns are tuple displays of that length, or is audited *)
Theorem C11_unpack_census : forall s, In s unpack_sites -> snd s = true \/ In (fst s) audited_unpacks.
Proof. exact unpack_census. Qed.
Print Assumptions C11_unpack_census.

(* the number of unguarded subscript loads per function is the recorded one (304 in all) *)
Theorem C11_subscript_census : subscript_counts = recorded_subscript_counts.
Proof. exact subscript_census. Qed.
Print Assumptions C11_subscript_census.

Theorem C11_audited_sites_exist :
  forallb (fun a => existsb (fun s : string * string * bool => String.eqb a (fst (fst s)) && negb (snd s)) conversion_sites) audited_conversions = true
  /\ forallb (fun a => existsb (fun s : string * bool => String.eqb a (fst s) && negb (snd s)) unpack_sites) audited_unpacks = true.
Proof. exact audited_sites_exist. Qed.
Print Assumptions C11_audited_sites_exist.

(* ---- 10. the recursive tree walkers (the modelled root cause of the RecursionError findings for TS/JS/Rust) ------- *)
(* with `fuel` interpreter frames left, walk_tree raises RecursionError exactly on the trees deeper than fuel ... *)
Theorem C11_walk_fails_iff : forall t fuel ty, walk fuel ty t = None <-> fuel < depth t.
Proof. exact walk_fails_iff. Qed.
Print Assumptions C11_walk_fails_iff.

(* ... otherwise it finds every node of the type; partial: the faithful walker is exact on every tree that fits *)
Theorem C11_walker_faithful_partial : forall q fuel ty t, depth t <= fuel -> walker q fuel ty t = Some (count ty t).
Proof. exact walker_faithful_partial. Qed.
Print Assumptions C11_walker_faithful_partial.

Theorem C11_walker_total : forall q fuel ty t, q_walk_recursive q = false -> walker q fuel ty t = Some (count ty t).
Proof. exact walker_ideal_total. Qed.
Print Assumptions C11_walker_total.

(* ---- 11. the output stage (format_violations + exit status): outside the per-rule safety net ---------------------- *)
(* Python values by type tag (int / None / str / enum member); what each formatter does with each field of a Violation is
   read from the source (Gen/ContainOutGen.v: output_uses).  The output stage ends with 0 or 1 EXACTLY when every formatter
   operation is defined on every field of every violation ... *)
Theorem C11_output_exit_ok_iff : forall fmt vs,
  (out_exit fmt vs = 0 \/ out_exit fmt vs = 1) <-> (forall v, In v vs -> fmt_ok fmt v = true).
Proof. exact out_exit_ok_iff. Qed.
Print Assumptions C11_output_exit_ok_iff.

(* ... one field of the wrong type in ONE violation costs the whole run (the CLI error status, all results lost) ... *)
Theorem C11_output_one_bad_field_costs_the_run : forall fmt vs v,
  In v vs -> fmt_ok fmt v = false -> out_exit fmt vs = cli_error_exit.
Proof. exact out_exit_one_bad_field. Qed.
Print Assumptions C11_output_one_bad_field_costs_the_run.

(* ... with the annotated field types (str, int, int, str, Severity) every format name ends with 0 / 1 ... *)
Theorem C11_output_typed_exit : forall fmt vs, (forall v, In v vs -> well_typed v = true) ->
  out_exit fmt vs = match vs with [] => 0 | _ => 1 end.
Proof. exact out_exit_typed. Qed.
Print Assumptions C11_output_typed_exit.

(* ... and exit status 0 / 1 REQUIRES them: sarif needs a str rule id and message and an int column (`column + 1`) ... *)
Theorem C11_output_sarif_requires : forall vs, (out_exit "sarif" vs = 0 \/ out_exit "sarif" vs = 1) ->
  forall v, In v vs -> is_str (o_rule v) = true /\ is_str (o_msg v) = true /\ is_int (o_col v) = true /\ is_enum (o_line v) = false.
Proof. exact sarif_exit_requires. Qed.
Print Assumptions C11_output_sarif_requires.

Theorem C11_output_json_requires : forall vs, (out_exit "json" vs = 0 \/ out_exit "json" vs = 1) ->
  forall v, In v vs -> is_str (o_msg v) = true /\ is_enum (o_sev v) = true /\ is_enum (o_rule v) = false /\ is_enum (o_line v) = false /\ is_enum (o_col v) = false.
Proof. exact json_exit_requires. Qed.
Print Assumptions C11_output_json_requires.

Theorem C11_output_text_requires : forall vs, (out_exit "text" vs = 0 \/ out_exit "text" vs = 1) ->
  forall v, In v vs -> is_str (o_msg v) = true /\ is_enum (o_sev v) = true.
Proof. exact text_exit_requires. Qed.
Print Assumptions C11_output_text_requires.

(* every format ends with 0 / 1 iff rule id and message are strings, the column an int, the severity an enum member and the line
   a JSON value *)
Theorem C11_output_all_formats_iff : forall vs,
  (forall fmt, out_exit fmt vs = 0 \/ out_exit fmt vs = 1) <-> (forall v, In v vs -> fields_needed v = true).
Proof. exact all_formats_exit_ok_iff. Qed.
Print Assumptions C11_output_all_formats_iff.

(* the SARIF region of a well-typed violation is valid (startLine, startColumn >= 1) iff the line is 1-based and the column 0-based;
   a line of None passes the formatter with exit status 1 but the document is not valid SARIF *)
Theorem C11_sarif_region_valid_iff : forall v l c, well_typed v = true -> o_line v = PInt l -> o_col v = PInt c ->
  exists r, sarif_region v = Some r /\ (region_valid r = true <-> (1 <= l /\ 0 <= c)%Z).
Proof. exact sarif_region_valid_iff. Qed.
Print Assumptions C11_sarif_region_valid_iff.

Theorem C11_sarif_none_line_passes_but_invalid : forall v, o_line v = PNone -> fmt_ok "sarif" v = true ->
  exists r, sarif_region v = Some r /\ region_valid r = false.
Proof. exact sarif_none_line_passes_but_invalid. Qed.
Print Assumptions C11_sarif_none_line_passes_but_invalid.

(* the exit status of the containment theorems (sections 5, 6) is the status of the whole command provided every reported
   violation has well-typed fields; in general the command ends with 0 / 1 iff the run completed and the formatter gets through *)
Theorem C11_cli_exit_typed_is_exit_code : forall fmt rend r,
  (forall v, well_typed (rend v) = true) -> cli_exit fmt rend r = exit_code r.
Proof. exact cli_exit_typed_is_exit_code. Qed.
Print Assumptions C11_cli_exit_typed_is_exit_code.

Theorem C11_cli_exit_ok_iff : forall fmt rend r,
  (cli_exit fmt rend r = 0 \/ cli_exit fmt rend r = 1) <->
  exists cs fs, r = Completed cs fs /\ forall v, In v (flat_viols cs fs) -> fmt_ok fmt (rend v) = true.
Proof. exact cli_exit_ok_iff. Qed.
Print Assumptions C11_cli_exit_ok_iff.

(* censuses regenerated from the source: every format_violations call is directly followed by sys.exit(1 if <same list> else 0);
   every position attribute of a caught SyntaxError (None when the error has no position: a NUL byte in the source) is defaulted
   with `or <int>` before it becomes a field of a Violation *)
Theorem C11_output_exit_sites_uniform :
  forallb (fun s : string * bool => snd s) output_exit_sites = true /\ 15 <= List.length output_exit_sites.
Proof. exact output_exit_sites_uniform. Qed.
Print Assumptions C11_output_exit_sites_uniform.

Theorem C11_syntax_error_fields_defaulted :
  forallb (fun s : string * bool => snd s) syntax_error_fields = true /\ 1 <= List.length syntax_error_fields.
Proof. exact syntax_error_fields_defaulted. Qed.
Print Assumptions C11_syntax_error_fields_defaulted.

(* non-vacuity: a syntax-error violation whose column is None (what SyntaxError.offset is for a source with a NUL byte) next to a
   healthy one: text and json end with 1, sarif with the CLI error status; with column 0 all three end with 1 and the region is valid *)
Definition ex_viol (col : pv) : oviol :=
  {| o_rule := PStr "nesting.excessive-depth"; o_file := PStr "damaged.py"; o_line := PInt 1; o_col := col;
     o_msg := PStr "Syntax error: source code string cannot contain null bytes"; o_sev := PEnum "ERROR"; o_sugg := PNone |}.
Example C11_output_nonvacuous :
  map (fun f => out_exit f [ex_viol (PInt 4); ex_viol PNone]) ["text"; "json"; "sarif"] = [1; 1; cli_error_exit]
  /\ map (fun f => out_exit f [ex_viol (PInt 4); ex_viol (PInt 0)]) ["text"; "json"; "sarif"] = [1; 1; 1]
  /\ judge_out "sarif" [ex_viol (PInt 0)] 1 [(PInt 1, PInt 1)] = [true; true; true; true; true].
Proof. vm_compute. repeat split; reflexivity. Qed.

(* ---- 12. analyzer state that survives from one file to the next (the hidden assumption of sections 1-3) ---------------- *)
(* The containment model takes a rule as a FUNCTION of the file (r_res, r_contrib): what check() does for a file does not depend on the
   files analysed before it.  Rule and analyzer objects live for the whole run, so this is a property of the code: every place outside
   __init__ where the linters / analyzers assign or mutate an attribute of `self` or a module-level name is listed from the source
   (Gen/CensusGen.v: state_sites); each is a reset, mutates an attribute that is reset at the start of an analysis, or is one of the
   sites audited by hand in Proofs/ContainCensus.v (rule stores, per-file objects, caches keyed by path / pattern).  A new parse memo,
   `last result` or module-level cache breaks this theorem on the next run.  The run-time counterpart is the carrier sweep of
   harness/props/c11_carriers.py. *)
Theorem C11_state_census : forall s, In s state_sites -> snd s = true \/ In (fst s) audited_state_sites.
Proof. exact state_census. Qed.
Print Assumptions C11_state_census.

Theorem C11_audited_state_sites_exist :
  forallb (fun a => existsb (fun s : string * bool => String.eqb a (fst s) && negb (snd s)) state_sites) audited_state_sites = true.
Proof. exact audited_state_sites_exist. Qed.
Print Assumptions C11_audited_state_sites_exist.

(* the abstraction is exact for history-free analyzers: the store after the first loop is store_of of the functional rule, and files
   that store nothing on their own can be removed from the run without changing it ... *)
Theorem C11_history_free_is_functional : forall S (a : analyzer S) (r : rule), history_free a ->
  (forall p, r_contrib r p = contrib_of a p) ->
  forall files, collect a (a_init a) files = store_of r files.
Proof. exact history_free_is_functional. Qed.
Print Assumptions C11_history_free_is_functional.

Theorem C11_history_free_isolation : forall S (a : analyzer S) (bad : string -> bool) files, history_free a ->
  (forall p, bad p = true -> contrib_of a p = []) ->
  collect a (a_init a) (filter (fun p => negb (bad p)) files) = collect a (a_init a) files.
Proof. exact history_free_isolation. Qed.
Print Assumptions C11_history_free_isolation.

(* ... and it is NOT for an analyzer that remembers its last successful parse and replays it for a file that does not parse: the
   damaged file stores nothing when analysed by a fresh object, yet a healthy file directly BEFORE it gets its evidence stored a second
   time (the cross-file threshold is reached by one file); directly AFTER it nothing happens - which is why the carrier sweep places
   the healthy file on both sides *)
Theorem C11_stale_memo_breaks_isolation :
  contrib_of (memo_analyzer ex_parse) "damaged.py" = []
  /\ collect (memo_analyzer ex_parse) [] ["plain.py"; "carrier.py"; "damaged.py"]
     = [("carrier.py", 7); ("carrier.py", 8); ("damaged.py", 7); ("damaged.py", 8)]
  /\ collect (memo_analyzer ex_parse) [] ["plain.py"; "carrier.py"] = [("carrier.py", 7); ("carrier.py", 8)]
  /\ collect (memo_analyzer ex_parse) [] ["plain.py"; "damaged.py"; "carrier.py"] = [("carrier.py", 7); ("carrier.py", 8)]
  /\ ~ history_free (memo_analyzer ex_parse).
Proof. exact memo_breaks_isolation. Qed.
Print Assumptions C11_stale_memo_breaks_isolation.

(* non-vacuity: a run with two rules and three files, one rule failing (RecursionError) on the middle file:
   all hypotheses hold, the failing pair costs its own cell only, H1 shows it *)
Definition ex_rules : list rule :=
  [ {| r_id := "nesting"; r_res := fun p => if String.eqb p "deep.py" then Fail ERecursion else Ok [("nesting", p, 3)];
       r_contrib := fun _ => []; r_final := fun _ => Ok []; r_cross := false |};
    {| r_id := "dry"; r_res := fun _ => Ok []; r_contrib := fun p => if String.eqb p "deep.py" then [] else [(p, 7)];
       r_final := fun s => Ok (map (fun ev : evid => ("dry", fst ev, snd ev)) s); r_cross := true |} ].
Example C11_nonvacuous :
  run ideal ex_rules ["a.py"; "deep.py"; "b.ts"]
  = (Completed [("a.py", "nesting", [("nesting", "a.py", 3)]); ("a.py", "dry", []);
                ("deep.py", "nesting", []); ("deep.py", "dry", []);
                ("b.ts", "nesting", [("nesting", "b.ts", 3)]); ("b.ts", "dry", [])]
               [("nesting", []); ("dry", [("dry", "a.py", 7); ("dry", "b.ts", 7)])],
     [("rule", "nesting", "deep.py", "RecursionError")])
  /\ fst (run ideal ex_rules ["a.py"; "b.ts"])
     = Completed [("a.py", "nesting", [("nesting", "a.py", 3)]); ("a.py", "dry", []);
                  ("b.ts", "nesting", [("nesting", "b.ts", 3)]); ("b.ts", "dry", [])]
                 [("nesting", []); ("dry", [("dry", "a.py", 7); ("dry", "b.ts", 7)])].
Proof. vm_compute. split; reflexivity. Qed.
