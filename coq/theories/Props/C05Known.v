(* Props/C05Known.v - refutations (and regressions for repaired defects): for each flag claimed in Actual/ConfigActual.v a concrete case on which the
   faithful model differs from the specification while the ideal model meets it (closed by vm_compute).
   The same cases are in corpus/C05 and are replayed on the implementation on every run. *)
From TL Require Import Lib.Base Lib.GenTypes Model.ConfigTypes Gen.ConfigGen Model.Config Model.ConfigRun Actual.ConfigActual.
From Coq Require Import ZArith.

Definition w_section_not_read_improper_logging : case :=
  {| c_proj := {| p_yaml := (Doc [("improper-logging", VMap [("enabled", VBool false)])]); p_json := Absent; p_pyproject := Absent; p_dash := None; p_ignore_file := []; p_subdir := false |}; c_cmd := "improper-logging"; c_unit := "improper-logging"; c_lang := "python"; c_fname := "case_src.py"; c_overrides := []; c_metrics := [("print", (1)%Z)] |}.
Definition w_section_not_read_stateless_class : case :=
  {| c_proj := {| p_yaml := (Doc [("stateless-class", VMap [("enabled", VBool false)])]); p_json := Absent; p_pyproject := Absent; p_dash := None; p_ignore_file := []; p_subdir := false |}; c_cmd := "stateless-class"; c_unit := "stateless-class"; c_lang := "python"; c_fname := "case_src.py"; c_overrides := []; c_metrics := [("methods", (2)%Z)] |}.
Definition w_section_not_read_lazy_ignores : case :=
  {| c_proj := {| p_yaml := (Doc [("lazy-ignores", VMap [("enabled", VBool false)])]); p_json := Absent; p_pyproject := Absent; p_dash := None; p_ignore_file := []; p_subdir := false |}; c_cmd := "lazy-ignores"; c_unit := "lazy-ignores"; c_lang := "python"; c_fname := "case_src.py"; c_overrides := []; c_metrics := [("noqa", (1)%Z)] |}.
Definition w_section_not_read_unwrap_abuse : case :=
  {| c_proj := {| p_yaml := (Doc [("unwrap-abuse", VMap [("enabled", VBool false)])]); p_json := Absent; p_pyproject := Absent; p_dash := None; p_ignore_file := []; p_subdir := false |}; c_cmd := "unwrap-abuse"; c_unit := "unwrap-abuse"; c_lang := "rust"; c_fname := "case_src.rs"; c_overrides := []; c_metrics := [("unwrap", (1)%Z)] |}.
Definition w_section_not_read_clone_abuse : case :=
  {| c_proj := {| p_yaml := Absent; p_json := (Doc [("clone_abuse", VMap [("enabled", VBool false)])]); p_pyproject := Absent; p_dash := None; p_ignore_file := []; p_subdir := false |}; c_cmd := "clone-abuse"; c_unit := "clone-abuse"; c_lang := "rust"; c_fname := "case_src.rs"; c_overrides := []; c_metrics := [("clone_in_loop", (1)%Z)] |}.
Definition w_section_not_read_blocking_async : case :=
  {| c_proj := {| p_yaml := Absent; p_json := Absent; p_pyproject := (Doc [("blocking-async", VMap [("detect_sleep_in_async", VBool false)])]); p_dash := None; p_ignore_file := []; p_subdir := false |}; c_cmd := "blocking-async"; c_unit := "blocking-async"; c_lang := "rust"; c_fname := "case_src.rs"; c_overrides := []; c_metrics := [("fs_in_async", (1)%Z); ("sleep_in_async", (1)%Z)] |}.
Definition w_enabled_option_missing_file_header : case :=
  {| c_proj := {| p_yaml := (Doc [("file-header", VMap [("enabled", VBool false)])]); p_json := Absent; p_pyproject := Absent; p_dash := None; p_ignore_file := []; p_subdir := false |}; c_cmd := "file-header"; c_unit := "file-header"; c_lang := "python"; c_fname := "case_src.py"; c_overrides := []; c_metrics := [("no_header", (1)%Z)] |}.
Definition w_whole_config_fallback_collection_pipeline : case :=
  {| c_proj := {| p_yaml := (Doc [("min_continues", VInt (3)%Z)]); p_json := Absent; p_pyproject := Absent; p_dash := None; p_ignore_file := []; p_subdir := false |}; c_cmd := "pipeline"; c_unit := "collection-pipeline"; c_lang := "python"; c_fname := "case_src.py"; c_overrides := []; c_metrics := [("continues", (1)%Z)] |}.
Definition w_language_override_ignored_dry : case :=
  {| c_proj := {| p_yaml := (Doc [("dry", VMap [("enabled", VBool true); ("python", VMap [("min_duplicate_lines", VInt (6)%Z)])])]); p_json := Absent; p_pyproject := Absent; p_dash := None; p_ignore_file := []; p_subdir := false |}; c_cmd := "dry"; c_unit := "dry"; c_lang := "python"; c_fname := "case_src.py"; c_overrides := []; c_metrics := [("dup_lines", (4)%Z); ("occurrences", (2)%Z)] |}.
Definition w_cli_override_skips_language_sections_nesting : case :=
  {| c_proj := {| p_yaml := (Doc [("nesting", VMap [("rust", VMap [("max_nesting_depth", VInt (1)%Z)])])]); p_json := Absent; p_pyproject := Absent; p_dash := None; p_ignore_file := []; p_subdir := false |}; c_cmd := "nesting"; c_unit := "nesting"; c_lang := "rust"; c_fname := "case_src.rs"; c_overrides := [("--max-depth", (9)%Z)]; c_metrics := [("depth", (3)%Z)] |}.
Definition w_cli_override_skips_language_sections_srp : case :=
  {| c_proj := {| p_yaml := (Doc [("srp", VMap [("python", VMap [("max_methods", VInt (3)%Z)])])]); p_json := Absent; p_pyproject := Absent; p_dash := None; p_ignore_file := []; p_subdir := false |}; c_cmd := "srp"; c_unit := "srp"; c_lang := "python"; c_fname := "case_src.py"; c_overrides := [("--max-methods", (20)%Z)]; c_metrics := [("methods", (8)%Z)] |}.
Definition w_repo_ignore_not_loaded_json : case :=
  {| c_proj := {| p_yaml := Absent; p_json := (Doc [("ignore", VList [(VStr "case_src.py")])]); p_pyproject := Absent; p_dash := None; p_ignore_file := []; p_subdir := false |}; c_cmd := "magic-numbers"; c_unit := "magic-numbers"; c_lang := "python"; c_fname := "case_src.py"; c_overrides := []; c_metrics := [("value", (4242)%Z)] |}.
Definition w_repo_ignore_not_loaded_pyproject : case :=
  {| c_proj := {| p_yaml := Absent; p_json := Absent; p_pyproject := (Doc [("ignore", VList [(VStr "case_src.py")])]); p_dash := None; p_ignore_file := []; p_subdir := false |}; c_cmd := "magic-numbers"; c_unit := "magic-numbers"; c_lang := "python"; c_fname := "case_src.py"; c_overrides := []; c_metrics := [("value", (4242)%Z)] |}.
Definition w_repo_ignore_not_loaded_dash_config : case :=
  {| c_proj := {| p_yaml := Absent; p_json := Absent; p_pyproject := Absent; p_dash := (Some {| d_pos := PosCmd; d_suffix := ".yaml"; d_file := (Doc [("ignore", VList [(VStr "case_src.py")])]) |}); p_ignore_file := []; p_subdir := false |}; c_cmd := "magic-numbers"; c_unit := "magic-numbers"; c_lang := "python"; c_fname := "case_src.py"; c_overrides := []; c_metrics := [("value", (4242)%Z)] |}.
Definition w_global_config_option_ignored : case :=
  {| c_proj := {| p_yaml := Absent; p_json := Absent; p_pyproject := Absent; p_dash := (Some {| d_pos := PosGlobal; d_suffix := ".yaml"; d_file := (Doc [("nesting", VMap [("enabled", VBool false)])]) |}); p_ignore_file := []; p_subdir := false |}; c_cmd := "nesting"; c_unit := "nesting"; c_lang := "python"; c_fname := "case_src.py"; c_overrides := []; c_metrics := [("depth", (6)%Z)] |}.
Definition w_dry_config_option_merges_section_only : case :=
  {| c_proj := {| p_yaml := (Doc [("dry", VMap [("enabled", VBool true)])]); p_json := Absent; p_pyproject := Absent; p_dash := (Some {| d_pos := PosCmd; d_suffix := ".yaml"; d_file := (Doc [("nesting", VMap [("max_nesting_depth", VInt (3)%Z)])]) |}); p_ignore_file := []; p_subdir := false |}; c_cmd := "dry"; c_unit := "dry"; c_lang := "python"; c_fname := "case_src.py"; c_overrides := []; c_metrics := [("dup_lines", (4)%Z); ("occurrences", (2)%Z)] |}.
Definition w_pyproject_unparsable_swallowed : case :=
  {| c_proj := {| p_yaml := Absent; p_json := Absent; p_pyproject := Unparsable; p_dash := None; p_ignore_file := []; p_subdir := false |}; c_cmd := "nesting"; c_unit := "nesting"; c_lang := "python"; c_fname := "case_src.py"; c_overrides := []; c_metrics := [("depth", (6)%Z)] |}.
Definition w_wrong_type_swallowed : case :=
  {| c_proj := {| p_yaml := (Doc [("nesting", VMap [("max_nesting_depth", VStr "four")])]); p_json := Absent; p_pyproject := Absent; p_dash := None; p_ignore_file := []; p_subdir := false |}; c_cmd := "nesting"; c_unit := "nesting"; c_lang := "python"; c_fname := "case_src.py"; c_overrides := []; c_metrics := [("depth", (6)%Z)] |}.

Theorem C05_section_not_read_improper_logging_refuted : run config_actual w_section_not_read_improper_logging <> spec w_section_not_read_improper_logging /\ run ideal w_section_not_read_improper_logging = spec w_section_not_read_improper_logging.
Proof. vm_compute. split; [discriminate|reflexivity]. Qed.

Theorem C05_section_not_read_stateless_class_refuted : run config_actual w_section_not_read_stateless_class <> spec w_section_not_read_stateless_class /\ run ideal w_section_not_read_stateless_class = spec w_section_not_read_stateless_class.
Proof. vm_compute. split; [discriminate|reflexivity]. Qed.

Theorem C05_section_not_read_lazy_ignores_refuted : run config_actual w_section_not_read_lazy_ignores <> spec w_section_not_read_lazy_ignores /\ run ideal w_section_not_read_lazy_ignores = spec w_section_not_read_lazy_ignores.
Proof. vm_compute. split; [discriminate|reflexivity]. Qed.

(* repaired by fix commit cc0b16c: the old witness now meets the specification under the claimed vector *)
Example C05_section_not_read_unwrap_abuse_regression : run config_actual w_section_not_read_unwrap_abuse = spec w_section_not_read_unwrap_abuse.
Proof. vm_compute. reflexivity. Qed.

(* repaired by fix commit cc0b16c: the old witness now meets the specification under the claimed vector *)
Example C05_section_not_read_clone_abuse_regression : run config_actual w_section_not_read_clone_abuse = spec w_section_not_read_clone_abuse.
Proof. vm_compute. reflexivity. Qed.

(* repaired by fix commit cc0b16c: the old witness now meets the specification under the claimed vector *)
Example C05_section_not_read_blocking_async_regression : run config_actual w_section_not_read_blocking_async = spec w_section_not_read_blocking_async.
Proof. vm_compute. reflexivity. Qed.

Theorem C05_enabled_option_missing_file_header_refuted : run config_actual w_enabled_option_missing_file_header <> spec w_enabled_option_missing_file_header /\ run ideal w_enabled_option_missing_file_header = spec w_enabled_option_missing_file_header.
Proof. vm_compute. split; [discriminate|reflexivity]. Qed.

Theorem C05_whole_config_fallback_collection_pipeline_refuted : run config_actual w_whole_config_fallback_collection_pipeline <> spec w_whole_config_fallback_collection_pipeline /\ run ideal w_whole_config_fallback_collection_pipeline = spec w_whole_config_fallback_collection_pipeline.
Proof. vm_compute. split; [discriminate|reflexivity]. Qed.

Theorem C05_language_override_ignored_dry_refuted : run config_actual w_language_override_ignored_dry <> spec w_language_override_ignored_dry /\ run ideal w_language_override_ignored_dry = spec w_language_override_ignored_dry.
Proof. vm_compute. split; [discriminate|reflexivity]. Qed.

(* repaired by fix commit 15f0ac4: the old witness now meets the specification under the claimed vector *)
Example C05_cli_override_skips_language_sections_nesting_regression : run config_actual w_cli_override_skips_language_sections_nesting = spec w_cli_override_skips_language_sections_nesting.
Proof. vm_compute. reflexivity. Qed.

Theorem C05_cli_override_skips_language_sections_srp_refuted : run config_actual w_cli_override_skips_language_sections_srp <> spec w_cli_override_skips_language_sections_srp /\ run ideal w_cli_override_skips_language_sections_srp = spec w_cli_override_skips_language_sections_srp.
Proof. vm_compute. split; [discriminate|reflexivity]. Qed.

(* repaired by fix commit bbae54e: the old witness now meets the specification under the claimed vector *)
Example C05_repo_ignore_not_loaded_json_regression : run config_actual w_repo_ignore_not_loaded_json = spec w_repo_ignore_not_loaded_json.
Proof. vm_compute. reflexivity. Qed.

Theorem C05_repo_ignore_not_loaded_pyproject_refuted : run config_actual w_repo_ignore_not_loaded_pyproject <> spec w_repo_ignore_not_loaded_pyproject /\ run ideal w_repo_ignore_not_loaded_pyproject = spec w_repo_ignore_not_loaded_pyproject.
Proof. vm_compute. split; [discriminate|reflexivity]. Qed.

Theorem C05_repo_ignore_not_loaded_dash_config_refuted : run config_actual w_repo_ignore_not_loaded_dash_config <> spec w_repo_ignore_not_loaded_dash_config /\ run ideal w_repo_ignore_not_loaded_dash_config = spec w_repo_ignore_not_loaded_dash_config.
Proof. vm_compute. split; [discriminate|reflexivity]. Qed.

Theorem C05_global_config_option_ignored_refuted : run config_actual w_global_config_option_ignored <> spec w_global_config_option_ignored /\ run ideal w_global_config_option_ignored = spec w_global_config_option_ignored.
Proof. vm_compute. split; [discriminate|reflexivity]. Qed.

Theorem C05_dry_config_option_merges_section_only_refuted : run config_actual w_dry_config_option_merges_section_only <> spec w_dry_config_option_merges_section_only /\ run ideal w_dry_config_option_merges_section_only = spec w_dry_config_option_merges_section_only.
Proof. vm_compute. split; [discriminate|reflexivity]. Qed.

(* repaired by fix commit 0514ca9: the old witness now meets the specification under the claimed vector *)
Example C05_pyproject_unparsable_swallowed_regression : run config_actual w_pyproject_unparsable_swallowed = spec w_pyproject_unparsable_swallowed.
Proof. vm_compute. reflexivity. Qed.

Theorem C05_wrong_type_swallowed_refuted : run config_actual w_wrong_type_swallowed <> spec w_wrong_type_swallowed /\ run ideal w_wrong_type_swallowed = spec w_wrong_type_swallowed.
Proof. vm_compute. split; [discriminate|reflexivity]. Qed.

Definition w_language_block_error_retried_without_language : case :=
  {| c_proj := {| p_yaml := (Doc [("nesting", VMap [("max_nesting_depth", VInt (2)%Z); ("python", VMap [("max_nesting_depth", VStr "four")])])]); p_json := Absent; p_pyproject := Absent; p_dash := None; p_ignore_file := []; p_subdir := false |}; c_cmd := "nesting"; c_unit := "nesting"; c_lang := "python"; c_fname := "case_src.py"; c_overrides := []; c_metrics := [("depth", (5)%Z)] |}.
Definition w_invalid_top_level_value_shadowed_by_language_block : case :=
  {| c_proj := {| p_yaml := Absent; p_json := (Doc [("srp", VMap [("max_methods", VInt (0)%Z); ("typescript", VMap [("max_methods", VInt (2)%Z)])])]); p_pyproject := Absent; p_dash := None; p_ignore_file := []; p_subdir := false |}; c_cmd := "srp"; c_unit := "srp"; c_lang := "typescript"; c_fname := "case_src.ts"; c_overrides := []; c_metrics := [("methods", (9)%Z)] |}.

Theorem C05_language_block_error_retried_without_language_refuted : run config_actual w_language_block_error_retried_without_language <> spec w_language_block_error_retried_without_language /\ run ideal w_language_block_error_retried_without_language = spec w_language_block_error_retried_without_language.
Proof. vm_compute. split; [discriminate|reflexivity]. Qed.

Theorem C05_invalid_top_level_value_shadowed_by_language_block_refuted : run config_actual w_invalid_top_level_value_shadowed_by_language_block <> spec w_invalid_top_level_value_shadowed_by_language_block /\ run ideal w_invalid_top_level_value_shadowed_by_language_block = spec w_invalid_top_level_value_shadowed_by_language_block.
Proof. vm_compute. split; [discriminate|reflexivity]. Qed.

Definition w_thailint_json_is_not_a_root_marker : case :=
  {| c_proj := {| p_yaml := Absent; p_json := (Doc [("nesting", VMap [("enabled", VBool false)])]); p_pyproject := Absent; p_dash := None; p_ignore_file := []; p_subdir := true |}; c_cmd := "nesting"; c_unit := "nesting"; c_lang := "python"; c_fname := "pkg/case_src.py"; c_overrides := []; c_metrics := [("depth", (5)%Z)] |}.

Theorem C05_thailint_json_is_not_a_root_marker_refuted : run config_actual w_thailint_json_is_not_a_root_marker <> spec w_thailint_json_is_not_a_root_marker /\ run ideal w_thailint_json_is_not_a_root_marker = spec w_thailint_json_is_not_a_root_marker.
Proof. vm_compute. split; [discriminate|reflexivity]. Qed.

(* phase 3: values of a dry language block bypass validation; non-mappings where a mapping is expected *)
Definition w_language_block_value_not_validated_dry : case :=
  {| c_proj := {| p_yaml := (Doc [("dry", VMap [("enabled", VBool true); ("python", VMap [("min_occurrences", VInt (0)%Z)])])]); p_json := Absent; p_pyproject := Absent; p_dash := None; p_ignore_file := []; p_subdir := false |}; c_cmd := "dry"; c_unit := "dry"; c_lang := "python"; c_fname := "case_src.py"; c_overrides := []; c_metrics := [("dup_lines", (4)%Z); ("occurrences", (2)%Z)] |}.
Definition w_non_mapping_section_crashes_collection_pipeline : case :=
  {| c_proj := {| p_yaml := Absent; p_json := (Doc [("collection-pipeline", VInt (5)%Z)]); p_pyproject := Absent; p_dash := None; p_ignore_file := []; p_subdir := false |}; c_cmd := "pipeline"; c_unit := "collection-pipeline"; c_lang := "python"; c_fname := "case_src.py"; c_overrides := []; c_metrics := [("continues", (2)%Z)] |}.
Definition w_non_mapping_language_block_crashes : case :=
  {| c_proj := {| p_yaml := (Doc [("nesting", VMap [("python", VInt (5)%Z)])]); p_json := Absent; p_pyproject := Absent; p_dash := None; p_ignore_file := []; p_subdir := false |}; c_cmd := "nesting"; c_unit := "nesting"; c_lang := "python"; c_fname := "case_src.py"; c_overrides := []; c_metrics := [("depth", (6)%Z)] |}.

Theorem C05_language_block_value_not_validated_dry_refuted : run config_actual w_language_block_value_not_validated_dry <> spec w_language_block_value_not_validated_dry /\ run ideal w_language_block_value_not_validated_dry = spec w_language_block_value_not_validated_dry.
Proof. vm_compute. split; [discriminate|reflexivity]. Qed.

Theorem C05_non_mapping_section_crashes_collection_pipeline_refuted : run config_actual w_non_mapping_section_crashes_collection_pipeline <> spec w_non_mapping_section_crashes_collection_pipeline /\ run ideal w_non_mapping_section_crashes_collection_pipeline = spec w_non_mapping_section_crashes_collection_pipeline.
Proof. vm_compute. split; [discriminate|reflexivity]. Qed.

Theorem C05_non_mapping_language_block_crashes_refuted : run config_actual w_non_mapping_language_block_crashes <> spec w_non_mapping_language_block_crashes /\ run ideal w_non_mapping_language_block_crashes = spec w_non_mapping_language_block_crashes.
Proof. vm_compute. split; [discriminate|reflexivity]. Qed.

(* the outcomes themselves: the invalid block value is used (a report instead of exit 2); the crashes report nothing *)
Example C05_phase3_witness_outcomes :
  run config_actual w_language_block_value_not_validated_dry = Ran 1 /\ spec w_language_block_value_not_validated_dry = Exit2
  /\ run config_actual w_non_mapping_section_crashes_collection_pipeline = Ran 0 /\ spec w_non_mapping_section_crashes_collection_pipeline = Ran 1
  /\ run config_actual w_non_mapping_language_block_crashes = Ran 0 /\ spec w_non_mapping_language_block_crashes = Ran 1.
Proof. vm_compute. repeat split; reflexivity. Qed.
