(* Props/C13Known.v — property C13: the text-level steps of the current tree that are NOT invariant under the edits,
   each refuted by a concrete witness closed by computation (listed in /verif/known.d/C13.json under the same keys).
   The refutations of q_ts_loc_raw_span (fix c90fc92) and q_bom_kept (fix bbc2cf4) are gone: their witnesses are regression
   theorems of Props/C13.v now. *)
From TL Require Import Lib.Base Lib.GenTypes Model.PyStr Model.Edit.
From TL Require Import Gen.IgnoreGen Model.Ignore Model.IgnoreSpec Actual.IgnoreActual.
From TL Require Import Model.DryBase Model.DryPipe Gen.DryGen Model.Dry Actual.DryActual.
From TL Require Import Model.SrpTypes Gen.SrpGen Model.SrpSpec Model.Srp Actual.SrpActual.
From TL Require Import Gen.EditGen Model.EditRun Actual.EditActual.
From TL Require Import Proofs.EditDry Proofs.EditSrp Proofs.EditFacts.
From TL Require Import Model.DryFilter Model.EditFilter Proofs.EditFilterP Proofs.EditFilterK.

(* dry_raw_span_count: the size a DRY violation reports (and the overlap filter uses) is end - start + 1 *)
Theorem C13_dry_span_count_refuted : exists s e k, s <= k /\ k < e /\
  dry_line_count (shift_ins k s) (shift_ins k e) <> dry_line_count s e.
Proof. exact EditDry.dry_span_count_refuted. Qed.

(* f_kwarg_raw_lines: KeywordArgumentFilter takes the share of `name=value` lines among ALL raw lines of the block: a blank or a
   comment line inside three keyword arguments makes 3 of 3 into 3 of 4 < 80%, the block is no longer dropped *)
Theorem C13_kwarg_filter_blank_refuted :
  decisions fq_actual "#" logger_match EditFilterP.kw_file [(1, 6)] 2 4 = [true; false; false; false] /\
  decisions fq_actual "#" logger_match (ins 2 "" EditFilterP.kw_file) (calls_ins 2 [(1, 6)]) (shift_ins 2 2) (shift_ins 2 4) = [false; false; false; false] /\
  decisions fq_actual "#" logger_match (ins 2 "    # the defaults" EditFilterP.kw_file) (calls_ins 2 [(1, 6)]) (shift_ins 2 2) (shift_ins 2 4)
  = [false; false; false; false] /\
  decisions EditFilterP.fq_ideal "#" logger_match (ins 2 "    # the defaults" EditFilterP.kw_file) (calls_ins 2 [(1, 6)]) (shift_ins 2 2) (shift_ins 2 4)
  = [true; false; false; false].
Proof. exact EditFilterK.kwarg_blank_refuted. Qed.

(* f_reraise_counts_comments: a comment line between `except ..:` and `raise .. from ..` makes three lines of the pair *)
Theorem C13_reraise_filter_comment_refuted :
  decisions fq_actual "#" logger_match EditFilterK.rr_file [] 3 4 = [false; false; false; true] /\
  decisions fq_actual "#" logger_match (ins 3 "    # keep the cause" EditFilterK.rr_file) [] (shift_ins 3 3) (shift_ins 3 4) = [false; false; false; false] /\
  decisions EditFilterP.fq_ideal "#" logger_match (ins 3 "    # keep the cause" EditFilterK.rr_file) [] (shift_ins 3 3) (shift_ins 3 4) = [false; false; false; true].
Proof. exact EditFilterK.reraise_comment_refuted. Qed.

(* f_kwarg_trailing_ws: two spaces after `gamma =` (value on the next line) turn the line into a keyword-argument line: 3 of 5
   becomes 4 of 5 = 80%, the block is dropped *)
Theorem C13_kwarg_filter_trailing_ws_refuted :
  decisions fq_actual "#" logger_match EditFilterK.kw_file2 [(1, 7)] 2 6 = [false; false; false; false] /\
  decisions fq_actual "#" logger_match (upd 3 (fun l => (l ++ "  ")%string) EditFilterK.kw_file2) [(1, 7)] 2 6 = [true; false; false; false] /\
  Forall2 EditFilterP.ws_var EditFilterK.kw_file2 (upd 3 (fun l => (l ++ "  ")%string) EditFilterK.kw_file2).
Proof. exact EditFilterK.kwarg_trailing_ws_refuted. Qed.

(* q_splitlines_unicode: a form feed appended to line 1 (white space for every parser) moves the suppression parser's
   numbering of every later line: the same-line directive on line 2 no longer applies to the violation the parser reports on line 2 *)
Definition ff : string := String c12 EmptyString.
Theorem C13_trailing_formfeed_refuted :
  let f := ["import os"; "def f(a):  # thailint: ignore[nesting]"; "    return a"] in
  should_ignore ignore_actual false (join_lines f) 2 "nesting.excessive-depth" = true /\
  should_ignore ignore_actual false (join_lines (apply (TrailWS 0 ff) f)) (shift (TrailWS 0 ff) 2) "nesting.excessive-depth" = false.
Proof. vm_compute. split; reflexivity. Qed.

(* the claimed flags are what the source says (codec and splitting method read by Gen/EditGen.v) *)
Theorem C13_actual_follows_source :
  q_splitlines_unicode (e_ign edit_actual) = forallb (String.eqb "splitlines") ignore_line_splitters.
Proof. reflexivity. Qed.
