(* Props/C13Known.v — property C13: the text-level steps of the current tree that are NOT invariant under the edits,
   each refuted by a concrete witness closed by computation (listed in /verif/known.d/C13.json under the same keys). *)
From TL Require Import Lib.Base Lib.GenTypes Model.PyStr Model.Edit.
From TL Require Import Gen.IgnoreGen Model.Ignore Model.IgnoreSpec Actual.IgnoreActual.
From TL Require Import Model.DryBase Model.DryPipe Gen.DryGen Model.Dry Actual.DryActual.
From TL Require Import Model.SrpTypes Gen.SrpGen Model.SrpSpec Model.Srp Actual.SrpActual.
From TL Require Import Gen.EditGen Model.EditRun Actual.EditActual.
From TL Require Import Proofs.EditDry Proofs.EditSrp Proofs.EditFacts.

(* q_ts_loc_raw_span: a blank line inside a TypeScript class adds one to its reported lines of code *)
Theorem C13_ts_loc_insert_refuted : exists lines c k x,
  is_code x = false /\ k <= List.length lines /\
  ts_count_loc srp_actual (ins k x lines) (EditSrp.shift_cls k c) <> ts_count_loc srp_actual lines c.
Proof. exact EditSrp.ts_loc_insert_refuted. Qed.

(* dry_raw_span_count: the size a DRY violation reports (and the overlap filter uses) is end - start + 1 *)
Theorem C13_dry_span_count_refuted : exists s e k, s <= k /\ k < e /\
  dry_line_count (shift_ins k s) (shift_ins k e) <> dry_line_count s e.
Proof. exact EditDry.dry_span_count_refuted. Qed.

(* q_bom_kept: U+FEFF in front of `import os` makes the import line a token *)
Theorem C13_dry_bom_refuted :
  let f := ["import os"; "x = 1"; "y = 2"] in
  DryPipe.tokenize (model_aparams dry_actual DPy) (map (EditDry.raw_aline false) (apply AddBOM f))
  <> DryPipe.tokenize (model_aparams dry_actual DPy) (map (EditDry.raw_aline false) f).
Proof. exact EditDry.dry_bom_refuted. Qed.

(* q_splitlines_unicode: a form feed appended to line 1 (white space for every parser) moves the suppression parser's
   numbering of every later line: the same-line directive on line 2 no longer applies to the violation the parser reports on line 2 *)
Definition ff : string := String c12 EmptyString.
Theorem C13_trailing_formfeed_refuted :
  let f := ["import os"; "def f(a):  # thailint: ignore[nesting]"; "    return a"] in
  should_ignore ignore_actual false (join_lines f) 2 "nesting.excessive-depth" = true /\
  should_ignore ignore_actual false (join_lines (apply (TrailWS 0 ff) f)) (shift (TrailWS 0 ff) 2) "nesting.excessive-depth" = false.
Proof. vm_compute. split; reflexivity. Qed.

(* q_bom_kept: U+FEFF in front of a block directive on line 1: the comment-prefix test of has_ignore_start_marker fails *)
Theorem C13_bom_hides_first_line_directive_refuted :
  let f := ["// thailint: ignore-start nesting"; "function g(x) {"; "// thailint: ignore-end"] in
  should_ignore ignore_actual false (join_lines f) 2 "nesting.excessive-depth" = true /\
  should_ignore ignore_actual false (join_lines (apply AddBOM f)) (shift AddBOM 2) "nesting.excessive-depth" = false.
Proof. vm_compute. split; reflexivity. Qed.

(* the claimed flags are what the source says (codec and splitting method read by Gen/EditGen.v) *)
Theorem C13_actual_follows_source :
  e_bom_kept edit_actual = negb (String.eqb file_read_encoding "utf-8-sig") /\
  q_splitlines_unicode (e_ign edit_actual) = forallb (String.eqb "splitlines") ignore_line_splitters.
Proof. split; reflexivity. Qed.
