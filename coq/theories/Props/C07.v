(* Props/C07.v — property C07: `--parallel` reports exactly what the sequential run reports.
   Statements only, each closed by `exact <lemma>`, with their Print Assumptions.
   The orchestrator model is parametric in the rules: `perfile f` is what lint_file reports for f
   in a fresh process (None = it raises), `collect`/`report` is any cross-file analysis (evidence
   gathered by check(), reported by finalize()).  Schedules: `mw` is the max_workers argument,
   `cpu` the core count, `sched` the order in which the futures complete. *)
From Coq Require Import Permutation.
From TL Require Import Lib.Base Lib.GenTypes Model.OrchParTypes Gen.OrchParGen Model.OrchPar
     Proofs.OrchParDict Proofs.OrchParMain.

Section C07.
  Variables file evidence : Type.
  Variable perfile : file -> option (list violation).
  Variable collect : file -> evidence.
  Variable report : list evidence -> list violation.
  (* domain: rules report Violation objects; without evidence there is no cross-file finding *)
  Hypothesis perfile_wf : forall f vs, perfile f = Some vs -> forallb wf_violation vs = true.
  Hypothesis report_nil : report [] = [].

  (* 1. every field of every violation survives to_dict / pickling / from_dict *)
  Theorem C07_dict_roundtrip : forall v, wf_violation v = true -> roundtrip v = Some v.
  Proof. exact dict_roundtrip. Qed.

  Theorem C07_dict_roundtrip_fields : forall v v' f,
    wf_violation v = true -> roundtrip v = Some v' -> assoc f v' = assoc f v.
  Proof. exact dict_roundtrip_fields. Qed.

  (* 2. MAIN (full statement): for every quirk vector with the two defects absent, every worker count,
        core count, completion order and file list, the parallel run yields the multiset of the
        sequential run, and raises iff it raises *)
  Theorem C07_parallel_equals_sequential : forall q mw cpu sched files,
    q_par_crossfile_lost q = false -> q_worker_swallows_errors q = false ->
    Permutation sched (seq 0 (List.length files)) ->
    out_equiv (par_run file evidence perfile collect report q mw cpu sched files)
              (seq_run file evidence perfile collect report files).
  Proof. exact (par_equals_seq_flags file evidence perfile collect report perfile_wf report_nil). Qed.

  (* the same with the error flag on, once the worker and the future extraction re-raise what
     _safe_check_rule re-raises (`swallows q` is computed from the flag and the generated handler tables) *)
  Theorem C07_parallel_equals_sequential_gen : forall q mw cpu sched files,
    q_par_crossfile_lost q = false -> swallows q = false ->
    Permutation sched (seq 0 (List.length files)) ->
    out_equiv (par_run file evidence perfile collect report q mw cpu sched files)
              (seq_run file evidence perfile collect report files).
  Proof. exact (par_equals_seq file evidence perfile collect report perfile_wf report_nil). Qed.

  (* 3. schedule independence holds for EVERY vector, the one of the current tree included *)
  Theorem C07_schedule_independent : forall q mw cpu s1 s2 files,
    Permutation s1 (seq 0 (List.length files)) -> Permutation s2 (seq 0 (List.length files)) ->
    out_equiv (par_run file evidence perfile collect report q mw cpu s1 files)
              (par_run file evidence perfile collect report q mw cpu s2 files).
  Proof. exact (par_schedule_independent file evidence perfile collect report). Qed.

  Theorem C07_perfile_complete : forall q mw cpu sched files vss,
    Permutation sched (seq 0 (List.length files)) -> mapM perfile files = Some vss ->
    exists rest, out_equiv (par_run file evidence perfile collect report q mw cpu sched files) (Some (List.concat vss ++ rest)).
  Proof. exact (par_perfile_complete file evidence perfile collect report perfile_wf). Qed.

  (* 4. the faithful vector: parallel = sequential exactly when the sequential fallback is taken
        (fewer than 2 x workers files), or no file raises and there is no cross-file finding *)
  Theorem C07_actual_equals_sequential_iff : forall q mw cpu sched files,
    q_par_crossfile_lost q = true -> swallows q = true ->
    Permutation sched (seq 0 (List.length files)) ->
    (out_equiv (par_run file evidence perfile collect report q mw cpu sched files)
               (seq_run file evidence perfile collect report files)
     <-> (List.length files < effective_workers mw cpu * 2
          \/ (mapM perfile files <> None /\ report (map collect files) = []))).
  Proof. exact (par_actual_equals_seq_iff file evidence perfile collect report perfile_wf report_nil). Qed.

  Theorem C07_actual_partial : forall q mw cpu sched files,
    q_par_crossfile_lost q = true -> swallows q = true ->
    Permutation sched (seq 0 (List.length files)) ->
    mapM perfile files <> None -> report (map collect files) = [] ->
    out_equiv (par_run file evidence perfile collect report q mw cpu sched files)
              (seq_run file evidence perfile collect report files).
  Proof. exact (par_actual_partial file evidence perfile collect report perfile_wf report_nil). Qed.

  Theorem C07_crossfile_lost_iff : forall q mw cpu sched files vss,
    q_par_crossfile_lost q = true -> mapM perfile files = Some vss ->
    Permutation sched (seq 0 (List.length files)) ->
    (out_equiv (par_run file evidence perfile collect report q mw cpu sched files)
               (seq_run file evidence perfile collect report files)
     <-> (List.length files < effective_workers mw cpu * 2 \/ report (map collect files) = [])).
  Proof. exact (par_crossfile_lost_iff file evidence perfile collect report perfile_wf report_nil). Qed.

  Theorem C07_errors_swallowed : forall q mw cpu sched files,
    swallows q = true -> mapM perfile files = None ->
    effective_workers mw cpu * 2 <= List.length files ->
    seq_run file evidence perfile collect report files = None
    /\ par_run file evidence perfile collect report q mw cpu sched files <> None.
  Proof. exact (par_swallows_errors file evidence perfile collect report perfile_wf). Qed.
End C07.

(* 5. equal multisets: equal command output (any rule-id filter) and equal exit status *)
Theorem C07_cli_output_equiv : forall cmd a b, out_equiv a b -> out_equiv (cli_view cmd a) (cli_view cmd b).
Proof. exact cli_view_equiv. Qed.

Theorem C07_exit_code_equal : forall cmd a b, out_equiv a b -> exit_code cmd a = exit_code cmd b.
Proof. exact exit_code_equiv. Qed.

(* the worker count actually used, and the literals the statements above rest on *)
Theorem C07_effective_workers : forall n cpu,
  effective_workers (Some (S n)) cpu = S n /\ effective_workers None cpu = Nat.min default_max_workers cpu.
Proof. intros n cpu. exact (conj (effective_workers_explicit n cpu) (effective_workers_default cpu)). Qed.

Print Assumptions C07_dict_roundtrip.
Print Assumptions C07_dict_roundtrip_fields.
Print Assumptions C07_parallel_equals_sequential.
Print Assumptions C07_parallel_equals_sequential_gen.
Print Assumptions C07_schedule_independent.
Print Assumptions C07_perfile_complete.
Print Assumptions C07_actual_equals_sequential_iff.
Print Assumptions C07_actual_partial.
Print Assumptions C07_crossfile_lost_iff.
Print Assumptions C07_errors_swallowed.
Print Assumptions C07_cli_output_equiv.
Print Assumptions C07_exit_code_equal.
Print Assumptions C07_effective_workers.

(* non-vacuity: six files, three workers (threshold six), a per-file finding in each file and no
   cross-file finding: domain hypotheses hold, the worker pool is really used, and the faithful model
   returns the sequential multiset in the order of the schedule *)
Definition ex_v (n : nat) : violation :=
  [("rule_id", VStr "nesting.excessive-depth"); ("file_path", VStr "a.py"); ("line", VInt false n); ("column", VInt false 0);
   ("message", VStr "m"); ("severity", VEnum "Severity" "ERROR"); ("suggestion", VStr "s")].
Example C07_nonvacuous :
  forallb wf_violation (map ex_v [0;1;2;3;4;5]) = true
  /\ below_threshold nat (Some 3) 16 [0;1;2;3;4;5] = false
  /\ par_run nat nat (fun f => Some [ex_v f]) (fun f => f) (fun _ => []) {| q_par_crossfile_lost := true; q_worker_swallows_errors := true |}
       (Some 3) 16 [5;3;1;0;2;4] [0;1;2;3;4;5] = Some (map ex_v [5;3;1;0;2;4])
  /\ seq_run nat nat (fun f => Some [ex_v f]) (fun f => f) (fun _ => []) [0;1;2;3;4;5] = Some (map ex_v [0;1;2;3;4;5]).
Proof. vm_compute. repeat split; reflexivity. Qed.
