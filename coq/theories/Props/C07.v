(* Props/C07.v — property C07: `--parallel` reports exactly what the sequential run reports.
   Statements only, each closed by `exact <lemma>`, with their Print Assumptions.
   The orchestrator model is parametric in the rules: `perfile f` is what lint_file reports for f
   in a fresh process (None = it raises), `collect`/`report` is any cross-file analysis (evidence
   gathered by check(), reported by finalize()).  Schedules: `mw` is the max_workers argument,
   `cpu` the core count, `sched` the order in which the futures complete. *)
From Coq Require Import Permutation.
From TL Require Import Lib.Base Lib.GenTypes Model.OrchParTypes Gen.OrchParGen Model.OrchPar Model.OrchParPool Proofs.OrchParPool
     Model.OrchParRules Proofs.OrchParRules Model.OrchParSched Proofs.OrchParSched Proofs.OrchParDict Proofs.OrchParMain Actual.OrchParActual Proofs.OrchParRegress.

Section C07.
  Variables file evidence : Type.
  Variable perfile : file -> option (list violation).
  Variable collect : file -> evidence.
  Variable report : list evidence -> list violation.
  Variable parent_sees : file -> bool.   (* the parent's evidence loop lets the file through its exclusion / ignore test *)
  (* domain: rules report Violation objects; without evidence there is no cross-file finding *)
  Hypothesis perfile_wf : forall f vs, perfile f = Some vs -> forallb wf_violation vs = true.
  Hypothesis report_nil : report [] = [].

  (* 1. every field of every violation survives to_dict / pickling / from_dict *)
  Theorem C07_dict_roundtrip : forall v, wf_violation v = true -> roundtrip v = Some v.
  Proof. exact dict_roundtrip. Qed.

  Theorem C07_dict_roundtrip_fields : forall v v' f,
    wf_violation v = true -> roundtrip v = Some v' -> assoc f v' = assoc f v.
  Proof. exact dict_roundtrip_fields. Qed.

  (* 2. MAIN, for the FAITHFUL model: every quirk vector, NO flag hypothesis and no side condition.  The repaired
        source gathers the cross-file evidence in the parent, decides built-in exclusion there on the same path
        expression as lint_file, and lets configuration errors surface; the three facts are read from the generated
        layer (a reverting patch breaks this proof).  For every max_workers, core count, completion order and file
        list the parallel run yields the multiset of the sequential run and raises iff it raises. *)
  Theorem C07_parallel_equals_sequential : forall q mw cpu sched files,
    Permutation sched (seq 0 (List.length files)) ->
    out_equiv (par_run file evidence perfile collect report parent_sees q mw cpu sched files)
              (seq_run file evidence perfile collect report files).
  Proof. exact (par_equals_seq_source file evidence perfile collect report parent_sees perfile_wf report_nil). Qed.

  Theorem C07_parallel_equals_sequential_flag_off : forall q mw cpu sched files,
    q_parent_evidence_raw_path q = false ->
    Permutation sched (seq 0 (List.length files)) ->
    out_equiv (par_run file evidence perfile collect report parent_sees q mw cpu sched files)
              (seq_run file evidence perfile collect report files).
  Proof. exact (par_equals_seq_flag_off file evidence perfile collect report parent_sees perfile_wf report_nil). Qed.

  (* the general form the two above are instances of (also covers a source that does not gather evidence / swallows) *)
  Theorem C07_parallel_equals_sequential_gen : forall q mw cpu sched files,
    crossfile_lost q = false -> swallows q = false ->
    (parent_restricts q = false \/ forall f, In f files -> parent_sees f = true) ->
    Permutation sched (seq 0 (List.length files)) ->
    out_equiv (par_run file evidence perfile collect report parent_sees q mw cpu sched files)
              (seq_run file evidence perfile collect report files).
  Proof. exact (par_equals_seq file evidence perfile collect report parent_sees perfile_wf report_nil). Qed.

  (* 2b. the directory entry points lint_directory / lint_directory_parallel, recursive or not *)
  Theorem C07_directory_parallel_equals_sequential : forall (dir : Type) (walk : dir -> bool -> list file) q mw cpu sched d recursive,
    Permutation sched (seq 0 (List.length (walk d recursive))) ->
    out_equiv (dir_par_run file evidence dir perfile collect report parent_sees walk q mw cpu sched d recursive)
              (dir_seq_run file evidence dir perfile collect report walk d recursive).
  Proof. exact (dir_par_equals_dir_seq file evidence perfile collect report parent_sees perfile_wf report_nil). Qed.

  (* 2c. any set of files and directories on one command line: the file targets form a group, each directory another;
         every group runs on its own pool with its own completion order *)
  Theorem C07_targets_parallel_equals_sequential : forall q mw cpu scheds groups,
    Forall2 (fun s g => Permutation s (seq 0 (List.length g))) scheds groups ->
    out_equiv (groups_par_run file evidence perfile collect report parent_sees q mw cpu scheds groups)
              (groups_seq_run file evidence perfile collect report groups).
  Proof. exact (groups_par_equals_groups_seq file evidence perfile collect report parent_sees perfile_wf report_nil). Qed.

  (* 3. schedule independence holds for EVERY vector *)
  Theorem C07_schedule_independent : forall q mw cpu s1 s2 files,
    Permutation s1 (seq 0 (List.length files)) -> Permutation s2 (seq 0 (List.length files)) ->
    out_equiv (par_run file evidence perfile collect report parent_sees q mw cpu s1 files)
              (par_run file evidence perfile collect report parent_sees q mw cpu s2 files).
  Proof. exact (par_schedule_independent file evidence perfile collect report parent_sees). Qed.

  Theorem C07_perfile_complete : forall q mw cpu sched files vss,
    Permutation sched (seq 0 (List.length files)) -> mapM perfile files = Some vss ->
    exists rest, out_equiv (par_run file evidence perfile collect report parent_sees q mw cpu sched files) (Some (List.concat vss ++ rest)).
  Proof. exact (par_perfile_complete file evidence perfile collect report parent_sees perfile_wf). Qed.

End C07.

(* 4. THE POOL: a worker process serves several files and keeps process-level state between them (`step s f` =
      lint_file for f in a worker whose state is s; `assign` = which worker takes which task).  If the outcome for
      a file does not depend on that state (validated by the worker-history stream of the check), the pooled run
      IS the fresh-process-per-file run, so the assignment of files to workers does not matter and the main theorem
      holds for the pooled run. *)
Section C07Pool.
  Variables file evidence wstate : Type.
  Variable step : wstate -> file -> option (list violation) * wstate.
  Variable init : wstate.
  Variable collect : file -> evidence.
  Variable report : list evidence -> list violation.
  Variable parent_sees : file -> bool.
  Hypothesis state_irrelevant : forall s f, fst (step s f) = fst (step init f).

  Theorem C07_pooled_is_fresh : forall q mw cpu assign sched files,
    par_run_pooled file evidence wstate step init collect report parent_sees q mw cpu assign sched files
    = par_run file evidence (fresh_perfile file wstate step init) collect report parent_sees q mw cpu sched files.
  Proof. exact (pooled_is_fresh file evidence wstate step init collect report parent_sees state_irrelevant). Qed.

  Theorem C07_assignment_independent : forall q mw cpu a1 a2 sched files,
    par_run_pooled file evidence wstate step init collect report parent_sees q mw cpu a1 sched files
    = par_run_pooled file evidence wstate step init collect report parent_sees q mw cpu a2 sched files.
  Proof. exact (assignment_independent file evidence wstate step init collect report parent_sees state_irrelevant). Qed.

  Hypothesis perfile_wf : forall f vs, fresh_perfile file wstate step init f = Some vs -> forallb wf_violation vs = true.
  Hypothesis report_nil : report [] = [].

  Theorem C07_pooled_equals_sequential : forall q mw cpu assign sched files,
    Permutation sched (seq 0 (List.length files)) ->
    out_equiv (par_run_pooled file evidence wstate step init collect report parent_sees q mw cpu assign sched files)
              (seq_run file evidence (fresh_perfile file wstate step init) collect report files).
  Proof. exact (pooled_equals_seq file evidence wstate step init collect report parent_sees state_irrelevant perfile_wf report_nil). Qed.
End C07Pool.

(* the hypothesis of 4 is necessary *)
Theorem C07_stateful_worker_breaks_assignment_independence :
  par_run_pooled nat nat nat cnt_step 0 (fun f => f) (fun _ => []) (fun _ => true) ideal (Some 1) 16 [0;0] [0;1] [0;1]
  <> par_run_pooled nat nat nat cnt_step 0 (fun f => f) (fun _ => []) (fun _ => true) ideal (Some 1) 16 [0;1] [0;1] [0;1].
Proof. exact stateful_worker_breaks_assignment_independence. Qed.

(* 4a. THE POOL AS A MACHINE: k worker processes, a FIFO call queue, and the events "idle worker w takes the next task" /
       "the future of running task t completes" in ANY interleaving (Model/OrchParSched.v).  Every execution of the machine
       is a pooled run of 4: its log is an assignment of the tasks to the workers and a completion order that is a
       permutation of the tasks.  Hence the two lists the statements above quantify over cover every schedule of the pool. *)
Section C07Machine.
  Variables file evidence wstate : Type.
  Variable step : wstate -> file -> option (list violation) * wstate.
  Variable init : wstate.
  Variable collect : file -> evidence.
  Variable report : list evidence -> list violation.
  Variable parent_sees : file -> bool.

  Theorem C07_machine_is_pooled : forall q mw cpu trace files out,
    machine_par_run file evidence wstate step init collect report parent_sees q mw cpu trace files = Some out ->
    exists assign sched,
      Permutation sched (seq 0 (List.length files)) /\ List.length assign = List.length files
      /\ out = par_run_pooled file evidence wstate step init collect report parent_sees q mw cpu assign sched files.
  Proof. exact (machine_is_pooled file evidence wstate step init collect report parent_sees). Qed.

  (* not vacuous for any input: a pool with at least one worker always has an execution *)
  Theorem C07_machine_has_execution : forall q mw cpu files,
    0 < effective_workers mw cpu ->
    exists trace out, machine_par_run file evidence wstate step init collect report parent_sees q mw cpu trace files = Some out.
  Proof. exact (machine_has_execution file evidence wstate step init collect report parent_sees). Qed.

  Hypothesis state_irrelevant : forall s f, fst (step s f) = fst (step init f).
  Hypothesis perfile_wf : forall f vs, fresh_perfile file wstate step init f = Some vs -> forallb wf_violation vs = true.
  Hypothesis report_nil : report [] = [].

  Theorem C07_machine_equals_sequential : forall q mw cpu trace files out,
    machine_par_run file evidence wstate step init collect report parent_sees q mw cpu trace files = Some out ->
    out_equiv out (seq_run file evidence (fresh_perfile file wstate step init) collect report files).
  Proof. exact (machine_equals_seq file evidence wstate step init collect report parent_sees state_irrelevant perfile_wf report_nil). Qed.
End C07Machine.

(* the machine runs (two workers, four tasks, out-of-order completion) and rejects traces that are not executions *)
Theorem C07_machine_runs :
  machine_par_run nat nat nat sch_step 0 (fun f => f) (fun _ => []) (fun _ => true) ideal (Some 2) 16
    [EStart 0; EStart 1; EFinish 1; EStart 1; EFinish 0; EStart 0; EFinish 3; EFinish 2] [10; 11; 12; 13]
  = Some (Some (map sch_v [11; 10; 13; 12]))
  /\ machine_par_run nat nat nat sch_step 0 (fun f => f) (fun _ => []) (fun _ => true) ideal (Some 2) 16
       [EStart 0; EStart 0; EFinish 0; EFinish 1; EStart 0; EFinish 2; EStart 1; EFinish 3] [10; 11; 12; 13] = None
  /\ machine_par_run nat nat nat sch_step 0 (fun f => f) (fun _ => []) (fun _ => true) ideal (Some 2) 16
       [EStart 0; EStart 1; EFinish 1; EFinish 0] [10; 11; 12; 13] = None.
Proof. exact machine_runs. Qed.

(* 4b. RULE INSTANCES: the tables perfile / collect / report of the statements above are not primitive.  Model/OrchParRules.v
       computes both runs from a registry of STATEFUL rule objects along lint_file (two skip tests, every registered rule
       through _safe_check_rule), _execute_rules, the finalize loops, the per-task fresh Orchestrator and the parent's
       _collect_cross_file_evidence (only the instances whose class overrides finalize are fed, what they return is
       discarded; Gen parent_rule_selection / base_finalize_result).  If what check() REPORTS for a file does not depend on
       what the instance has seen before (what it STORES may: DRY, stringly-typed), the two runs ARE the table-level runs,
       and lint_files_parallel = lint_files for every registry, every quirk vector, worker count, completion order and file
       list.  The hypothesis is validated by the rule-level stream of the check, and it is necessary. *)
Section C07Rules.
  Variables file rstate : Type.
  Variable excluded ignored : file -> bool.
  Variable rules : list (rule file rstate).
  Variable parent_sees : file -> bool.
  Hypothesis rules_local : Forall (report_local file rstate) rules.
  (* a new registry reports nothing from finalize (lint_files finalizes an EMPTY registry when no file got as far as the
     rules - discovery is lazy -, the parallel run a discovered one) *)
  Hypothesis fresh_finalize_nil : forall r g, In r rules -> r_finalize _ _ r = Some g -> g (r_init _ _ r) = [].

  Theorem C07_rules_sequential_refines : forall files,
    rseq_run file rstate excluded ignored rules files
    = seq_run file file (r_perfile file rstate excluded ignored rules) (fun f => f) (r_report file rstate excluded ignored rules) files.
  Proof. exact (rseq_refines file rstate excluded ignored rules rules_local fresh_finalize_nil). Qed.

  Hypothesis rules_wf : forall r f vs, In r rules -> fst (r_check _ _ r (r_init _ _ r) f) = COk vs -> forallb wf_violation vs = true.

  Theorem C07_rules_parallel_refines : forall q mw cpu sched files,
    swallows q = false -> parent_restricts q = false ->
    rpar_run file rstate excluded ignored rules parent_sees q mw cpu sched files
    = par_run file file (r_perfile file rstate excluded ignored rules) (fun f => f) (r_report file rstate excluded ignored rules)
              parent_sees q mw cpu sched files.
  Proof. exact (rpar_refines file rstate excluded ignored rules parent_sees rules_local fresh_finalize_nil rules_wf). Qed.

  Theorem C07_rules_parallel_equals_sequential : forall q mw cpu sched files,
    Permutation sched (seq 0 (List.length files)) ->
    out_equiv (rpar_run file rstate excluded ignored rules parent_sees q mw cpu sched files)
              (rseq_run file rstate excluded ignored rules files).
  Proof. exact (rules_par_equals_seq file rstate excluded ignored rules parent_sees rules_local fresh_finalize_nil rules_wf). Qed.
End C07Rules.

(* for the cross-file rules themselves the locality hypothesis follows from the source: every class that overrides finalize
   has a check() that returns [] on every path (generated census, DRYRule and StringlyTypedRule) *)
Theorem C07_silent_rule_local : forall (file rstate : Type) (r : rule file rstate),
  (forall s f, fst (r_check _ _ r s f) = COk []) -> report_local file rstate r.
Proof. exact silent_rule_local. Qed.

Theorem C07_crossfile_rules_census :
  forallb (fun c : string * bool => snd c) crossfile_checks_silent = true
  /\ map fst crossfile_checks_silent = ["DRYRule"; "StringlyTypedRule"].
Proof. exact (proj2 (proj2 (proj2 (proj2 (proj2 (proj2 (proj2 (proj2 rules_facts)))))))). Qed.

(* the locality hypothesis of 4b is necessary: a rule that reports in check() a file whose content its instance has seen *)
Theorem C07_nonlocal_rule_breaks_parallel :
  rseq_run nat (list nat) (fun _ => false) (fun _ => false) [seen_rule] [7; 7] = Some [seen_v 7]
  /\ rpar_run nat (list nat) (fun _ => false) (fun _ => false) [seen_rule] (fun _ => true) ideal (Some 1) 16 [0; 1] [7; 7] = Some [].
Proof. exact nonlocal_rule_breaks_parallel. Qed.

Theorem C07_rules_nonvacuous :
  rseq_run nat (list nat) (Nat.eqb 2) (Nat.eqb 4) ex_rules [0;1;2;3;4;5;6]
  = Some (map pf_v [0;1;3;5;6] ++ map cf_v [0;1;3;5;6])
  /\ rpar_run nat (list nat) (Nat.eqb 2) (Nat.eqb 4) ex_rules (fun _ => true) ideal (Some 3) 16 [6;5;4;3;2;1;0] [0;1;2;3;4;5;6]
     = Some (map pf_v [6;5;3;1;0] ++ map cf_v [0;1;3;5;6])
  /\ below_threshold nat (Some 3) 16 [0;1;2;3;4;5;6] = false.
Proof. exact rules_nonvacuous. Qed.

(* 5. equal multisets: equal command output (any rule-id filter) and equal exit status *)
Theorem C07_cli_output_equiv : forall cmd a b, out_equiv a b -> out_equiv (cli_view cmd a) (cli_view cmd b).
Proof. exact cli_view_equiv. Qed.

Theorem C07_exit_code_equal : forall cmd a b, out_equiv a b -> exit_code cmd a = exit_code cmd b.
Proof. exact exit_code_equiv. Qed.

(* 6. regression: the witnesses of the repaired findings (known.d: "fixed") meet the specification under the
      faithful vector - four files sharing a block with two workers; an invalid configuration value *)
Theorem C07_crossfile_regression :
  par_run nat nat (fun _ => Some []) (fun f => f) w_report all_seen orchpar_actual (Some 2) 16 [3;1;0;2] [0;1;2;3]
  = seq_run nat nat (fun _ => Some []) (fun f => f) w_report [0;1;2;3]
  /\ seq_run nat nat (fun _ => Some []) (fun f => f) w_report [0;1;2;3] = Some (map dup [0;1;2;3])
  /\ crossfile_lost orchpar_actual = false.
Proof. exact crossfile_regression. Qed.

Theorem C07_errors_regression :
  par_run nat nat (fun _ => None) (fun f => f) (fun _ => []) all_seen orchpar_actual (Some 1) 16 [1;0] [0;1] = None
  /\ seq_run nat nat (fun _ => None) (fun f => f) (fun _ => []) [0;1] = None
  /\ exit_code (FStartsWith "dry.", 1, 0) (par_run nat nat (fun _ => None) (fun f => f) (fun _ => []) all_seen orchpar_actual (Some 1) 16 [1;0] [0;1]) = 2
  /\ swallows orchpar_actual = false.
Proof. exact errors_regression. Qed.

Theorem C07_parent_evidence_regression :
  par_run nat nat (fun _ => Some []) (fun f => f) w_report none_seen orchpar_actual (Some 2) 16 [3;1;0;2] [0;1;2;3]
  = seq_run nat nat (fun _ => Some []) (fun f => f) w_report [0;1;2;3]
  /\ parent_restricts orchpar_actual = false.
Proof. exact parent_evidence_regression. Qed.

(* the worker count actually used, and the literals the statements above rest on *)
Theorem C07_effective_workers : forall n cpu,
  effective_workers (Some (S n)) cpu = S n /\ effective_workers None cpu = Nat.min default_max_workers cpu.
Proof. intros n cpu. exact (conj (effective_workers_explicit n cpu) (effective_workers_default cpu)). Qed.

Print Assumptions C07_dict_roundtrip.
Print Assumptions C07_dict_roundtrip_fields.
Print Assumptions C07_parallel_equals_sequential.
Print Assumptions C07_parallel_equals_sequential_flag_off.
Print Assumptions C07_parallel_equals_sequential_gen.
Print Assumptions C07_directory_parallel_equals_sequential.
Print Assumptions C07_targets_parallel_equals_sequential.
Print Assumptions C07_schedule_independent.
Print Assumptions C07_perfile_complete.
Print Assumptions C07_pooled_is_fresh.
Print Assumptions C07_assignment_independent.
Print Assumptions C07_pooled_equals_sequential.
Print Assumptions C07_stateful_worker_breaks_assignment_independence.
Print Assumptions C07_machine_is_pooled.
Print Assumptions C07_machine_has_execution.
Print Assumptions C07_machine_equals_sequential.
Print Assumptions C07_machine_runs.
Print Assumptions C07_rules_sequential_refines.
Print Assumptions C07_rules_parallel_refines.
Print Assumptions C07_rules_parallel_equals_sequential.
Print Assumptions C07_silent_rule_local.
Print Assumptions C07_crossfile_rules_census.
Print Assumptions C07_nonlocal_rule_breaks_parallel.
Print Assumptions C07_rules_nonvacuous.
Print Assumptions C07_cli_output_equiv.
Print Assumptions C07_exit_code_equal.
Print Assumptions C07_crossfile_regression.
Print Assumptions C07_errors_regression.
Print Assumptions C07_parent_evidence_regression.
Print Assumptions C07_effective_workers.

(* non-vacuity: six files, three workers (threshold six), a per-file finding in each
   file and a cross-file finding per file: domain hypotheses hold, the worker pool is really used, and the faithful
   model returns the per-file findings in the order of the schedule followed by the parent's cross-file report *)
Definition ex_v (n : nat) : violation :=
  [("rule_id", VStr "nesting.excessive-depth"); ("file_path", VStr "a.py"); ("line", VInt false n); ("column", VInt false 0);
   ("message", VStr "m"); ("severity", VEnum "Severity" "ERROR"); ("suggestion", VStr "s")].
Definition ex_dup (f : nat) : violation :=
  [("rule_id", VStr "dry.duplicate-code"); ("file_path", VStr "a.py"); ("line", VInt false f); ("column", VInt false 1);
   ("message", VStr "d"); ("severity", VEnum "Severity" "ERROR"); ("suggestion", VNone)].
Example C07_nonvacuous :
  forallb wf_violation (map ex_v [0;1;2;3;4;5]) = true
  /\ below_threshold nat (Some 3) 16 [0;1;2;3;4;5] = false
  /\ par_run nat nat (fun f => Some [ex_v f]) (fun f => f) (map ex_dup) (fun _ => true)
       {| q_par_crossfile_lost := true; q_parent_evidence_raw_path := true; q_worker_swallows_errors := true |}
       (Some 3) 16 [5;3;1;0;2;4] [0;1;2;3;4;5] = Some (map ex_v [5;3;1;0;2;4] ++ map ex_dup [0;1;2;3;4;5])
  /\ seq_run nat nat (fun f => Some [ex_v f]) (fun f => f) (map ex_dup) [0;1;2;3;4;5]
     = Some (map ex_v [0;1;2;3;4;5] ++ map ex_dup [0;1;2;3;4;5]).
Proof. vm_compute. repeat split; reflexivity. Qed.
