(* Props/C09.v — property C09 (results do not depend on how paths are spelled or where the project lives).
   Only statements closed by `exact <lemma>` and their Print Assumptions.
   Model: Model/PathLoc.v (paths = component lists + absolute flag, every path predicate as the code applies it,
   tables and predicate idioms from Gen/PathLocGen.v).  Specification: spec_file / spec_result — every decision is
   taken on the path inside the project. *)
From TL Require Import Lib.Base Lib.GenTypes Model.PathLocTypes Gen.PathLocGen Model.PathLoc Model.PathLocRun
     Actual.PathLocActual Proofs.PathLocStr Proofs.PathLocMain.

(* Since the fix: commits b20520c (exclusion on the path inside the project) and 12368d4 (file-placement re-roots relative paths)
   `flags_off` guards only the four quirks that are still present: q_excl_all_parts and q_fp_relative_unchanged may have any value. *)
(* 1. Flags off: for EVERY prefix `lead`, absolute or relative spelling (including ".."-spellings, through `resolve`),
      working directory and linter command, the violations of a file are those decided on its path inside the project. *)
Theorem C09_location_independent : forall q e sg cfg ab lead rel lg raw,
  flags_off q -> rel <> [] ->
  resolve (e_cwd e) (GP ab (lead ++ rel)) = e_root e ++ rel ->
  file_result q e sg cfg {| f_given := GP ab (lead ++ rel); f_lang := lg; f_raw := raw |}
  = spec_file (e_root_pats e) sg cfg {| s_rel := rel; s_lang := lg; s_raw := raw |}.
Proof. exact file_location_independent. Qed.
Print Assumptions C09_location_independent.

(* the same for ANY spelling that resolves to the file, e.g. `mod.py` / `../mod.py` typed in a sub-directory of the project *)
Theorem C09_location_independent_any_spelling : forall q e sg cfg g rel lg raw,
  flags_off q -> name_of (g_parts g) = name_of rel ->
  resolve (e_cwd e) g = e_root e ++ rel ->
  file_result q e sg cfg {| f_given := g; f_lang := lg; f_raw := raw |}
  = spec_file (e_root_pats e) sg cfg {| s_rel := rel; s_lang := lg; s_raw := raw |}.
Proof. exact file_location_independent_gen. Qed.
Print Assumptions C09_location_independent_any_spelling.

Theorem C09_run_location_independent : forall q e sg cfg files sfiles,
  flags_off q -> Forall2 (denotes e) files sfiles ->
  run_result q e sg cfg files = spec_result (e_root_pats e) sg cfg sfiles.
Proof. exact run_location_independent. Qed.
Print Assumptions C09_run_location_independent.

(* the cross-file rules (gate = false: duplicate code, the ignore list filters violations only; gate = true: stringly-typed, an
   ignored file is not analysed and is nobody's partner): which files take part, which texts have a partner and which violations survive the
   linter's ignore list are all decided on the paths inside the project - for the sequential and the --parallel run alike
   (the model does not distinguish them; validated by correspondence) *)
Theorem C09_cross_file_location_independent : forall gate q e sg cfg files sfiles,
  flags_off q -> Forall2 (denotes e) files sfiles ->
  xfile_result gate q e sg cfg files = xfile_spec gate (e_root_pats e) sg cfg sfiles.
Proof. exact xfile_location_independent. Qed.
Print Assumptions C09_cross_file_location_independent.

Theorem C09_cross_file_judge_evaluates_the_model : forall gate q e sg cfg files,
  xfile_result_fast gate q e sg cfg files = xfile_result gate q e sg cfg files.
Proof. exact xfile_result_fast_eq. Qed.
Print Assumptions C09_cross_file_judge_evaluates_the_model.

Theorem C09_dry_location_independent : forall q e sg cfg files sfiles,
  flags_off q -> Forall2 (denotes e) files sfiles ->
  dry_result q e sg cfg files = dry_spec (e_root_pats e) sg cfg sfiles.
Proof. exact dry_location_independent. Qed.
Print Assumptions C09_dry_location_independent.

(* suppression directives inside a file (`# dry: ignore-block`, thailint directives seen by the duplicate-code rule): the stores keyed
   by a path string are written and read with the same spelling of the path, so a directive is honoured for every working
   directory and every absolute / relative / dot spelling (key scopes from the source; mixed scopes are refuted by a relative target) *)
Theorem C09_directive_stores_spelling_independent : forall cwd g, dry_directives_honoured cwd g = true.
Proof. exact directive_stores_agree. Qed.
Print Assumptions C09_directive_stores_spelling_independent.

Theorem C09_mixed_key_scopes_refuted :
  store_hit ScResolvedStr ScGivenStr ["s"; "ok"] (GP false ["proj"; "src"; "mod.py"]) = false
  /\ store_hit ScResolvedStr ScGivenStr ["s"; "home"] (GP true ["s"; "ok"; "proj"; "src"; "mod.py"]) = true.
Proof. exact mixed_key_scopes_refuted. Qed.
Print Assumptions C09_mixed_key_scopes_refuted.

(* the same project at two locations / from two working directories / in two spellings: identical results *)
Theorem C09_two_locations_agree : forall q sg cfg e1 e2 files1 files2 sfiles,
  flags_off q -> e_root_pats e1 = e_root_pats e2 ->
  Forall2 (denotes e1) files1 sfiles -> Forall2 (denotes e2) files2 sfiles ->
  run_result q e1 sg cfg files1 = run_result q e2 sg cfg files2.
Proof. exact two_locations_agree. Qed.
Print Assumptions C09_two_locations_agree.

(* 2. Exact characterisation of what the code's predicates add (partial: the full statement is 1). *)
(* the built-in exclusion predicate applied to a path as given = exclusion by the path inside the project OR a leading component
   is an excluded name.  (Since fix b20520c the source applies it to the re-rooted path, so this no longer describes the faithful
   model - C09_exclusion_scope_repaired - but it is what the reverting patch brings back.) *)
Theorem C09_exclusion_partial : forall ab lead rel name, rel <> [] ->
  hard_excluded (all_parts (GP ab (lead ++ rel))) name = hard_excluded rel name || existsb excl_comp lead.
Proof. exact hard_excluded_given. Qed.
Print Assumptions C09_exclusion_partial.

Theorem C09_exclusion_scope_repaired : scope_given hard_exclusion_scope = false /\ fp_relative_paths_rerooted = true.
Proof. exact (conj exclusion_scope_now fp_rerooted_now). Qed.
Print Assumptions C09_exclusion_scope_repaired.

(* substring tests on str(path) (test markers, per-linter ignore lists) = found in "/" ++ path inside the project
   OR found in the leading string followed by "/" — for patterns with "/" only at their ends *)
Theorem C09_substring_partial : forall ms ab lead rel,
  forallb slash_simple ms = true -> rel <> [] -> ab = true \/ lead <> [] ->
  any_sub ms (pstr (GP ab (lead ++ rel)))
  = any_sub ms (rooted rel) || any_sub ms (lead_str ab lead ++ String slash "").
Proof. exact any_sub_given. Qed.
Print Assumptions C09_substring_partial.

Theorem C09_project_relative_substring_partial : forall ms rel,
  forallb no_lead_slash ms = true -> any_sub ms (unrooted rel) = any_sub ms (rooted rel).
Proof. exact any_sub_project_relative. Qed.
Print Assumptions C09_project_relative_substring_partial.

(* every marker list and default ignore list found in the source consists of such patterns *)
Theorem C09_source_patterns_simple : forallb sig_simple command_sigs = true.
Proof. exact gen_sigs_simple. Qed.
Print Assumptions C09_source_patterns_simple.

Theorem C09_path_match_partial : forall pat lead rel,
  List.length (pattern_parts pat) <= List.length rel -> path_match pat (lead ++ rel) = path_match pat rel.
Proof. exact path_match_given. Qed.
Print Assumptions C09_path_match_partial.

Theorem C09_reroot_partial : forall root rel, parser_view root (GP true (root ++ rel)) = (unrooted rel, rel).
Proof. exact parser_view_abs_under_root. Qed.
Print Assumptions C09_reroot_partial.

(* 3. Confinement: for EVERY quirk vector — in particular the faithful one — the result is the specification when the
      target is spelled absolutely (an excluded directory name above the project no longer matters), the leading string contains no marker /
      ignore pattern, Path.match patterns are no longer than the path inside the project, and the working directory
      brings no ignore patterns of its own. *)
Theorem C09_confinement_absolute_partial : forall q e sg cfg lead rel lg raw,
  rel <> [] -> e_root e = lead ->
  resolve (e_cwd e) (GP true (lead ++ rel)) = lead ++ rel ->
  pats_clean (cs_ikind sg) (ignore_pats sg cfg) (rooted lead ++ String slash "") rel = true ->
  tspec_simple (tspec_of sg lg) = true ->
  any_sub (t_str_contains (tspec_of sg lg)) (rooted lead ++ String slash "") = false ->
  (cs_cwd_parser sg = false \/ list_eqb (e_cwd e) (e_root e) = true \/ e_cwd_pats e = []) ->
  file_result q e sg cfg {| f_given := GP true (lead ++ rel); f_lang := lg; f_raw := raw |}
  = spec_file (e_root_pats e) sg cfg {| s_rel := rel; s_lang := lg; s_raw := raw |}.
Proof. exact confinement_absolute. Qed.
Print Assumptions C09_confinement_absolute_partial.

(* for the ten commands read from the source the marker hypothesis is discharged by computation on the generated table *)
Theorem C09_confinement_absolute_cmd_partial : forall q e n sg cfg lead rel lg raw,
  find_sig n = Some sg ->
  rel <> [] -> e_root e = lead ->
  resolve (e_cwd e) (GP true (lead ++ rel)) = lead ++ rel ->
  pats_clean (cs_ikind sg) (ignore_pats sg cfg) (rooted lead ++ String slash "") rel = true ->
  any_sub (t_str_contains (tspec_of sg lg)) (rooted lead ++ String slash "") = false ->
  (cs_cwd_parser sg = false \/ list_eqb (e_cwd e) (e_root e) = true \/ e_cwd_pats e = []) ->
  file_result q e sg cfg {| f_given := GP true (lead ++ rel); f_lang := lg; f_raw := raw |}
  = spec_file (e_root_pats e) sg cfg {| s_rel := rel; s_lang := lg; s_raw := raw |}.
Proof. exact confinement_absolute_cmd. Qed.
Print Assumptions C09_confinement_absolute_cmd_partial.

(* ... and when the target is spelled relative to the project directory itself (`.`, `src/a.py`), provided no marker
   that begins with "/" occurs in the path inside the project *)
Theorem C09_confinement_project_relative_partial : forall q e sg cfg rel lg raw,
  rel <> [] ->
  resolve (e_cwd e) (GP false rel) = e_root e ++ rel ->
  pats_clean_dot (cs_ikind sg) (ignore_pats sg cfg) rel = true ->
  lead_slash_absent (t_str_contains (tspec_of sg lg)) rel = true ->
  forallb (fun m => negb (prefixb m (unrooted rel))) (t_str_starts (tspec_of sg lg)) = true ->
  forallb no_lead_slash (t_str_starts (tspec_of sg lg)) = true ->
  (cs_cwd_parser sg = false \/ list_eqb (e_cwd e) (e_root e) = true \/ e_cwd_pats e = []) ->
  file_result q e sg cfg {| f_given := GP false rel; f_lang := lg; f_raw := raw |}
  = spec_file (e_root_pats e) sg cfg {| s_rel := rel; s_lang := lg; s_raw := raw |}.
Proof. exact confinement_project_relative. Qed.
Print Assumptions C09_confinement_project_relative_partial.

(* 4. Project-root detection (marker search upward, markers and order from the source): marker-free directories
      above the project only prepend their own names to the detected root. *)
Theorem C09_root_detection_prefix_independent : forall above chain,
  forallb (marker_free root_markers) above = true ->
  find_root (above ++ chain) = map lv_name above ++ find_root chain.
Proof. exact find_root_above. Qed.
Print Assumptions C09_root_detection_prefix_independent.

(* non-vacuity: a concrete project file under /srv/work/proj, addressed absolutely from /home/u by the faithful vector,
   satisfies every hypothesis of the confinement theorem, and the result is a real finding (line 3 of a TypeScript file) *)
Definition ex_sig : cmdsig := match find_sig "magic-numbers" with Some s => s | None => dummy_sig end.
Definition ex_env : env := {| e_root := ["srv"; "work"; "proj"]; e_cwd := ["home"; "u"]; e_root_pats := ["lib/"]; e_cwd_pats := [] |}.
Example C09_nonvacuous :
  resolve (e_cwd ex_env) (GP true (["srv"; "work"; "proj"] ++ ["src"; "mod.ts"])) = ["srv"; "work"; "proj"] ++ ["src"; "mod.ts"]
  /\ resolve ["srv"; "elsewhere"] (GP false ([".."; "work"; "proj"] ++ ["src"; "mod.ts"])) = ["srv"; "work"; "proj"] ++ ["src"; "mod.ts"]
  /\ resolve ["srv"; "work"; "proj"; "src"; "sub"] (GP false [".."; "mod.ts"]) = ["srv"; "work"; "proj"] ++ ["src"; "mod.ts"]
  /\ pats_clean (cs_ikind ex_sig) (ignore_pats ex_sig (Some ["tests/"; "*_test.py"])) (rooted ["srv"; "work"; "proj"] ++ String slash "") ["src"; "mod.ts"] = true
  /\ tspec_simple (tspec_of ex_sig LTs) = true
  /\ any_sub (t_str_contains (tspec_of ex_sig LTs)) (rooted ["srv"; "work"; "proj"] ++ String slash "") = false
  /\ file_result pathloc_actual ex_env ex_sig (Some ["tests/"; "*_test.py"])
       {| f_given := GP true (["srv"; "work"; "proj"] ++ ["src"; "mod.ts"]); f_lang := LTs; f_raw := [3] |} = [3]
  /\ spec_file ["lib/"] ex_sig (Some ["tests/"; "*_test.py"]) {| s_rel := ["tests"; "mod.ts"]; s_lang := LTs; s_raw := [3] |} = [].
Proof. vm_compute. repeat split; reflexivity. Qed.
