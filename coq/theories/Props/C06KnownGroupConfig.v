(* Props/C06KnownGroupConfig.v - refutation witness of the listed finding q_group_missing_config_ignored *)
From TL Require Import Lib.Base Model.OutputTypes Gen.OutputGen Model.Output Model.OutputRun Actual.OutputActual.
From Coq Require Import ZArith.
Local Open Scope Z_scope.
Local Open Scope string_scope.

(* thailint --config <missing file> <command>: runs with defaults *)
Theorem C06_group_missing_config_refuted :
  usage_outcome output_actual "nesting" UGroupMissingConfig <> spec_outcome UGroupMissingConfig.
Proof. vm_compute. discriminate. Qed.

