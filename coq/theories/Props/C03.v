(* Props/C03.v — property C03 (duplicate-code findings are sound, mutual and complete).
   Only statements closed by `exact <lemma>` and their Print Assumptions.

   Vocabulary (Model/DrySpec.v, hand-written from the property text and docs/dry-linter.md):
     canon_range f s e     the code lines of file f in source lines s..e: comments removed, whitespace
                           normalised, blank / docstring / JSDoc / import-export / lone-brace lines dropped
     ref_rows W files      every run of W consecutive code lines of every file (file, first line, last line, text)
     sound / mutual / complete / count_ok   the clauses of the property over a reported list
     dry_model q W k files the model of src/linters/dry built from Gen/DryGen.v under quirk vector q
   Domain: 1 <= W (min_duplicate_lines; the correspondence check uses W >= 2), 2 <= k (min_occurrences). *)
From TL Require Import Lib.Base Lib.GenTypes Model.DryBase Model.DryPipe Gen.DryGen Model.Dry Model.DrySpec
     Model.DryRun Model.DryWitness Actual.DryActual Proofs.DryGreedy Proofs.DryStageB Proofs.DryStageA Proofs.DryMain Proofs.DryMsg Proofs.DryOracle Proofs.DrySupp Model.DryFilter Proofs.DryFilterP Proofs.DryTextFilters.

(* 0. With the two text flags off the model built from the source IS the reference pipeline: exact equality of the
      reported list, for all projects and all W, k - whether the overlap test of the violation filter is the
      hand-written one or the one read from the source (q_overlap_asym on: repaired by fix f9c5945). *)
Theorem C03_model_is_reference : forall q W k files,
  q_strip_in_code q = false -> q_block_comment_kept q = false ->
  dry_model q W k files = ref_report W k files.
Proof. exact model_eq_ref_off. Qed.
Print Assumptions C03_model_is_reference.

(* 1. Soundness: every reported violation names at least one other location; every named location is a
      different place whose code lines are, one by one, equal to the reported block's; the block holds
      at least W code lines. *)
Theorem C03_sound : forall W k files, 1 <= W -> 2 <= k -> sound files W (ref_report W k files).
Proof. exact ref_sound. Qed.
Print Assumptions C03_sound.

(* 2. Mutuality: every named location is intersected by a reported violation of the same file. *)
Theorem C03_mutual : forall W k files, 1 <= W -> 2 <= k -> mutual (ref_report W k files).
Proof. exact ref_mutual. Qed.
Print Assumptions C03_mutual.

(* 3. Completeness.  (a) two places whose W code lines are equal one by one are two stored rows with the
      same text; (b) whenever a text has at least k pairwise non-overlapping occurrences, every occurrence
      overlaps (or is) an occurrence that a reported violation covers. *)
Theorem C03_shared_run_is_stored : forall W files, 1 <= W ->
  forall j1 f1 pre1 w1 post1 j2 f2 pre2 w2 post2,
  nth_error files j1 = Some f1 -> ref_stream f1 = pre1 ++ w1 ++ post1 -> List.length w1 = W ->
  nth_error files j2 = Some f2 -> ref_stream f2 = pre2 ++ w2 ++ post2 -> List.length w2 = W ->
  map snd w1 = map snd w2 ->
  exists b1 b2, In b1 (ref_rows W files) /\ In b2 (ref_rows W files) /\ r_snip b1 = r_snip b2 /\
    r_file b1 = j1 /\ r_start b1 = fst (hd (0, "") w1) /\ r_end b1 = fst (last w1 (0, "")) /\
    r_file b2 = j2 /\ r_start b2 = fst (hd (0, "") w2) /\ r_end b2 = fst (last w2 (0, "")).
Proof. exact shared_run_rows. Qed.
Print Assumptions C03_shared_run_is_stored.

Theorem C03_complete : forall W k files, 1 <= W -> 2 <= k -> complete (ref_rows W files) k (ref_report W k files).
Proof. exact ref_complete. Qed.
Print Assumptions C03_complete.

(* 4. The occurrence count of a message is the largest number of pairwise non-overlapping places at which
      the reported block occurs (it is attained, and no choice of disjoint occurrences is larger). *)
Theorem C03_count : forall W k files, 1 <= W -> 2 <= k ->
  forall v, In v (ref_report W k files) -> count_ok (ref_rows W files) v.
Proof. exact ref_count. Qed.
Print Assumptions C03_count.

(* 5. No two runs of W code lines with the same text => nothing is reported. *)
Theorem C03_no_shared_run_no_violation : forall W k files, 1 <= W ->
  (forall a b, In a (ref_rows W files) -> In b (ref_rows W files) -> r_snip a = r_snip b -> a = b) ->
  ref_report W k files = [].
Proof. exact ref_none. Qed.
Print Assumptions C03_no_shared_run_no_violation.

(* 6. Line tracking: a stored row's text is exactly the W code lines of its line range, and rows with the
      same text are line for line the same code. *)
Theorem C03_row_is_its_text : forall W files b, 1 <= W -> In b (ref_rows W files) ->
  let txt := canon_range (nth_file files (r_file b)) (r_start b) (r_end b) in
  List.length txt = W /\ Forall nl_free txt /\ r_snip b = join nl txt.
Proof. exact ref_row_text. Qed.
Print Assumptions C03_row_is_its_text.

(* 7. The same clauses for ANY well-formed list of stored rows: block filters may drop windows (rows_ok is
      kept by every sub-list of the windows), the report on what remains is still mutual, complete for the
      stored occurrences, and counts exactly. *)
Theorem C03_filtered_mutual : forall k rows, rows_ok rows -> 2 <= k -> mutual (report ref_bparams k rows).
Proof. exact report_mutual. Qed.
Print Assumptions C03_filtered_mutual.
Theorem C03_filtered_count : forall k rows, rows_ok rows -> 2 <= k ->
  forall v, In v (report ref_bparams k rows) -> count_ok rows v.
Proof. exact report_count. Qed.
Print Assumptions C03_filtered_count.
Theorem C03_filtered_complete : forall k rows, rows_ok rows -> 2 <= k -> complete rows k (report ref_bparams k rows).
Proof. exact report_complete. Qed.
Print Assumptions C03_filtered_complete.

(* 8. Confinement (partial: the full statements are 0-5).  For an ARBITRARY quirk vector - in particular the
      one claimed for the current tree - the model satisfies every clause on every project outside the
      defect classes of the text flags that are on: strip_in_code only matters when the code part of some line
      contains `#` or `//`, block_comment_kept only when a /* */ comment occurs.  (The guard for the overlap test
      - every stored window spans exactly W lines - was dropped when fix f9c5945 repaired it.) *)
Theorem C03_confined_partial : forall q W k files, 1 <= W -> 2 <= k ->
  lines_ok q files ->
  let R := dry_model q W k files in
  sound files W R /\ mutual R /\ (forall v, In v R -> count_ok (ref_rows W files) v) /\ complete (ref_rows W files) k R
  /\ ((forall a b, In a (ref_rows W files) -> In b (ref_rows W files) -> r_snip a = r_snip b -> a = b) -> R = []).
Proof. exact dry_property. Qed.
Print Assumptions C03_confined_partial.

(* 9. Literals of the source the statements above rest on (each proved by computation on Gen/DryGen.v). *)
Theorem C03_source_literals :
  dry_comment_markers = ["#"; "//"] /\ dry_norm_sep = " "
  /\ (forall t st, dry_should_skip t st = ref_skip t st)
  /\ (forall s1 e1 s2 e2, dry_blocks_overlap s1 e1 s2 e2 = (s1 <=? e2) && (s2 <=? e1))
  /\ (forall l1 l2 c1 c2, dry_viol_overlap l1 l2 c1 c2 = (l1 <? l2 + c2))
  /\ (forall n k, dry_meets n k = negb (n =? 0) && (k <=? n))
  /\ (forall s e, dry_line_count s e = e - s + 1)
  /\ (dry_dup_cmp = CGe /\ dry_dup_min = 2 /\ dry_order_by = ["file_path"; "start_line"])
  /\ (dry_msg_head = [DLit "Duplicate code ("; DLines; DLit " lines, "; DOcc; DLit " occurrences)"]
      /\ dry_msg_locs = [DLit ". Also found in: "; DLocs ", "] /\ dry_ref_format = [RPath; RLit ":"; RStart; RLit "-"; REnd])
  /\ (dry_count_open = "(" /\ dry_count_open_off = 1 /\ dry_count_close = " lines")
  /\ dry_rule_id = "dry.duplicate-code".
Proof.
  exact (conj gen_markers (conj gen_norm_sep (conj gen_skip (conj gen_blocks_overlap (conj gen_viol_overlap (conj gen_meets (conj gen_line_count
        (conj gen_sql (conj gen_message_format (conj gen_extract_literals gen_rule_id)))))))))).
Qed.
Print Assumptions C03_source_literals.

(* 10. The line count the violation filter parses back out of a message (`(` ... ` lines`, +1) is the count the
       message was built from, for every violation and every path list: the model may pass the count directly. *)
Theorem C03_count_read_back_from_message : forall paths v, extract_line_count (v_message paths v) = Some (v_count v).
Proof. exact extract_roundtrip. Qed.
Print Assumptions C03_count_read_back_from_message.

(* 11. The executable clauses that judge the IMPLEMENTATION's output on every generated case are sound checkers:
       an accepted reported list satisfies the corresponding clause of the property (rows = the reference rows in
       the ordinary stream, the stored rows in the filter-provoking stream). *)
Theorem C03_oracle_sound_clause : forall files W R, sound_b files W R = true -> sound files W R.
Proof. exact sound_b_sound. Qed.
Print Assumptions C03_oracle_sound_clause.
Theorem C03_oracle_mutual_clause : forall R, mutual_b R = true -> mutual R.
Proof. exact mutual_b_mutual. Qed.
Print Assumptions C03_oracle_mutual_clause.
Theorem C03_oracle_count_clause : forall rows R, rows_ok rows -> count_b rows R = true -> forall v, In v R -> count_ok rows v.
Proof. exact count_b_ok. Qed.
Print Assumptions C03_oracle_count_clause.
Theorem C03_oracle_complete_clause : forall rows k R, rows_ok rows -> 2 <= k -> complete_b rows k R = true -> complete rows k R.
Proof. exact complete_b_complete. Qed.
Print Assumptions C03_oracle_complete_clause.

(* 13. Suppression ("... unless it is suppressed").  The reported list is the de-duplicated report minus the
       violations that a dry.ignore path pattern or a directive silences (dry_final); with the text flags off /
       outside their defect classes it equals the reference (ref_final), and for every project, pattern list, W, k:
       what is reported is sound and exactly counted, nothing suppressed is reported, every named location and every
       place of a reportable block is covered by a reported violation or is excused by a suppression (a stored window
       meeting it is suppressed). *)
Theorem C03_final_is_reference : forall q W k pats paths files, lines_ok q files ->
  dry_final q W k pats paths files = ref_final W k pats paths files.
Proof. exact final_eq_ref. Qed.
Print Assumptions C03_final_is_reference.
Theorem C03_with_suppression : forall q W k pats paths files, 1 <= W -> 2 <= k -> lines_ok q files ->
  let R := dry_final q W k pats paths files in
  sound files W R /\ mutual_s pats paths files (ref_rows W files) R /\ complete_s pats paths files (ref_rows W files) k R
  /\ (forall v, In v R -> count_ok (ref_rows W files) v) /\ silent pats paths files R.
Proof. exact dry_final_property. Qed.
Print Assumptions C03_with_suppression.
(* the same for any well-formed list of stored rows (block filters) *)
Theorem C03_filtered_mutual_unless_suppressed : forall k rows pats paths files, rows_ok rows -> 2 <= k ->
  mutual_s pats paths files rows (unsuppressed ref_sparams pats paths files (report ref_bparams k rows)).
Proof. exact supp_mutual. Qed.
Print Assumptions C03_filtered_mutual_unless_suppressed.
Theorem C03_filtered_complete_unless_suppressed : forall k rows pats paths files, rows_ok rows -> 2 <= k ->
  complete_s pats paths files rows k (unsuppressed ref_sparams pats paths files (report ref_bparams k rows)).
Proof. exact supp_complete. Qed.
Print Assumptions C03_filtered_complete_unless_suppressed.

(* 14. What each form silences (line numbers of file_dirs are 1-based source lines), and that nothing is removed
       when no pattern is configured and no directive line exists. *)
Theorem C03_ignore_file_silences : forall f i e line count, In (i, KFile, e) (file_dirs f) -> i <= 10 ->
  suppressed_in_file ref_sparams f line count = true.
Proof. exact ignore_file_silences. Qed.
Print Assumptions C03_ignore_file_silences.
Theorem C03_ignore_line_silences : forall f e line count, In (line, KLine, e) (file_dirs f) -> suppressed_in_file ref_sparams f line count = true.
Proof. exact ignore_line_silences. Qed.
Print Assumptions C03_ignore_line_silences.
Theorem C03_ignore_next_line_silences : forall f e line count, 1 < line -> In (line - 1, KNextLine, e) (file_dirs f) ->
  suppressed_in_file ref_sparams f line count = true.
Proof. exact ignore_next_line_silences. Qed.
Print Assumptions C03_ignore_next_line_silences.
Theorem C03_dry_block_silences : forall f i e line count, In (i, KDryBlock, e) (file_dirs f) ->
  line <= Nat.min (i + 10) (total_lines f) -> i + 1 <= line + count - 1 -> suppressed_in_file ref_sparams f line count = true.
Proof. exact dry_block_silences. Qed.
Print Assumptions C03_dry_block_silences.
Theorem C03_pattern_silences : forall pats paths files fi line count p,
  In p pats -> str_contains p (nth fi paths "") = true -> ref_suppressed pats paths files fi line count = true.
Proof. exact pattern_silences. Qed.
Print Assumptions C03_pattern_silences.
Theorem C03_no_suppression : forall paths files R, (forall f, In f files -> file_dirs f = []) -> unsuppressed ref_sparams [] paths files R = R.
Proof. exact no_suppression. Qed.
Print Assumptions C03_no_suppression.

(* 15. Literals of the suppression code, and the remaining executable clauses of the judge are sound checkers
       (rows_okb: the hypothesis rows_ok of the stored-rows theorems is CHECKED on the rows the implementation stored). *)
Theorem C03_suppression_literals :
  dry_ignore_block_off = 1 /\ dry_ignore_block_len = 10 /\ dry_ignore_next_off = 1 /\ dry_header_scan_lines = 10
  /\ (forall line e s1 e1, dry_range_overlap line e s1 e1 = (line <=? e1) && (s1 <=? e))
  /\ (forall s c, dry_inline_end s c = s + c - 1)
  /\ dry_ignore_block_re = "#\s*dry:\s*ignore-block" /\ dry_ignore_next_re = "#\s*dry:\s*ignore-next".
Proof. exact gen_suppression. Qed.
Print Assumptions C03_suppression_literals.
Theorem C03_oracle_rows_ok : forall rows, rows_okb rows = true -> rows_ok rows.
Proof. exact rows_okb_ok. Qed.
Print Assumptions C03_oracle_rows_ok.
Theorem C03_oracle_mutual_unless_suppressed : forall pats paths files rows R,
  mutual_sb pats paths files rows R = true -> mutual_s pats paths files rows R.
Proof. exact mutual_sb_sound. Qed.
Print Assumptions C03_oracle_mutual_unless_suppressed.
Theorem C03_oracle_complete_unless_suppressed : forall pats paths files rows k R, rows_ok rows -> 2 <= k ->
  complete_sb pats paths files rows k R = true -> complete_s pats paths files rows k R.
Proof. exact complete_sb_sound. Qed.
Print Assumptions C03_oracle_complete_unless_suppressed.
Theorem C03_oracle_silent : forall pats paths files R, silent_b pats paths files R = true -> silent pats paths files R.
Proof. exact silent_b_sound. Qed.
Print Assumptions C03_oracle_silent.

(* 16. One block filter inside the model: KeywordArgumentFilter (block_filter.py).  The filter built from the source's
       literals is the documented one; it drops a window only when the window's line range is non-empty, lies inside
       a multi-line call and at least 4 of every 5 of its lines have the shape `name = value`; a line accepted by the
       matcher has that shape; and whatever any filter removes, the remaining stored rows are well formed, so the
       stored-rows theorems (7, 13) apply to them.  (The model's answers are compared with the real should_filter on
       the windows of generated Python files on every run.) *)
Theorem C03_kwarg_filter_is_documented : forall raw calls s e, model_kwarg_filter raw calls s e = kwarg_filter_ref raw calls s e.
Proof. exact model_kwarg_filter_is_ref. Qed.
Print Assumptions C03_kwarg_filter_is_documented.
Theorem C03_kwarg_filter_sound : forall raw calls s e, kwarg_filter_ref raw calls s e = true ->
  slice_lines raw s e <> [] /\
  4 * List.length (slice_lines raw s e) <= 5 * List.length (filter kwarg_line (slice_lines raw s e)) /\
  exists a b, In (a, b) calls /\ a < b /\ a <= s /\ e <= b.
Proof. exact kwarg_filter_sound. Qed.
Print Assumptions C03_kwarg_filter_sound.
Theorem C03_kwarg_line_shape : forall s, kwarg_line s = true ->
  exists w1 name w2 rest, all_ws w1 /\ all_word name /\ name <> EmptyString /\ all_ws w2 /\ rest <> EmptyString /\
                          s = (w1 ++ name ++ w2 ++ String "=" rest)%string.
Proof. exact kwarg_line_shape. Qed.
Print Assumptions C03_kwarg_line_shape.
Theorem C03_filtering_keeps_rows_ok : forall (p : row -> bool) rows, rows_ok rows -> rows_ok (filter p rows).
Proof. exact rows_ok_filter. Qed.
Print Assumptions C03_filtering_keeps_rows_ok.
Theorem C03_kwarg_filter_literals : dry_kwarg_cmp = CGe /\ dry_kwarg_num = 4 /\ dry_kwarg_den = 5
  /\ dry_kwarg_pattern = "^\s*\w+\s*=\s*.+,?\s*$"
  /\ (forall a b s e, dry_call_contains a b s e = call_contains_ref a b s e).
Proof. exact gen_kwarg_filter. Qed.
Print Assumptions C03_kwarg_filter_literals.

(* 17. The three text-only block filters and the filter registry inside the model (block_filter.py ImportGroupFilter,
       LoggerCallFilter, ExceptionReraiseFilter, BlockFilterRegistry; file_analyzer.py / config.py dry.filters).
       The filters and the registry built from the source's literals are the documented ones; each filter fires only
       in the documented situation, for every text and line range; every stored window of W code lines spans at least
       W non-blank source lines, so LoggerCallFilter can never drop a window when W >= 2 and ExceptionReraiseFilter
       never when W >= 3; and for W >= 3 the registry keeps every window that holds an ordinary (non-import) line and
       is not a keyword-argument block of a multi-line call - whatever dry.filters says.  (The model's answers are
       compared with the real filters and the real registry on windows and short ranges of generated files on every
       run, and no stored row may be one the model's registry drops.) *)
Theorem C03_text_filters_are_documented : forall raw s e,
  model_import_filter raw s e = import_filter_ref raw s e /\ model_logger_filter raw s e = logger_filter_ref raw s e
  /\ model_reraise_filter raw s e = reraise_filter_ref raw s e.
Proof. exact model_text_filters_are_ref. Qed.
Print Assumptions C03_text_filters_are_documented.
Theorem C03_registry_is_documented : forall configured custom calls raw s e,
  model_registry configured custom calls raw s e = registry_ref configured custom calls raw s e.
Proof. exact model_registry_is_ref. Qed.
Print Assumptions C03_registry_is_documented.
Theorem C03_import_filter_sound : forall raw s e, import_filter_ref raw s e = true ->
  forall l, In l (slice_lines raw s e) ->
    py_strip l = EmptyString \/ str_prefix "import " (py_strip l) = true \/ str_prefix "from " (py_strip l) = true.
Proof. exact import_filter_sound. Qed.
Print Assumptions C03_import_filter_sound.
Theorem C03_logger_filter_sound : forall raw s e, logger_filter_ref raw s e = true ->
  exists t, stripped_nonempty (slice_lines raw s e) = [t] /\ logger_line_ref t = true.
Proof. exact logger_filter_sound. Qed.
Print Assumptions C03_logger_filter_sound.
Theorem C03_logger_line_shape : forall t, logger_line_ref t = true ->
  exists w0 pre o m w rest, all_ws w0 /\ (pre = EmptyString \/ pre = "self.") /\ In o logger_objs_ref /\ In m logger_meths_ref /\ all_ws w /\
    t = (w0 ++ pre ++ o ++ "." ++ m ++ w ++ String "(" rest)%string.
Proof. exact logger_line_shape. Qed.
Print Assumptions C03_logger_line_shape.
Theorem C03_reraise_filter_sound : forall raw s e, reraise_filter_ref raw s e = true ->
  exists a b, stripped_nonempty (slice_lines raw s e) = [a; b] /\
              str_prefix "except " a = true /\ str_ends a ":" = true /\ str_prefix "raise " b = true /\ str_contains " from " b = true.
Proof. exact reraise_filter_sound. Qed.
Print Assumptions C03_reraise_filter_sound.
Theorem C03_window_spans_W_nonblank_lines : forall W files b, 1 <= W -> In b (ref_rows W files) ->
  W <= List.length (stripped_nonempty (slice_lines (raw_lines (nth_file files (r_file b))) (r_start b) (r_end b))).
Proof. exact window_spans_W_nonblank. Qed.
Print Assumptions C03_window_spans_W_nonblank_lines.
Theorem C03_logger_filter_never_drops_a_window : forall W files b, 2 <= W -> In b (ref_rows W files) ->
  logger_filter_ref (raw_lines (nth_file files (r_file b))) (r_start b) (r_end b) = false.
Proof. exact logger_filter_spares_windows. Qed.
Print Assumptions C03_logger_filter_never_drops_a_window.
Theorem C03_reraise_filter_never_drops_a_window : forall W files b, 3 <= W -> In b (ref_rows W files) ->
  reraise_filter_ref (raw_lines (nth_file files (r_file b))) (r_start b) (r_end b) = false.
Proof. exact reraise_filter_spares_windows. Qed.
Print Assumptions C03_reraise_filter_never_drops_a_window.
Theorem C03_short_filters_never_drop_a_model_window : forall q W files b, lines_ok q files -> In b (dry_rows q W files) ->
  let raw := raw_lines (nth_file files (r_file b)) in
  (2 <= W -> model_logger_filter raw (r_start b) (r_end b) = false) /\ (3 <= W -> model_reraise_filter raw (r_start b) (r_end b) = false).
Proof. exact short_filters_spare_model_windows. Qed.
Print Assumptions C03_short_filters_never_drop_a_model_window.
Theorem C03_registry_keeps_ordinary_windows : forall W files b configured custom calls, 3 <= W -> In b (ref_rows W files) ->
  let raw := raw_lines (nth_file files (r_file b)) in
  kwarg_filter_ref raw calls (r_start b) (r_end b) = false ->
  (exists l, In l (slice_lines raw (r_start b) (r_end b)) /\ nonblank l = true /\ import_shaped (py_strip l) = false) ->
  registry_ref configured custom calls raw (r_start b) (r_end b) = false.
Proof. exact registry_spares_windows. Qed.
Print Assumptions C03_registry_keeps_ordinary_windows.
Theorem C03_text_filter_literals :
  (forall t, dry_import_line_rejected t = negb (import_shaped t))
  /\ (forall n, dry_logger_single n = (n =? 1))
  /\ dry_logger_pattern = "^\s*(self\.)?(logger|logging|log)\.(debug|info|warning|error|critical|exception|log)\s*\("
  /\ dry_logger_self = "self." /\ dry_logger_objs = logger_objs_ref /\ dry_logger_meths = logger_meths_ref
  /\ (forall n, dry_reraise_len_bad n = negb (n =? 2))
  /\ (forall a b, dry_is_except_raise a b = except_raise_ref a b)
  /\ dry_registry = registry_names_ref /\ dry_filter_defaults = filter_defaults_ref.
Proof. exact gen_text_filters. Qed.
Print Assumptions C03_text_filter_literals.
(* non-vacuity: the real shapes are accepted, near misses are not *)
Example C03_text_filters_nonvacuous :
  logger_filter_ref ["def f():"; "    self.logger.info ('x')"; ""] 2 3 = true
  /\ logger_filter_ref ["logger.info('x')"; "logger.info('y')"] 1 2 = false
  /\ logger_line_ref "loggerx.info('x')" = false
  /\ reraise_filter_ref ["    except ValueError as e:"; ""; "        raise RuntimeError('x') from e"] 1 3 = true
  /\ reraise_filter_ref ["    except ValueError as e:"; "        raise RuntimeError('x')"] 1 2 = false
  /\ import_filter_ref ["import os"; ""; "from a import b"; "x = 1"] 1 3 = true
  /\ import_filter_ref ["import os"; ""; "from a import b"; "x = 1"] 1 4 = false
  /\ registry_ref true [("import_group_filter", false)] [] ["import os"; "from a import b"] 1 2 = false
  /\ registry_ref false [("import_group_filter", false)] [] ["import os"; "from a import b"] 1 2 = true.
Proof. vm_compute. repeat split; reflexivity. Qed.

(* 12. Regression of the repaired finding q_overlap_asym (fix f9c5945): on its old witness the model under the vector
       claimed for the current tree now reports block Q of file 0 (lines 6-10) as well, equals the reference,
       and the reported list is mutual and complete. *)
Example C03_overlap_witness_regression :
  dry_model dry_actual 3 2 overlap_asym_w
  = [Build_viol 0 2 1 3 2 [(1, 2, 4)]; Build_viol 0 6 1 5 2 [(1, 8, 10)]; Build_viol 1 2 1 3 2 [(0, 2, 4)]; Build_viol 1 8 1 3 2 [(0, 6, 10)]]
  /\ dry_model dry_actual 3 2 overlap_asym_w = ref_report 3 2 overlap_asym_w
  /\ mutual_b (dry_model dry_actual 3 2 overlap_asym_w) = true
  /\ complete_b (ref_rows 3 overlap_asym_w) 2 (dry_model dry_actual 3 2 overlap_asym_w) = true.
Proof. vm_compute. repeat split; reflexivity. Qed.

(* non-vacuity: a two-file project sharing a 3-statement run (different indentation, a comment and a blank
   line interleaved): both places are reported, each naming the other, with the documented message *)
Definition ex_a : afile := {| f_lang := DPy; f_lines :=
  [Build_aline false "" "def f(a):" CNone; Build_aline false "    " "x = foo(a)" CNone;
   Build_aline false "    " "y = bar(x, 1)" (CLine " note"); Build_aline false "    " "z = baz(y)" CNone;
   Build_aline false "    " "return z" CNone] |}.
Definition ex_b : afile := {| f_lang := DPy; f_lines :=
  [Build_aline false "" "def g(b):" CNone; Build_aline false "        " "x  =  foo(a)" CNone; Build_aline false "" "" CNone;
   Build_aline false "        " "y = bar(x, 1)" CNone; Build_aline false "        " "" (CLine " comment only");
   Build_aline false "        " "z = baz(y)" CNone; Build_aline false "        " "return x" CNone] |}.
Example C03_nonvacuous :
  ref_report 3 2 [ex_a; ex_b]
  = [Build_viol 0 2 1 3 2 [(1, 2, 6)]; Build_viol 1 2 1 5 2 [(0, 2, 4)]]
  /\ dry_model dry_ideal 3 2 [ex_a; ex_b] = ref_report 3 2 [ex_a; ex_b]
  /\ v_message ["a.py"; "b.py"] (Build_viol 1 2 1 5 2 [(0, 2, 4)]) = "Duplicate code (5 lines, 2 occurrences). Also found in: a.py:2-4"
  /\ extract_line_count "Duplicate code (5 lines, 2 occurrences). Also found in: a.py:2-4" = Some 5.
Proof. vm_compute. repeat split; reflexivity. Qed.
