(* Props/C07Known.v — refutations: for each flag claimed `true` in Actual/OrchParActual.v a concrete
   project shape on which the faithful model differs from the sequential run (closed by computation).
   The corresponding rendered projects are in corpus/C07 and are replayed on the implementation. *)
From Coq Require Import Permutation.
From TL Require Import Lib.Base Lib.GenTypes Model.OrchParTypes Gen.OrchParGen Model.OrchPar Model.OrchParRun
     Actual.OrchParActual Proofs.OrchParMain.

Definition dup (f : nat) : violation :=
  [("rule_id", VStr "dry.duplicate-code"); ("file_path", VStr "m.py"); ("line", VInt false (2 + f)); ("column", VInt false 1);
   ("message", VStr "Duplicate code (3 lines, 4 occurrences)"); ("severity", VEnum "Severity" "ERROR"); ("suggestion", VNone)].

(* four files sharing a block, two workers (threshold four): check() returns nothing per file, the
   evidence lives in the worker processes, the parent's finalize() reports nothing *)
Definition w_report (ev : list nat) : list violation := match ev with [] => [] | _ => map dup ev end.

Theorem C07_crossfile_lost_refuted :
  par_run nat nat (fun _ => Some []) (fun f => f) w_report orchpar_actual (Some 2) 16 [0;1;2;3] [0;1;2;3] = Some []
  /\ seq_run nat nat (fun _ => Some []) (fun f => f) w_report [0;1;2;3] = Some (map dup [0;1;2;3])
  /\ ~ out_equiv (par_run nat nat (fun _ => Some []) (fun f => f) w_report orchpar_actual (Some 2) 16 [0;1;2;3] [0;1;2;3])
                 (seq_run nat nat (fun _ => Some []) (fun f => f) w_report [0;1;2;3]).
Proof.
  split; [reflexivity|]. split; [reflexivity|].
  vm_compute. intros H. apply Permutation_length in H. discriminate H.
Qed.

(* the exit status of `thailint dry` differs with it: 0 with --parallel, 1 without *)
Theorem C07_crossfile_lost_exit_refuted :
  exit_code (FStartsWith "dry.", 1, 0) (par_run nat nat (fun _ => Some []) (fun f => f) w_report orchpar_actual None 2 [0;1;2;3] [0;1;2;3]) = 0
  /\ exit_code (FStartsWith "dry.", 1, 0) (seq_run nat nat (fun _ => Some []) (fun f => f) w_report [0;1;2;3]) = 1.
Proof. split; reflexivity. Qed.

(* below the threshold (three files, two workers) the same project is reported in full: the outcome
   depends on the file count *)
Theorem C07_crossfile_kept_below_threshold :
  par_run nat nat (fun _ => Some []) (fun f => f) w_report orchpar_actual (Some 2) 16 [0;1;2] [0;1;2] = Some (map dup [0;1;2]).
Proof. reflexivity. Qed.

(* the handlers of the current tree catch everything: the flag is effective *)
Theorem C07_handlers_swallow_everything : errors_surface = false /\ swallows orchpar_actual = true.
Proof. split; reflexivity. Qed.

(* an invalid configuration value: lint_file raises ValueError in every file; the sequential run
   raises (CLI: exit 2), the parallel run returns no violation (CLI: exit 0) *)
Theorem C07_errors_swallowed_refuted :
  par_run nat nat (fun _ => None) (fun f => f) (fun _ => []) orchpar_actual (Some 1) 16 [0;1] [0;1] = Some []
  /\ seq_run nat nat (fun _ => None) (fun f => f) (fun _ => []) [0;1] = None
  /\ exit_code (FStartsWith "dry.", 1, 0) (Some []) = 0 /\ exit_code (FStartsWith "dry.", 1, 0) None = 2.
Proof. repeat split; reflexivity. Qed.

(* with the flag off the model propagates the error *)
Theorem C07_errors_propagate_when_fixed :
  par_run nat nat (fun _ => None) (fun f => f) (fun _ => []) (with_flag 1 orchpar_actual) (Some 1) 16 [0;1] [0;1] = None.
Proof. reflexivity. Qed.
