(* Props/C07Known.v — the findings of C07 on the current tree.
   Still present: q_parent_evidence_raw_path (refutation witness below).
   Repaired in /repo (known.d: "fixed"): q_par_crossfile_lost, q_worker_swallows_errors - their old witnesses are
   REGRESSION theorems now (Proofs/OrchParRegress.v, restated in Props/C07.v). *)
From Coq Require Import Permutation.
From TL Require Import Lib.Base Lib.GenTypes Model.OrchParTypes Gen.OrchParGen Model.OrchPar Model.OrchParRun
     Actual.OrchParActual Proofs.OrchParMain Proofs.OrchParRegress.

Definition none_seen (f : nat) : bool := false.

(* ---- still present ---- *)
(* the evidence loop of the parent decides built-in exclusion on the path as given, lint_file on the path inside
   the project: the flag is effective *)
Theorem C07_parent_loop_differs_from_lint_file : parent_exclusion_like_lint_file = false /\ parent_restricts orchpar_actual = true.
Proof. split; reflexivity. Qed.

(* a project that lives under a directory named like a built-in exclusion (build/, dist/, venv/ ...) and is addressed
   by absolute paths: four files sharing a block, two workers; every file is linted, the parent visits none *)
Theorem C07_parent_evidence_raw_path_refuted :
  par_run nat nat (fun _ => Some []) (fun f => f) w_report none_seen orchpar_actual (Some 2) 16 [0;1;2;3] [0;1;2;3] = Some []
  /\ seq_run nat nat (fun _ => Some []) (fun f => f) w_report [0;1;2;3] = Some (map dup [0;1;2;3])
  /\ ~ out_equiv (par_run nat nat (fun _ => Some []) (fun f => f) w_report none_seen orchpar_actual (Some 2) 16 [0;1;2;3] [0;1;2;3])
                 (seq_run nat nat (fun _ => Some []) (fun f => f) w_report [0;1;2;3])
  /\ exit_code (FStartsWith "dry.", 1, 0) (par_run nat nat (fun _ => Some []) (fun f => f) w_report none_seen orchpar_actual (Some 2) 16 [0;1;2;3] [0;1;2;3]) = 0
  /\ exit_code (FStartsWith "dry.", 1, 0) (seq_run nat nat (fun _ => Some []) (fun f => f) w_report [0;1;2;3]) = 1.
Proof.
  split; [reflexivity|]. split; [reflexivity|]. split; [|split; reflexivity].
  vm_compute. intros H. apply Permutation_length in H. discriminate H.
Qed.

