(* Props/C07Known.v — refutation witnesses of the findings of C07 that are still present on the current tree.
   There is none: q_par_crossfile_lost (c35e782), q_worker_swallows_errors (bfec1ed) and q_parent_evidence_raw_path
   (10c403e) are repaired in /repo; their witnesses are regression theorems now (Proofs/OrchParRegress.v, restated in
   Props/C07.v).  What is recorded here is that no flag of the claimed vector is effective any more. *)
(* Model.OrchParRun (the judge of the correspondence check) is imported so that it is rebuilt with this cone *)
From TL Require Import Lib.Base Lib.GenTypes Model.OrchParTypes Gen.OrchParGen Model.OrchPar Model.OrchParRun Actual.OrchParActual.

Theorem C07_no_flag_effective :
  crossfile_lost orchpar_actual = false /\ parent_restricts orchpar_actual = false /\ swallows orchpar_actual = false.
Proof. repeat split; reflexivity. Qed.
