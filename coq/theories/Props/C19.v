(* Props/C19.v — property C19 (every linter honours its documented examples wherever they are embedded).
   PARTIAL: what is proved here is (1) the algebra of embeddings and the locality theory of walker-shaped
   detectors, for ANY such detector; (2) its instances for the models of six real detectors: print-statement (local as
   it stands), string-concat-in-loop, stateless-class, method-property, conditional-verbose, regex-in-loop (each local / once per
   occurrence / renaming-invariant for the quirk vectors and contexts stated below; refuted for the current tree where a
   flag is on, in Props/C19Known.v).
   Nothing is proved here about the other pattern linters: for them the law below is tested on the implementation
   (harness/props/c19.py).  Only statements closed by `exact <lemma>` and their Print Assumptions. *)
From Coq Require Import Permutation.
From TL Require Import Lib.Base Lib.GenTypes Gen.EmbedGen Gen.Embed2Gen Model.Embed Model.PrintStmt Model.PerfConcat Model.StatelessCls
     Model.MethodProp Model.CondVerbose Model.RegexLoop Model.EmbedRun
     Proofs.EmbedLocality Proofs.PrintStmtLocal Proofs.PerfConcatLocal Proofs.PerfConcatRename Proofs.StatelessClsLocal
     Proofs.MethodPropLocal Proofs.MethodPropRename Proofs.CondVerboseLocal Proofs.RegexLoopLocal Proofs.RegexLoopRename.

(* ---------------------------------------------------------------- 1. any walker-shaped detector *)
(* step pushes a summary of the ancestors down, emit reports at a node from the summary and the node's subtree.
   If neither looks at positions: *)
Section Generic.
  Context {S : Type} (step : S -> ast -> S) (emit : S -> ast -> list rep).
  Hypothesis step_shift : forall dl dc s t, step s (shift dl dc t) = step s t.
  Hypothesis emit_shift : forall dl dc s t, emit s (shift dl dc t) = shiftRs dl dc (emit s t).

  (* 1a. every context decomposes: the fragment is analysed under the summary that reaches the hole *)
  Theorem C19_decomposition : forall c frag s,
    detectF step emit s (plug c frag) =
    gen_pre step emit c frag s
    ++ shiftRs (off_l c) (off_c c) (detectF step emit (hole_sum step c frag s) frag)
    ++ gen_post step emit c frag s.
  Proof. exact (plug_decompose step emit step_shift emit_shift). Qed.

  (* 1b. locality: wrappers that emit nothing and leave the summary alone cannot change what is reported inside
         the fragment; everything else that is reported is what the detector says about the filler code alone *)
  Theorem C19_locality : forall c frag s,
    inert step emit c ->
    Permutation (detectF step emit s (plug c frag))
                (shiftRs (off_l c) (off_c c) (detectF step emit s frag) ++ detectF step emit s (fillers c)).
  Proof. exact (plug_local_perm step emit step_shift emit_shift). Qed.

  Theorem C19_locality_ordered : forall c frag s,
    inert step emit c ->
    detectF step emit s (plug c frag) =
    ctx_pre step emit c s ++ shiftRs (off_l c) (off_c c) (detectF step emit s frag) ++ ctx_post step emit c s.
  Proof. exact (plug_local step emit step_shift emit_shift). Qed.

  (* 1b'. wrappers may report something of their own and may change the summary, as long as neither depends on what is
          in the hole: the fragment is analysed under the summary the empty context produces at its hole *)
  Theorem C19_locality_general : forall c frag s,
    indep step emit c s ->
    detectF step emit s (plug c frag) =
    gen_pre step emit c [] s
    ++ shiftRs (off_l c) (off_c c) (detectF step emit (hole_sum step c [] s) frag)
    ++ gen_post step emit c [] s.
  Proof. exact (plug_indep step emit step_shift emit_shift). Qed.

  (* 1c. n copies give the n moved report lists: once per occurrence, at the line of the occurrence *)
  Theorem C19_copies : forall s n h frag,
    detectF step emit s (copies n h frag) = flat_map (fun k => shiftRs (k * h) 0 (detectF step emit s frag)) (seq 0 n).
  Proof. exact (copies_local step emit step_shift emit_shift). Qed.

  Theorem C19_copies_count : forall s n h frag,
    List.length (detectF step emit s (copies n h frag)) = n * List.length (detectF step emit s frag).
  Proof. exact (copies_count step emit step_shift emit_shift). Qed.
End Generic.
Print Assumptions C19_decomposition.
Print Assumptions C19_locality.
Print Assumptions C19_locality_ordered.
Print Assumptions C19_locality_general.
Print Assumptions C19_copies.
Print Assumptions C19_copies_count.

(* 1d. a renaming under which step and emit are equivariant commutes with detection *)
Theorem C19_renaming : forall (S : Type) (step : S -> ast -> S) (emit : S -> ast -> list rep)
    (sg : string -> string) (renS : S -> S) (renR : rep -> rep),
  (forall s t, step (renS s) (rename sg t) = renS (step s t)) ->
  (forall s t, emit (renS s) (rename sg t) = map renR (emit s t)) ->
  forall ts s, detectF step emit (renS s) (renameF sg ts) = map renR (detectF step emit s ts).
Proof. intros S step emit sg renS renR H1 H2. exact (renameF_commutes step emit sg renS renR H1 H2). Qed.
Print Assumptions C19_renaming.

(* ---------------------------------------------------------------- 2. print statements (src/linters/print_statements) *)
(* for every context whose `if` wrappers do not test __name__ == "__main__" and that wraps in no call *)
Theorem C19_print_local : forall a c frag,
  pr_ctx_ok c = true ->
  Permutation (print_reports a (plug c frag))
              (shiftRs (off_l c) (off_c c) (print_reports a frag) ++ print_reports a (fillers c)).
Proof. exact print_embedding_fillers. Qed.
Print Assumptions C19_print_local.

Theorem C19_print_local_ordered : forall a c frag,
  pr_ctx_ok c = true ->
  print_reports a (plug c frag) =
  ctx_pre pr_step (pr_emit a) c false ++ shiftRs (off_l c) (off_c c) (print_reports a frag) ++ ctx_post pr_step (pr_emit a) c false.
Proof. exact print_embedding_local. Qed.
Print Assumptions C19_print_local_ordered.

Theorem C19_print_copies : forall a n h frag,
  print_reports a (copies n h frag) = flat_map (fun k => shiftRs (k * h) 0 (print_reports a frag)) (seq 0 n).
Proof. exact print_copies. Qed.
Print Assumptions C19_print_copies.

Theorem C19_print_rename : forall a sg file,
  pr_sigma_ok sg -> print_reports a (renameF sg file) = print_reports a file.
Proof. exact print_rename. Qed.
Print Assumptions C19_print_rename.

Theorem C19_print_rename_finite : forall a sg file,
  avoids [pr_simple_id; pr_attr_name; pr_base_id; main_left_id] sg = true ->
  print_reports a (renameF (sigma_of sg) file) = print_reports a file.
Proof. exact print_rename_finite. Qed.
Print Assumptions C19_print_rename_finite.

(* ---------------------------------------------------------------- 3. string concatenation in loops (src/linters/performance) *)
(* for every quirk vector with the two file-global flags off, every context whose wrappers are neither loops nor
   assignments (and carry none) and whose filler statements are defs / classes *)
Theorem C19_concat_local : forall q c frag,
  q_concat_global_names q = false -> q_concat_dedup_by_name q = false -> cc_ctx_ok c = true ->
  Permutation (concat_reports q (plug c frag))
              (shiftRs (off_l c) (off_c c) (concat_reports q frag) ++ concat_reports q (fillers c)).
Proof. exact concat_embedding_fillers. Qed.
Print Assumptions C19_concat_local.

Theorem C19_concat_local_ordered : forall q c frag,
  q_concat_global_names q = false -> q_concat_dedup_by_name q = false -> cc_ctx_ok c = true ->
  concat_reports q (plug c frag) =
  ctx_pre (cl_step q) (cl_emit q) c [] ++ shiftRs (off_l c) (off_c c) (concat_reports q frag) ++ ctx_post (cl_step q) (cl_emit q) c [].
Proof. exact concat_embedding_local. Qed.
Print Assumptions C19_concat_local_ordered.

Theorem C19_concat_copies : forall q n h frag,
  q_concat_global_names q = false -> q_concat_dedup_by_name q = false ->
  concat_reports q (copies n h frag) = flat_map (fun k => shiftRs (k * h) 0 (concat_reports q frag)) (seq 0 n).
Proof. exact concat_copies. Qed.
Print Assumptions C19_concat_copies.

Theorem C19_concat_copies_count : forall q n h frag,
  q_concat_global_names q = false -> q_concat_dedup_by_name q = false ->
  List.length (concat_reports q (copies n h frag)) = n * List.length (concat_reports q frag).
Proof. exact concat_copies_count. Qed.
Print Assumptions C19_concat_copies_count.

(* renaming: the documentation defines the pattern by seven variable names (Gen: sc_doc_patterns); every one-to-one
   renaming that keeps `str` apart and moves no name into or out of that documented list commutes with detection *)
Theorem C19_concat_rename : forall q sg,
  q_concat_name_table q = false ->
  (forall x, smem (lower (sg x)) sc_doc_patterns = smem (lower x) sc_doc_patterns) -> cc_sigma_ok sg -> forall file,
  q_concat_global_names q = false -> q_concat_dedup_by_name q = false ->
  concat_reports q (renameF sg file) = map (renameR sg) (concat_reports q file).
Proof. intros q sg Hq H. apply (concat_rename q sg). unfold name_table. rewrite Hq. exact H. Qed.
Print Assumptions C19_concat_rename.

(* confinement of the name-table quirk (partial: the full statement is C19_concat_rename): with the code's longer table
   in force, renaming still commutes for every renaming that moves no name into or out of THAT table *)
Theorem C19_concat_rename_partial : forall q sg,
  q_concat_name_table q = true ->
  (forall x, smem (lower (sg x)) sc_patterns = smem (lower x) sc_patterns) -> cc_sigma_ok sg -> forall file,
  q_concat_global_names q = false -> q_concat_dedup_by_name q = false ->
  concat_reports q (renameF sg file) = map (renameR sg) (concat_reports q file).
Proof. intros q sg Hq H. apply (concat_rename q sg). unfold name_table. rewrite Hq. exact H. Qed.
Print Assumptions C19_concat_rename_partial.

(* confinement of the global-name-set quirk (partial: the full statement is C19_concat_local_ordered): with the name
   sets taken from the whole file, the law still holds for every context that assigns no variable and wraps in no loop *)
Theorem C19_concat_global_names_partial : forall q c frag,
  q_concat_global_names q = true -> q_concat_dedup_by_name q = false -> ctx_assigns_nothing c = true ->
  concat_reports q (plug c frag) =
  ctx_pre (cl_step q) (cl_emit q) c (classify_allF frag)
  ++ shiftRs (off_l c) (off_c c) (concat_reports q frag)
  ++ ctx_post (cl_step q) (cl_emit q) c (classify_allF frag).
Proof. exact concat_global_names_partial. Qed.
Print Assumptions C19_concat_global_names_partial.

(* confinement of the de-duplication quirk (partial: the full statement is C19_concat_copies / C19_concat_local): with
   q_concat_dedup_by_name on, the rule reports exactly the candidates of the code's own traversal on every file in which
   no two candidates share a variable name *)
Theorem C19_concat_dedup_partial : forall q file,
  q_concat_dedup_by_name q = true -> NoDup (map snd (raw_candidates q file)) ->
  concat_reports q file = raw_candidates q file.
Proof. exact concat_dedup_partial. Qed.
Print Assumptions C19_concat_dedup_partial.

(* ---------------------------------------------------------------- 4. stateless classes (src/linters/stateless_class) *)
(* for every quirk vector whose filters examine the class itself (whatever the two name flags are) and every context
   that wraps in no class *)
Theorem C19_stateless_local : forall q c frag,
  q_sl_lookup_by_name q = false -> sl_ctx_ok c = true ->
  Permutation (stateless_reports q (plug c frag))
              (shiftRs (off_l c) (off_c c) (stateless_reports q frag) ++ stateless_reports q (fillers c)).
Proof. exact stateless_embedding_fillers. Qed.
Print Assumptions C19_stateless_local.

Theorem C19_stateless_local_ordered : forall q c frag,
  q_sl_lookup_by_name q = false -> sl_ctx_ok c = true ->
  stateless_reports q (plug c frag) =
  ctx_pre sl_step (sl_emit q) c [] ++ shiftRs (off_l c) (off_c c) (stateless_reports q frag) ++ ctx_post sl_step (sl_emit q) c [].
Proof. exact stateless_embedding_local. Qed.
Print Assumptions C19_stateless_local_ordered.

Theorem C19_stateless_copies : forall q n h frag,
  q_sl_lookup_by_name q = false ->
  stateless_reports q (copies n h frag) = flat_map (fun k => shiftRs (k * h) 0 (stateless_reports q frag)) (seq 0 n).
Proof. exact stateless_copies. Qed.
Print Assumptions C19_stateless_copies.

(* renaming: no class name is special (both name flags off); the renaming keeps __init__, __new__, self, object, ABC,
   Protocol, TestCase apart *)
Theorem C19_stateless_rename : forall sg, sl_sigma_ok sg -> forall q file,
  q_sl_lookup_by_name q = false -> q_sl_exempt_test_name q = false -> q_sl_exempt_mixin_name q = false ->
  stateless_reports q (renameF sg file) = map (renameR sg) (stateless_reports q file).
Proof. exact stateless_rename. Qed.
Print Assumptions C19_stateless_rename.

(* ---------------------------------------------------------------- 5. method-property (src/linters/method_property) *)
(* every quirk vector: copies; and the law for contexts without a class wrapper (confinement of q_mp_class_body_only) *)
Theorem C19_method_copies : forall q n h frag,
  method_reports q (copies n h frag) = flat_map (fun k => shiftRs (k * h) 0 (method_reports q frag)) (seq 0 n).
Proof. exact method_copies. Qed.
Print Assumptions C19_method_copies.

Theorem C19_method_local_partial : forall q c frag,
  sl_ctx_ok c = true ->
  Permutation (method_reports q (plug c frag))
              (shiftRs (off_l c) (off_c c) (method_reports q frag) ++ method_reports q (plug c [])).
Proof. exact method_embedding_open. Qed.
Print Assumptions C19_method_local_partial.

(* every class analysed: also below class wrappers (class in a method's class excluded only where a function wrapper
   sits directly in a class wrapper, whose own candidacy depends on its body) *)
Theorem C19_method_local : forall q, q_mp_class_body_only q = false -> forall c frag,
  mp_ctx_ok c = true ->
  Permutation (method_reports q (plug c frag))
              (shiftRs (off_l c) (off_c c) (method_reports q frag) ++ method_reports q (plug c [])).
Proof. exact method_embedding_local. Qed.
Print Assumptions C19_method_local.

(* renaming, every quirk vector: a renaming that keeps `self` apart and keeps the dunder / action-verb status of every name
   (the documented exclusions) commutes with detection; class and method name of a report are renamed *)
Theorem C19_method_rename : forall sg, mp_sigma_ok sg -> forall q file,
  method_reports q (renameF sg file) = map (renameRR sg) (method_reports q file).
Proof. exact method_rename. Qed.
Print Assumptions C19_method_rename.

Theorem C19_method_rename_finite : forall q sg file,
  avoids [mp_self_name] sg = true -> Model.EmbedRun2.mp_names_kept sg = true ->
  method_reports q (renameF (sigma_of sg) file) = map (renameRR (sigma_of sg)) (method_reports q file).
Proof. exact method_rename_finite. Qed.
Print Assumptions C19_method_rename_finite.

(* the code's exclusion tables are the documented ones *)
Theorem C19_method_tables_as_documented :
  mp_exclude_prefixes = mp_doc_exclude_prefixes /\ mp_exclude_names = mp_doc_exclude_names.
Proof. exact mp_tables_as_documented. Qed.
Print Assumptions C19_method_tables_as_documented.

(* ---------------------------------------------------------------- 6. conditional verbose logging (src/linters/print_statements) *)
(* every quirk vector; every context none of whose wrappers is an `if` with a verbose-like test (such a wrapper makes
   every logger call of the fragment an occurrence of the pattern) *)
Theorem C19_condverbose_local : forall q c frag,
  cv_ctx_ok c = true ->
  Permutation (cv_reports q (plug c frag))
              (shiftRs (off_l c) (off_c c) (cv_reports q frag) ++ cv_reports q (fillers c)).
Proof. exact cv_embedding_fillers. Qed.
Print Assumptions C19_condverbose_local.

Theorem C19_condverbose_local_ordered : forall q c frag,
  cv_ctx_ok c = true ->
  cv_reports q (plug c frag) =
  ctx_pre cv_step (cv_emit q) c (false, false) ++ shiftRs (off_l c) (off_c c) (cv_reports q frag)
  ++ ctx_post cv_step (cv_emit q) c (false, false).
Proof. exact cv_embedding_local. Qed.
Print Assumptions C19_condverbose_local_ordered.

Theorem C19_condverbose_copies : forall q n h frag,
  cv_reports q (copies n h frag) = flat_map (fun k => shiftRs (k * h) 0 (cv_reports q frag)) (seq 0 n).
Proof. exact cv_copies. Qed.
Print Assumptions C19_condverbose_copies.

(* renaming: every renaming that keeps verbose-likeness and logger-method-ness of every name and keeps `get` apart *)
Theorem C19_condverbose_rename : forall q sg file,
  cv_sigma_ok sg -> cv_reports q (renameF sg file) = map (renameR sg) (cv_reports q file).
Proof. exact cv_rename. Qed.
Print Assumptions C19_condverbose_rename.

Theorem C19_condverbose_rename_finite : forall q sg file,
  cv_names_kept sg = true -> avoids [cv_get_name] sg = true ->
  cv_reports q (renameF (sigma_of sg) file) = map (renameR (sigma_of sg)) (cv_reports q file).
Proof. exact cv_rename_finite. Qed.
Print Assumptions C19_condverbose_rename_finite.

(* once per occurrence, also below a verbose wrapper (flag off): an uncovered verbose `if` reports every logger call below
   its body exactly once - nested verbose tests add nothing; its test and else branch are analysed on their own *)
Theorem C19_condverbose_once : forall q, q_cv_per_enclosing_if q = false -> forall s t,
  is_verbose_if (erase t) = true -> covered s t = false ->
  detect cv_step (cv_emit q) s t =
  body_calls t ++ flat_map (detect cv_step (cv_emit q) (false, true))
                           (filter (fun k => negb (String.eqb (nrole k) cv_body_field)) (nkids t)).
Proof. exact cv_once_per_call. Qed.
Print Assumptions C19_condverbose_once.

(* confinement of q_cv_per_enclosing_if: it shows only on files where a verbose `if` lies in the body of another one *)
Theorem C19_condverbose_quirk_partial : forall q file,
  forallb (no_nested_verbose (false, false)) file = true -> cv_reports q file = cv_reports v_ideal file.
Proof. exact cv_quirk_partial. Qed.
Print Assumptions C19_condverbose_quirk_partial.

(* ---------------------------------------------------------------- 7. regex calls in loops (src/linters/performance/regex_analyzer.py) *)
(* name facts from the enclosing scopes only (flag off): every context whose wrappers are neither loops nor import / assignment
   statements and whose parts contain no loop and bind no regex name at the level of their scope - whatever they bind inside
   their own functions and classes; such a context reports nothing itself *)
Theorem C19_regex_local : forall q, q_rx_file_wide_names q = false -> forall c frag,
  rx_ctx_ok c = true ->
  rx_reports q (plug c frag) = shiftRs (off_l c) (off_c c) (rx_reports q frag) ++ rx_reports q (fillers c).
Proof. exact rx_embedding_local. Qed.
Print Assumptions C19_regex_local.

(* every quirk vector: n copies, once per occurrence *)
Theorem C19_regex_copies : forall q n h frag,
  rx_reports q (copies n h frag) = flat_map (fun k => shiftRs (k * h) 0 (rx_reports q frag)) (seq 0 n).
Proof. exact rx_copies. Qed.
Print Assumptions C19_regex_copies.

(* renaming, every quirk vector: a one-to-one renaming that keeps `re`, `compile` and the re function names apart *)
Theorem C19_regex_rename : forall sg, rx_sigma_ok sg -> forall q file,
  rx_reports q (renameF sg file) = map (renameR sg) (rx_reports q file).
Proof. exact rx_rename. Qed.
Print Assumptions C19_regex_rename.

(* confinement of q_rx_file_wide_names: with the facts of the whole file in force the law still holds for every context that
   binds no regex name anywhere (also not inside its own functions), contains no loop and wraps in no loop *)
Theorem C19_regex_file_wide_partial : forall q, q_rx_file_wide_names q = true -> forall c frag,
  rx_ctx_binds_nothing c = true ->
  rx_reports q (plug c frag) = shiftRs (off_l c) (off_c c) (rx_reports q frag).
Proof. exact rx_file_wide_partial. Qed.
Print Assumptions C19_regex_file_wide_partial.

(* ---------------------------------------------------------------- non-vacuity *)
(* the documented violating example of docs/performance-linter.md, inside a method of a class, after a closed
   filler: in the theorem's domain, reported once, moved by the context's offset *)
Definition ex_doc : list ast :=
  [N "body" "FunctionDef" 1 0 "build_message" "" [N "args" "arguments" 1 0 "" "" [N "args" "arg" 1 18 "items" "" []];
     N "body" "Assign" 2 4 "" "" [N "targets" "Name" 2 4 "result" "" []; N "value" "Constant" 2 13 "" "str" []];
     N "body" "For" 3 4 "" "" [N "target" "Name" 3 8 "item" "" []; N "iter" "Name" 3 16 "items" "" [];
        N "body" "AugAssign" 4 8 "" "" [N "target" "Name" 4 8 "result" "" []; N "op" "Add" 4 8 "" "" [];
           N "value" "Call" 4 18 "" "" [N "func" "Name" 4 18 "str" "" []; N "args" "Name" 4 22 "item" "" []]]];
     N "body" "Return" 5 4 "" "" [N "value" "Name" 5 11 "result" "" []]]].
Definition ex_ctx : ctx :=
  Seq [N "body" "FunctionDef" 1 0 "other" "" [N "args" "arguments" 1 0 "" "" []; N "body" "Pass" 2 4 "" "" []]] 3
      (Wrap (I "body" "ClassDef" 1 0 "Holder" "") [] [] 1 4
         (Wrap (I "body" "FunctionDef" 1 0 "method" "") [N "args" "arguments" 1 0 "" "" [N "args" "arg" 1 11 "self" "" []]] [] 1 4 Hole)) [].
Example C19_nonvacuous :
  cc_ctx_ok ex_ctx = true /\ pr_ctx_ok ex_ctx = true
  /\ concat_reports c_ideal ex_doc = [(4, 8, "for", "result")]
  /\ concat_reports c_ideal (plug ex_ctx ex_doc) = [(9, 16, "for", "result")]
  /\ concat_reports c_ideal (copies 2 7 ex_doc) = [(4, 8, "for", "result"); (11, 8, "for", "result")].
Proof. vm_compute. repeat split; reflexivity. Qed.
