(* Props/C06Known.v — refutations: for each flag claimed `true` in Actual/OutputActual.v a concrete input on which the
   faithful model violates the specification (closed by vm_compute).  The same inputs are in corpus/C06 and are
   replayed on the implementation on every run. *)
From TL Require Import Lib.Base Model.OutputTypes Gen.OutputGen Model.Output Model.OutputRun Actual.OutputActual.
From Coq Require Import ZArith.
Local Open Scope Z_scope.
Local Open Scope string_scope.

(* a file name with an undecodable byte (0xE9): JSON and text show U+FFFD, SARIF the raw byte *)
Definition w_surrogate : list viol := [Build_viol "file-placement" (sx [99; 97; 102; 233; 46; 116; 120; 116]%N) 1 0 "not here"].
Theorem C06_sarif_unsanitized_refuted :
  decode_sarif (render_sarif output_actual "0" w_surrogate) <> option_map fst (decode_json (render_json w_surrogate)).
Proof. vm_compute. discriminate. Qed.

(* a Python source with a NUL byte: SyntaxError without line number, the builder writes line 0, SARIF startLine 0 *)
Definition w_nul : list vsrc := [VSyntax "nesting" "nesting.excessive-depth" "nul.py" None None "source code string cannot contain null bytes"].
Theorem C06_syntax_line_zero_refuted :
  sarif_wf (render_sarif output_actual "0" (map (realize output_actual) w_nul)) = false
  /\ sarif_wf (render_sarif ideal "0" (map (realize ideal) w_nul)) = true.
Proof. vm_compute. split; reflexivity. Qed.

(* text layout: `x:3` at line 1 and `x` at line 3, column 1 print the same *)
Definition w_colon_a : list viol := [Build_viol "file-placement" "x:3" 1 0 "not here"].
Definition w_colon_b : list viol := [Build_viol "file-placement" "x" 3 1 "not here"].
Theorem C06_text_omit_zero_refuted :
  text_output output_actual w_colon_a = text_output output_actual w_colon_b
  /\ map san_core w_colon_a <> map san_core w_colon_b
  /\ parse_text output_actual (text_output output_actual w_colon_a) <> Some (map san_core w_colon_a).
Proof. vm_compute. repeat split; discriminate. Qed.

(* text layout: a message that contains a newline can imitate the next violation *)
Definition w_newline_a : list viol :=
  [ Build_viol "r" "f" 1 0 (sx [109; 10; 10; 32; 32; 103; 58; 50; 10; 32; 32; 32; 32; 91; 69; 82; 82; 79; 82; 93; 32; 114; 58; 32; 110]%N);
    Build_viol "r" "h" 3 0 "o" ].
Definition w_newline_b : list viol :=
  [ Build_viol "r" "f" 1 0 "m";
    Build_viol "r" "g" 2 0 (sx [110; 10; 10; 32; 32; 104; 58; 51; 10; 32; 32; 32; 32; 91; 69; 82; 82; 79; 82; 93; 32; 114; 58; 32; 111]%N) ].
Theorem C06_text_raw_newline_refuted :
  text_output output_actual w_newline_a = text_output output_actual w_newline_b
  /\ map san_core w_newline_a <> map san_core w_newline_b
  /\ parse_text output_actual (text_output output_actual w_newline_a) <> Some (map san_core w_newline_a).
Proof. vm_compute. repeat split; discriminate. Qed.

(* thailint --config <missing file> <command>: runs with defaults *)
Theorem C06_group_missing_config_refuted :
  usage_outcome output_actual "nesting" UGroupMissingConfig <> spec_outcome UGroupMissingConfig.
Proof. vm_compute. discriminate. Qed.

(* dry --config <empty file>: exit 2 although the run can be performed *)
Theorem C06_dry_empty_config_refuted :
  usage_outcome output_actual "dry" UEmptyConfig <> spec_outcome UEmptyConfig
  /\ usage_outcome output_actual "nesting" UEmptyConfig = spec_outcome UEmptyConfig.
Proof. vm_compute. split; [discriminate|reflexivity]. Qed.
