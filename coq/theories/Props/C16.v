(* Props/C16.v — property C16 (SRP linter applies its method, size and keyword thresholds exactly).
   Only statements closed by `exact <lemma>` and their Print Assumptions. *)
From TL Require Import Lib.Base Lib.GenTypes Model.SrpTypes Gen.SrpGen Model.SrpSpec Model.Srp
     Proofs.SrpBase Proofs.SrpEval Proofs.SrpCount Proofs.SrpMain Proofs.SrpCor Proofs.SrpParse.
From TL Require Import Gen.SrpCliGen Model.SrpCliSpec Model.SrpCli Proofs.SrpCliP.

(* 1. For every quirk vector whose flags are off, every configuration and every admissible file of any of the
      four languages (any number of classes / structs + impl blocks, members of every kind, nested classes,
      any mix of code / blank / comment lines): the linter model reports exactly one violation for each class
      whose public-method count exceeds max_methods, or whose lines of code exceed max_loc, or (keyword
      checking on) whose name contains a configured keyword -- at the class's position, with the documented
      message listing the exceeded criteria with the true counts -- and nothing else.  The limits in force
      are the language section's, then the top-level ones, then 7 / 200. *)
Theorem C16_report_exact : forall q c f,
  flags_off q -> file_good f = true -> report q c f = spec_report c f.
Proof. exact report_exact_ideal. Qed.
Print Assumptions C16_report_exact.

(* 1'. Finer: a flag may stay on as long as the file is outside that flag's defect class. *)
Theorem C16_report_exact_per_flag : forall q c f,
  file_good f = true -> quirks_ok q f = true -> report q c f = spec_report c f.
Proof. exact report_exact. Qed.
Print Assumptions C16_report_exact_per_flag.

(* 1''. Confinement (partial: the full statement is 1): EVERY quirk vector, the one claimed for the current
      tree included, is exact on files outside the nine defect classes that are still listed.  (Abstract classes,
      trait / generic impl blocks and blank / comment lines in TS classes are no longer defect classes: the
      repaired code is covered by 1 and 1' through the generated ts_class_node_types, rs_target_mode, ts_loc_mode.) *)
Theorem C16_actual_exact_partial : forall q c f,
  file_good f = true -> defect_free f = true -> report q c f = spec_report c f.
Proof. exact report_exact_partial. Qed.
Print Assumptions C16_actual_exact_partial.

(* 2. Reported iff a limit is exceeded (strictly) or the keyword criterion fires. *)
Theorem C16_reported_iff : forall name line col mm ml ck mc loc kw,
  spec_unit_rep name line col mm ml ck mc loc kw <> [] <-> (mm < mc \/ ml < loc \/ (ck = true /\ kw = true)).
Proof. exact unit_reported_iff. Qed.
Print Assumptions C16_reported_iff.

(* 3. Boundary: exactly on both limits -> not reported; one method or one line more -> reported.
      Stated for the specification and for the model's evaluate_metrics as generated from the source. *)
Theorem C16_boundary : forall name line col mm ml ck kw,
  ck && kw = false ->
  spec_unit_rep name line col mm ml ck mm ml kw = []
  /\ spec_unit_rep name line col mm ml ck (S mm) ml kw <> []
  /\ spec_unit_rep name line col mm ml ck mm (S ml) kw <> [].
Proof. exact unit_boundary. Qed.
Print Assumptions C16_boundary.

Theorem C16_boundary_model : forall d name line0 col hl hc cfg kw,
  d = py_metrics_dict \/ d = ts_metrics_dict \/ d = rs_metrics_dict ->
  cf_check cfg && kw = false ->
  class_rep d name (cf_mm cfg) (cf_ml cfg) kw line0 col hl hc cfg = []
  /\ class_rep d name (S (cf_mm cfg)) (cf_ml cfg) kw line0 col hl hc cfg <> []
  /\ class_rep d name (cf_mm cfg) (S (cf_ml cfg)) kw line0 col hl hc cfg <> [].
Proof. exact model_boundary. Qed.
Print Assumptions C16_boundary_model.

(* 4. The message lists exactly the exceeded criteria, in the order methods / lines / keyword, with the true
      counts and the limits in force. *)
Theorem C16_message_exact : forall name line col mm ml ck mc loc kw r,
  In r (spec_unit_rep name line col mm ml ck mc loc kw) ->
  r = (line, col, sconcat ["Class '"; name; "' may violate SRP: ";
                           join ", " (map (crit_text mm ml mc loc) (filter (exceeded mm ml ck mc loc kw) [KMethods; KLines; KKeyword]))]).
Proof. exact unit_message. Qed.
Print Assumptions C16_message_exact.

(* 4'. Parse-back: a parser for the issue list reads exactly the counts and the limits in force back from the text
      (decimal rendering round trip), so two messages of a class agree only if they state the same numbers. *)
Theorem C16_issues_parse_back : forall mm ml ck mc loc kw,
  parse_issues (join ", " (spec_issues mm ml ck mc loc kw))
  = Some (if mm <? mc then Some (mc, mm) else None, if ml <? loc then Some (loc, ml) else None, ck && kw).
Proof. exact issues_parse_back. Qed.
Print Assumptions C16_issues_parse_back.

Theorem C16_message_injective : forall name mm ml ck mc loc kw mm' ml' ck' mc' loc' kw',
  spec_message name (spec_issues mm ml ck mc loc kw) = spec_message name (spec_issues mm' ml' ck' mc' loc' kw') ->
  (if mm <? mc then Some (mc, mm) else None) = (if mm' <? mc' then Some (mc', mm') else None)
  /\ (if ml <? loc then Some (loc, ml) else None) = (if ml' <? loc' then Some (loc', ml') else None)
  /\ ck && kw = ck' && kw'.
Proof. intros name mm ml ck mc loc kw mm' ml' ck' mc' loc' kw' H. exact (issues_injective _ _ _ _ _ _ _ _ _ _ _ _ (message_injective name _ _ H)). Qed.
Print Assumptions C16_message_injective.

(* 4''. str.strip() as modelled: a rendered line (whitespace indentation + text + trailing whitespace) strips to its text. *)
Theorem C16_strip_render : forall a t b,
  all_ws a = true -> all_ws b = true -> (match t with String c _ => is_ws c | EmptyString => false end) = false ->
  strip (a ++ t ++ b) = rstrip t.
Proof. exact strip_render. Qed.
Print Assumptions C16_strip_render.

(* 5. One violation per flagged class (struct), in order, none for the others. *)
Theorem C16_one_violation_per_class : forall q c f,
  file_good f = true -> quirks_ok q f = true ->
  report q c f =
  if negb (spec_enabled (spec_section c)) then []
  else match f_lang f with
       | Rs => map (fun st => hd dummy_rep (spec_struct_rep (spec_section c) f st)) (filter (struct_flagged (spec_section c) f) (f_structs f))
       | _ => map (fun cl => hd dummy_rep (spec_class_rep (spec_section c) f cl)) (filter (class_flagged (spec_section c) f) (f_classes f))
       end.
Proof. exact report_one_per_unit. Qed.
Print Assumptions C16_one_violation_per_class.

(* 6. Language overrides apply only to files of that language: setting another language's section never
      changes the report of a file (every quirk vector; also for the specification). *)
Theorem C16_override_scope : forall q k v s rest f,
  ext_ok (f_lang f) (f_ext f) = true -> other_lang_key (f_lang f) k = true ->
  report q (("srp", (k, VSec v) :: s) :: rest) f = report q (("srp", s) :: rest) f.
Proof. exact override_scope. Qed.
Print Assumptions C16_override_scope.

Theorem C16_override_scope_spec : forall k v s rest f,
  other_lang_key (f_lang f) k = true ->
  spec_report (("srp", (k, VSec v) :: s) :: rest) f = spec_report (("srp", s) :: rest) f.
Proof. exact override_scope_spec. Qed.
Print Assumptions C16_override_scope_spec.

(* 7. Raising a threshold never adds a violation (every quirk vector). *)
Theorem C16_monotone : forall q h cfg cfg' f,
  cf_mm cfg <= cf_mm cfg' -> cf_ml cfg <= cf_ml cfg' ->
  cf_enabled cfg = cf_enabled cfg' -> cf_check cfg = cf_check cfg' -> cf_keywords cfg = cf_keywords cfg' ->
  incl (map fst (report_conf q h cfg' f)) (map fst (report_conf q h cfg f)).
Proof. exact report_monotone. Qed.
Print Assumptions C16_monotone.

(* 8. The keyword criterion is substring containment of a configured keyword. *)
Theorem C16_keyword_iff : forall kws name,
  spec_keyword kws name = true <-> exists kw a b, In kw kws /\ name = (a ++ kw ++ b)%string.
Proof. exact keyword_iff. Qed.
Print Assumptions C16_keyword_iff.

(* 9. Defaults found in the source (dataclass fields and from_dict fallbacks) agree with the documentation. *)
Theorem C16_defaults_agree :
  srp_dc_max_methods = 7 /\ srp_dc_max_loc = 200 /\ srp_dc_check_keywords = true /\ srp_dc_enabled = true
  /\ srp_dc_keywords = ["Manager"; "Handler"; "Processor"; "Utility"; "Helper"]
  /\ snd srp_fd_top_mm = srp_dc_max_methods /\ snd srp_fd_top_ml = srp_dc_max_loc
  /\ snd srp_fd_lang_mm = srp_dc_max_methods /\ snd srp_fd_lang_ml = srp_dc_max_loc
  /\ snd srp_fd_check_keywords = srp_dc_check_keywords /\ snd srp_fd_enabled = srp_dc_enabled
  /\ snd srp_fd_keywords = srp_dc_keywords /\ srp_rule_id = "srp.violation".
Proof. exact defaults_agree. Qed.
Print Assumptions C16_defaults_agree.

(* 10. `thailint srp --max-methods N --max-loc M`.  The override as generated from the command's source
      (click option -> srp() -> _execute_srp_lint -> _apply_srp_config_override -> set_config_value; section name, keys,
      the guard of the early return) is the documented one for every configuration and every combination of options, so a
      run with options reports exactly what the specification demands under the overridden configuration. *)
Theorem C16_cli_override_is_documented : forall omm oml c, cli_override omm oml c = spec_cli omm oml c.
Proof. exact cli_override_spec. Qed.
Print Assumptions C16_cli_override_is_documented.

Theorem C16_cli_report_exact : forall q omm oml c f,
  flags_off q -> file_good f = true -> report q (cli_override omm oml c) f = spec_report (spec_cli omm oml c) f.
Proof. exact cli_report_exact. Qed.
Print Assumptions C16_cli_report_exact.

Theorem C16_cli_report_exact_per_flag : forall q omm oml c f,
  file_good f = true -> quirks_ok q f = true -> report q (cli_override omm oml c) f = spec_report (spec_cli omm oml c) f.
Proof. exact cli_report_exact_per_flag. Qed.
Print Assumptions C16_cli_report_exact_per_flag.

(* 10'. What the documented override means: a given option IS the limit in force for every file whose language has no
      section of its own in the configuration file, whatever the file's top-level key said; an option that is not given
      leaves that limit alone; keyword settings and the enabled switch are never touched; admissible options keep the
      configuration admissible.  (Which of the two wins when the file's own language has a section is property C05's subject.) *)
Theorem C16_cli_limit_in_force : forall c l n,
  sec_sub (lang_key l) (spec_section c) = None ->
  (forall oml, spec_mm (spec_section (spec_cli (Some n) oml c)) l = n)
  /\ (forall omm, spec_ml (spec_section (spec_cli omm (Some n) c)) l = n).
Proof. intros c l n H. split; intros o; [now apply cli_limit_mm | now apply cli_limit_ml]. Qed.
Print Assumptions C16_cli_limit_in_force.

Theorem C16_cli_absent_option_changes_nothing : forall c l,
  (forall oml, spec_mm (spec_section (spec_cli None oml c)) l = spec_mm (spec_section c) l)
  /\ (forall omm, spec_ml (spec_section (spec_cli omm None c)) l = spec_ml (spec_section c) l)
  /\ (forall omm oml, spec_check (spec_section (spec_cli omm oml c)) = spec_check (spec_section c)
                      /\ spec_enabled (spec_section (spec_cli omm oml c)) = spec_enabled (spec_section c)
                      /\ spec_keywords (spec_section (spec_cli omm oml c)) = spec_keywords (spec_section c)).
Proof. intros c l. split; [|split]; intros; [apply cli_absent_mm | apply cli_absent_ml | apply cli_other_settings]. Qed.
Print Assumptions C16_cli_absent_option_changes_nothing.

Theorem C16_cli_config_stays_admissible : forall omm oml c,
  config_good c = true -> cli_good omm oml = true -> config_good (spec_cli omm oml c) = true.
Proof. exact cli_config_good. Qed.
Print Assumptions C16_cli_config_stays_admissible.

(* non-vacuity: admissible files with classes on both sides of a limit, a per-language override in force *)
Definition ex_py : sfile :=
  Build_sfile Py ".py"
    [Build_line LCode "class UserManager:"; Build_line LComment "# note"; Build_line LCode "def run(self): return 1";
     Build_line LBlank ""; Build_line LCode "def _hidden(self): return 2"; Build_line LCode "def load(self): return 3";
     Build_line LCode "class Plain:"; Build_line LCode "x = 1"]
    [Build_cls "UserManager" CPlain 1 0 0 6 [Build_member MPlain "run"; Build_member MPlain "_hidden"; Build_member MPlain "load"];
     Build_cls "Plain" CPlain 7 0 0 2 [Build_member MField "x"]] [] [].
Definition ex_cfg : config :=
  [("srp", [("max_methods", VNat 9); ("python", VSec [("max_methods", 1)]); ("typescript", VSec [("max_methods", 5)]); ("max_loc", VNat 4)])].
Example C16_nonvacuous :
  file_good ex_py = true /\ config_good ex_cfg = true /\ defect_free ex_py = true
  /\ spec_report ex_cfg ex_py = [(1, 0, "Class 'UserManager' may violate SRP: 2 methods (max: 1), responsibility keyword in name")]
  /\ spec_report [("srp", [("max_methods", VNat 2); ("max_loc", VNat 3); ("check_keywords", VBool false)])] ex_py
     = [(1, 0, "Class 'UserManager' may violate SRP: 4 lines (max: 3)")].
Proof. vm_compute. repeat split; reflexivity. Qed.

(* the command-line options on the same file: --max-methods 2 silences the method criterion that the file's top-level key
   (max_methods: 1) raises, --max-loc 3 adds the line criterion; a configuration file without an srp section gets one *)
Definition ex_cfg_cli : config := [("srp", [("max_methods", VNat 1); ("check_keywords", VBool false)])].
Example C16_cli_nonvacuous :
  config_good ex_cfg_cli = true /\ cli_good (Some 2) (Some 3) = true
  /\ spec_report ex_cfg_cli ex_py = [(1, 0, "Class 'UserManager' may violate SRP: 2 methods (max: 1)")]
  /\ report ideal (cli_override (Some 2) None ex_cfg_cli) ex_py = []
  /\ report ideal (cli_override (Some 2) (Some 3) ex_cfg_cli) ex_py = [(1, 0, "Class 'UserManager' may violate SRP: 4 lines (max: 3)")]
  /\ cli_override None (Some 3) [] = [("srp", [("max_loc", VNat 3)])].
Proof. vm_compute. repeat split; reflexivity. Qed.
