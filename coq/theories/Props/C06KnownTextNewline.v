(* Props/C06KnownTextNewline.v - refutation witness of the listed finding q_text_raw_newline *)
From TL Require Import Lib.Base Model.OutputTypes Gen.OutputGen Model.Output Model.OutputRun Actual.OutputActual.
From Coq Require Import ZArith.
Local Open Scope Z_scope.
Local Open Scope string_scope.

(* text layout: a message that contains a newline can imitate the next violation *)
Definition w_newline_a : list viol :=
  [ Build_viol "r" "f" 1 0 (sx [109; 10; 10; 32; 32; 103; 58; 50; 10; 32; 32; 32; 32; 91; 69; 82; 82; 79; 82; 93; 32; 114; 58; 32; 110]%N);
    Build_viol "r" "h" 3 0 "o" ].
Definition w_newline_b : list viol :=
  [ Build_viol "r" "f" 1 0 "m";
    Build_viol "r" "g" 2 0 (sx [110; 10; 10; 32; 32; 104; 58; 51; 10; 32; 32; 32; 32; 91; 69; 82; 82; 79; 82; 93; 32; 114; 58; 32; 111]%N) ].
Theorem C06_text_raw_newline_refuted :
  text_output output_actual w_newline_a = text_output output_actual w_newline_b
  /\ map san_core w_newline_a <> map san_core w_newline_b
  /\ parse_text output_actual (text_output output_actual w_newline_a) <> Some (map san_core w_newline_a).
Proof. vm_compute. repeat split; discriminate. Qed.

