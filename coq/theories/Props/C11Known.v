(* Props/C11Known.v — refutation of the one containment defect claimed for the current tree
   (Actual/ContainActual.v: q_value_error_escapes).  The abstract witness below is what happened with the real
   input corpus/C11/hex_literal_*.json before /repo commit c31b9fc (the magic-numbers rule raised ValueError
   "Exceeds the limit (4300 digits) for integer string conversion" on a 5000-digit hexadecimal literal); the
   re-raising clause itself is still in the source, so any rule raising a ValueError on content has this effect. *)
From TL Require Import Lib.Base Lib.GenTypes Model.ContainTypes Gen.ContainGen Model.Contain Model.ContainRun Model.ContainWalk Actual.ContainActual.

Definition w_rules : list rule :=
  [ {| r_id := "nesting"; r_res := fun p => Ok [("nesting", p, 3)]; r_contrib := fun _ => []; r_final := fun _ => Ok []; r_cross := false |};
    {| r_id := "magic-numbers"; r_res := fun p => if String.eqb p "big.py" then Fail EValue else Ok [("magic-numbers", p, 5)];
       r_contrib := fun _ => []; r_final := fun _ => Ok []; r_cross := false |} ].
Definition w_files : list string := ["a.py"; "big.py"; "b.rs"].

(* sequential run: the whole run is lost, the command exits 2 *)
Theorem C11_value_error_escapes_refuted :
  fst (run contain_actual w_rules w_files) <> spec_run w_rules w_files
  /\ fst (run contain_actual w_rules w_files) = Crashed EValue
  /\ exit_code (fst (run contain_actual w_rules w_files)) = 2.
Proof. vm_compute. repeat split; try reflexivity. discriminate. Qed.

(* without the offending file the siblings have findings: they are what is lost *)
Theorem C11_value_error_siblings_lost_refuted :
  fst (run contain_actual w_rules ["a.py"; "b.rs"])
  = Completed [("a.py", "nesting", [("nesting", "a.py", 3)]); ("a.py", "magic-numbers", [("magic-numbers", "a.py", 5)]);
               ("b.rs", "nesting", [("nesting", "b.rs", 3)]); ("b.rs", "magic-numbers", [("magic-numbers", "b.rs", 5)])]
              [("nesting", []); ("magic-numbers", [])].
Proof. vm_compute. reflexivity. Qed.

(* parallel path: worker and future reader re-raise it as well, the run is lost in the same way *)
Theorem C11_value_error_parallel_refuted :
  fst (run_par contain_actual w_rules w_files) = Crashed EValue
  /\ fst (run_par contain_actual w_rules w_files) <> spec_run w_rules w_files.
Proof. vm_compute. split; [reflexivity|discriminate]. Qed.

(* ---- q_finalize_unguarded: a cross-file rule whose finalize() raises (here: KeyError once its store holds datum 7) ---- *)
Definition f_rules : list rule :=
  [ {| r_id := "nesting"; r_res := fun p => Ok [("nesting", p, 3)]; r_contrib := fun _ => []; r_final := fun _ => Ok []; r_cross := false |};
    {| r_id := "dry"; r_res := fun _ => Ok []; r_contrib := fun p => if String.eqb p "odd.py" then [(p, 7)] else [(p, 1)];
       r_final := fun s => if existsb (fun ev : evid => snd ev =? 7) s then Fail EKey else Ok (map (fun ev : evid => ("dry", fst ev, snd ev)) s);
       r_cross := true |} ].

Theorem C11_finalize_unguarded_refuted :
  fst (run contain_actual f_rules ["a.py"; "odd.py"]) = Crashed EKey
  /\ fst (run contain_actual f_rules ["a.py"; "odd.py"]) <> spec_run f_rules ["a.py"; "odd.py"]
  /\ spec_run f_rules ["a.py"; "odd.py"]
     = Completed [("a.py", "nesting", [("nesting", "a.py", 3)]); ("a.py", "dry", []);
                  ("odd.py", "nesting", [("nesting", "odd.py", 3)]); ("odd.py", "dry", [])]
                 [("nesting", []); ("dry", [])]
  /\ exit_code (fst (run contain_actual f_rules ["a.py"; "odd.py"])) = 2.
Proof. vm_compute. repeat split; try reflexivity. discriminate. Qed.

(* UnicodeDecodeError and JSONDecodeError are ValueErrors too *)
Theorem C11_value_family_members_refuted :
  map (fun e => (exc_name e)) (filter (fun e => match dispatch safe_check_handlers e with Some HReturnEmpty => false | _ => true end) all_exc)
  = ["ValueError"; "UnicodeDecodeError"; "UnicodeEncodeError"; "JSONDecodeError"].
Proof. vm_compute. reflexivity. Qed.

(* ---- q_walk_recursive: 40 nested nodes do not fit into 30 frames (the real numbers: ~1000 frames, nesting beyond ~950) ---- *)
Theorem C11_walk_recursive_refuted :
  walker walk_actual 30 "x" (skel 40 3) = None /\ count "x" (skel 40 3) = 3 /\ walker walk_actual 41 "x" (skel 40 3) = Some 3.
Proof. vm_compute. repeat split; reflexivity. Qed.
