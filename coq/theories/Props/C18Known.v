(* Props/C18Known.v — refutations: for each finding still listed as known a concrete rule set and file on which
   the faithful model differs from the specification, and agrees with it once that one flag is switched off
   (closed by vm_compute); for each finding repaired in /repo a regression statement: the old witness now
   meets the specification under the faithful model.  The tables are re.search(pattern, path, IGNORECASE) for the
   strings involved; the same inputs are in corpus/C18 and are replayed on the implementation on every run,
   where the harness tabulates the real engine. *)
From Coq Require Import ZArith.
From TL Require Import Lib.Base Lib.GenTypes Model.PlacementTypes Gen.PlacementGen Model.Placement Model.PlacementSource
     Model.PlacementRun Actual.PlacementActual Proofs.PlacementOrder.

Definition all_valid (p : string) : bool := true.
Definition absf (p : string) : fileq := {| f_cwd := ""; f_rest := p; f_relative := false |}.

(* src/ok.py satisfies its directory rule and is reported by global_deny *)
Definition w1_cfg : config := {|
  c_dirs := Some [("src", {| r_allow := Some [AStr ".*\.py$"]; r_deny := None |})];
  c_gdeny := Some [DStr "ok"]; c_gpat := None |}.
Definition w1_mt := [(".*\.py$", "src/ok.py", true); ("ok", "src/ok.py", true)].
Theorem C18_global_on_covered_refuted :
  forget (run all_valid (tbl_matches w1_mt) placement_actual w1_cfg (absf "src/ok.py"))
    <> spec all_valid (tbl_matches w1_mt) w1_cfg (absf "src/ok.py")
  /\ forget (run all_valid (tbl_matches w1_mt) (with_flag 0 placement_actual) w1_cfg (absf "src/ok.py"))
    = spec all_valid (tbl_matches w1_mt) w1_cfg (absf "src/ok.py").
Proof. split; vm_compute; [discriminate|reflexivity]. Qed.

(* the rule for `src` judges src2/x.txt *)
Definition w2_cfg : config := {|
  c_dirs := Some [("src", {| r_allow := Some [AStr ".*\.py$"]; r_deny := None |})];
  c_gdeny := None; c_gpat := None |}.
Definition w2_mt := [(".*\.py$", "src2/x.txt", false)].
(* fixed by a23cd20: src2/x.txt is no longer judged by the rule of src *)
Theorem C18_prefix_without_separator_fixed :
  forget (run all_valid (tbl_matches w2_mt) placement_actual w2_cfg (absf "src2/x.txt"))
    = spec all_valid (tbl_matches w2_mt) w2_cfg (absf "src2/x.txt").
Proof. vm_compute. reflexivity. Qed.

(* sibling keys sharing a string prefix: first listed wins although only one contains the file *)
Definition w2b_cfg : config := {|
  c_dirs := Some [("sr", {| r_allow := None; r_deny := Some [DStr "a"] |});
                  ("src", {| r_allow := None; r_deny := None |})];
  c_gdeny := None; c_gpat := None |}.
Definition w2b_mt := [("a", "src/a.py", true)].
(* fixed by a23cd20: only src contains src/a.py, sr does not compete *)
Theorem C18_prefix_tie_first_wins_fixed :
  forget (run all_valid (tbl_matches w2b_mt) placement_actual w2b_cfg (absf "src/a.py"))
    = spec all_valid (tbl_matches w2b_mt) w2b_cfg (absf "src/a.py").
Proof. vm_compute. reflexivity. Qed.

(* run from inside src/, `test_a.py` is judged as a root-level file: the deny rule of src is not applied *)
Definition w3_cfg : config := {|
  c_dirs := Some [("src", {| r_allow := None; r_deny := Some [DStr "test_"] |})];
  c_gdeny := None; c_gpat := None |}.
Definition w3_mt := [("test_", "src/test_a.py", true); ("test_", "test_a.py", true)].
Definition w3_file : fileq := {| f_cwd := "src"; f_rest := "test_a.py"; f_relative := true |}.
(* fixed by 12368d4: test_a.py handed over from inside src/ is judged as src/test_a.py *)
Theorem C18_path_relative_to_cwd_fixed :
  forget (run all_valid (tbl_matches w3_mt) placement_actual w3_cfg w3_file)
    = spec all_valid (tbl_matches w3_mt) w3_cfg w3_file.
Proof. vm_compute. reflexivity. Qed.

(* the documented allow item {pattern: ...} makes the validator raise TypeError: nothing is reported *)
Definition w4_cfg : config := {|
  c_dirs := None; c_gdeny := None;
  c_gpat := Some {| r_allow := Some [ADict ".*\.py$"]; r_deny := None |} |}.
Definition w4_mt := [(".*\.py$", "docs/x.md", false)].
(* fixed by 423132c: the dict allow item is a pattern; docs/x.md misses it and is reported *)
Theorem C18_allow_dict_unsupported_fixed :
  forget (run all_valid (tbl_matches w4_mt) placement_actual w4_cfg (absf "docs/x.md"))
    = spec all_valid (tbl_matches w4_mt) w4_cfg (absf "docs/x.md").
Proof. vm_compute. reflexivity. Qed.

(* `lib/` (depth 2 because of the empty last component) ties with `lib/core` and, listed first, judges
   lib/core/x.py although lib/core is the most specific containing directory *)
Definition w5_cfg : config := {|
  c_dirs := Some [("lib/", {| r_allow := None; r_deny := Some [DDict "x" (Some "LIB") None] |});
                  ("lib/core", {| r_allow := None; r_deny := Some [DDict "x" (Some "CORE") None] |})];
  c_gdeny := None; c_gpat := None |}.
Definition w5_mt := [("x", "lib/core/x.py", true)].
Theorem C18_trailing_slash_depth_refuted :
  forget (run all_valid (tbl_matches w5_mt) placement_actual w5_cfg (absf "lib/core/x.py"))
    <> spec all_valid (tbl_matches w5_mt) w5_cfg (absf "lib/core/x.py")
  /\ forget (run all_valid (tbl_matches w5_mt) (with_flag 4 placement_actual) w5_cfg (absf "lib/core/x.py"))
    = spec all_valid (tbl_matches w5_mt) w5_cfg (absf "lib/core/x.py").
Proof. split; vm_compute; [discriminate|reflexivity]. Qed.

(* the same defect makes the verdict depend on the ORDER of the rules although the two directories are distinct
   (contrast C18_report_order_independent): with lib/core listed first it wins, with lib/ listed first lib/ wins *)
Definition w5_swapped : config := {|
  c_dirs := Some [("lib/core", {| r_allow := None; r_deny := Some [DDict "x" (Some "CORE") None] |});
                  ("lib/", {| r_allow := None; r_deny := Some [DDict "x" (Some "LIB") None] |})];
  c_gdeny := None; c_gpat := None |}.
Theorem C18_trailing_slash_depth_order_dependent_refuted :
  distinct_dirs (dirs_of w5_cfg)
  /\ run all_valid (tbl_matches w5_mt) placement_actual w5_cfg (absf "lib/core/x.py")
     <> run all_valid (tbl_matches w5_mt) placement_actual w5_swapped (absf "lib/core/x.py")
  /\ run all_valid (tbl_matches w5_mt) (with_flag 4 placement_actual) w5_cfg (absf "lib/core/x.py")
     = run all_valid (tbl_matches w5_mt) (with_flag 4 placement_actual) w5_swapped (absf "lib/core/x.py").
Proof.
  split; [|split; vm_compute; [discriminate|reflexivity]].
  unfold distinct_dirs. vm_compute. repeat constructor; cbn [In]; intuition discriminate.
Qed.

(* a key written with a trailing slash is NOT subject to the bare-prefix defect: `lib/` does not cover
   lib64/x.py or library.txt in the current tree (regression witness: faithful model = specification) *)
Definition w6_cfg : config := {|
  c_dirs := Some [("lib/", {| r_allow := Some []; r_deny := None |})]; c_gdeny := None; c_gpat := None |}.
Theorem C18_trailing_slash_key_is_not_a_bare_prefix :
  forget (run all_valid (tbl_matches []) placement_actual w6_cfg (absf "lib64/x.py")) = spec all_valid (tbl_matches []) w6_cfg (absf "lib64/x.py")
  /\ forget (run all_valid (tbl_matches []) placement_actual w6_cfg (absf "library.txt")) = spec all_valid (tbl_matches []) w6_cfg (absf "library.txt")
  /\ spec all_valid (tbl_matches []) w6_cfg (absf "lib/x.py")
     = SReports [("lib/x.py", 1, 0, "File 'lib/x.py' does not match allowed patterns for lib/")].
Proof. vm_compute. repeat split; reflexivity. Qed.

(* `--rules '{"deny": ["test_"]}'`, the inline form documented in docs/configuration.md and the CLI help, has no
   effect: src/test_a.py is not reported *)
Definition w7_src : source := {| s_file := None; s_rules := Some (RToplevel {| r_allow := None; r_deny := Some [DStr "test_"] |}) |}.
Definition w7_mt := [("test_", "src/test_a.py", true)].
Theorem C18_rules_toplevel_ignored_refuted :
  forget (run_src all_valid (tbl_matches w7_mt) placement_actual placement_source_actual w7_src (absf "src/test_a.py"))
    <> spec_src all_valid (tbl_matches w7_mt) w7_src (absf "src/test_a.py")
  /\ forget (run_src all_valid (tbl_matches w7_mt) placement_actual (swith_flag 0 placement_source_actual) w7_src (absf "src/test_a.py"))
    = spec_src all_valid (tbl_matches w7_mt) w7_src (absf "src/test_a.py").
Proof. split; vm_compute; [discriminate|reflexivity]. Qed.

(* .thailint.yaml has a file-placement section; `--rules '{"global_deny": ["\.tmp$"]}'` is shadowed by it:
   notes.tmp is not reported, and src/x.txt is still judged by the file's rule *)
Definition w8_src : source := {|
  s_file := Some (FWrapped "file-placement" {| c_dirs := Some [("src", {| r_allow := Some [AStr ".*\.py$"]; r_deny := None |})];
                                               c_gdeny := None; c_gpat := None |});
  s_rules := Some (RUnwrapped {| c_dirs := None; c_gdeny := Some [DStr "\.tmp$"]; c_gpat := None |}) |}.
Definition w8_mt := [("\.tmp$", "notes.tmp", true); ("\.tmp$", "src/x.txt", false); (".*\.py$", "src/x.txt", false); (".*\.py$", "notes.tmp", false)].
Theorem C18_rules_do_not_override_file_refuted :
  forget (run_src all_valid (tbl_matches w8_mt) placement_actual placement_source_actual w8_src (absf "notes.tmp"))
    <> spec_src all_valid (tbl_matches w8_mt) w8_src (absf "notes.tmp")
  /\ forget (run_src all_valid (tbl_matches w8_mt) placement_actual placement_source_actual w8_src (absf "src/x.txt"))
    <> spec_src all_valid (tbl_matches w8_mt) w8_src (absf "src/x.txt")
  /\ forget (run_src all_valid (tbl_matches w8_mt) placement_actual (swith_flag 1 placement_source_actual) w8_src (absf "notes.tmp"))
    = spec_src all_valid (tbl_matches w8_mt) w8_src (absf "notes.tmp").
Proof. repeat split; vm_compute; try discriminate; reflexivity. Qed.

(* the root-level file `src\x.py` (a backslash is an ordinary character of a POSIX file name) is judged by the rule of
   the directory `src`, and `^lib/` matches the root-level file `lib\a.py`: the patterns and keys are tested against
   the path with every backslash turned into `/` *)
Definition w9_cfg : config := {|
  c_dirs := Some [("src", {| r_allow := None; r_deny := Some [DStr "x"] |})];
  c_gdeny := Some [DStr "^lib/"]; c_gpat := None |}.
Definition w9_mt := [("x", "src\x.py", true); ("x", "src/x.py", true); ("^lib/", "src\x.py", false); ("^lib/", "src/x.py", false);
                     ("^lib/", "lib\a.py", false); ("^lib/", "lib/a.py", true); ("x", "lib\a.py", false); ("x", "lib/a.py", false)].
Theorem C18_backslash_separator_refuted :
  forget (run all_valid (tbl_matches w9_mt) placement_actual w9_cfg (absf "src\x.py"))
    <> spec all_valid (tbl_matches w9_mt) w9_cfg (absf "src\x.py")
  /\ forget (run all_valid (tbl_matches w9_mt) placement_actual w9_cfg (absf "lib\a.py"))
    <> spec all_valid (tbl_matches w9_mt) w9_cfg (absf "lib\a.py")
  /\ forget (run all_valid (tbl_matches w9_mt) (with_flag 5 placement_actual) w9_cfg (absf "src\x.py"))
    = spec all_valid (tbl_matches w9_mt) w9_cfg (absf "src\x.py")
  /\ forget (run all_valid (tbl_matches w9_mt) (with_flag 5 placement_actual) w9_cfg (absf "lib\a.py"))
    = spec all_valid (tbl_matches w9_mt) w9_cfg (absf "lib\a.py").
Proof. repeat split; vm_compute; try discriminate; reflexivity. Qed.
