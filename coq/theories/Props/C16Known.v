(* Props/C16Known.v — (1) refutations: for each flag claimed `true` in Actual/SrpActual.v a concrete admissible
   file and configuration on which the faithful model differs from the specification, while the model with
   that single flag switched off agrees with it (closed by vm_compute);  (2) regressions: the witnesses of the four
   findings repaired by fix: commits now meet the specification under the faithful model (which reads the repaired
   rules from the generated layer).  The same inputs are in corpus/C16 (as render trees) and are replayed on the
   implementation on every run. *)
From TL Require Import Lib.Base Lib.GenTypes Model.SrpTypes Gen.SrpGen Model.SrpSpec Model.Srp Model.SrpRun Actual.SrpActual.

(* py_hash:
class Doc:
    '''Summary

    # heading
    '''
    def run(self): return 1
*)
Definition w_py_hash : sfile := F Py ".py" [L LCode "class Doc:"; L LCode """""""Summary"; L LBlank ""; L LStrHash "# heading"; L LCode """"""""; L LCode "def run(self): return 1"] [C "Doc" CPlain 1 0 0 6 [M MPlain "run"]] [] [].
Definition c_py_hash : config := [("srp", [("max_loc", VNat 4); ("check_keywords", VBool false)])].
(* ts_loc:
class Box {
  // note

  run() { return 1; }
}
*)
Definition w_ts_loc : sfile := F Ts ".ts" [L LCode "class Box {"; L LComment "// note"; L LBlank ""; L LCode "run() { return 1; }"; L LCode "}"] [C "Box" CPlain 1 0 0 5 [M MPlain "run"]] [] [].
Definition c_ts_loc : config := [("srp", [("max_loc", VNat 3); ("check_keywords", VBool false)])].
(* py_setter:
class Box:
    @property
    def x(self): return 1
    @x.setter
    def x(self, value): pass
    def run(self): return 1
*)
Definition w_py_setter : sfile := F Py ".py" [L LCode "class Box:"; L LCode "@property"; L LCode "def x(self): return 1"; L LCode "@x.setter"; L LCode "def x(self, value): pass"; L LCode "def run(self): return 1"] [C "Box" CPlain 1 0 0 6 [M MProperty "x"; M MSetter "x"; M MPlain "run"]] [] [].
Definition c_py_setter : config := [("srp", [("max_methods", VNat 1); ("check_keywords", VBool false)])].
(* py_cached:
class Box:
    @cached_property
    def x(self): return 1
    def run(self): return 1
*)
Definition w_py_cached : sfile := F Py ".py" [L LCode "class Box:"; L LCode "@cached_property"; L LCode "def x(self): return 1"; L LCode "def run(self): return 1"] [C "Box" CPlain 1 0 0 4 [M MCachedProp "x"; M MPlain "run"]] [] [].
Definition c_py_cached : config := [("srp", [("max_methods", VNat 1); ("check_keywords", VBool false)])].
(* ts_block:
class Box {
  /* block */
  run() { return 1; }
}
*)
Definition w_ts_block : sfile := F Ts ".ts" [L LCode "class Box {"; L LBlockComment "/* block */"; L LCode "run() { return 1; }"; L LCode "}"] [C "Box" CPlain 1 0 0 4 [M MPlain "run"]] [] [].
Definition c_ts_block : config := [("srp", [("max_loc", VNat 3); ("check_keywords", VBool false)])].
(* ts_nonpublic:
class Box {
  private a() { return 1; }
  b() { return 1; }
}
*)
Definition w_ts_nonpublic : sfile := F Ts ".ts" [L LCode "class Box {"; L LCode "private a() { return 1; }"; L LCode "b() { return 1; }"; L LCode "}"] [C "Box" CPlain 1 0 0 4 [M MPrivateKw "a"; M MPlain "b"]] [] [].
Definition c_ts_nonpublic : config := [("srp", [("max_methods", VNat 1); ("check_keywords", VBool false)])].
(* ts_accessor:
class Box {
  get a() { return 1; }
  b() { return 1; }
}
*)
Definition w_ts_accessor : sfile := F Ts ".ts" [L LCode "class Box {"; L LCode "get a() { return 1; }"; L LCode "b() { return 1; }"; L LCode "}"] [C "Box" CPlain 1 0 0 4 [M MProperty "a"; M MPlain "b"]] [] [].
Definition c_ts_accessor : config := [("srp", [("max_methods", VNat 1); ("check_keywords", VBool false)])].
(* ts_abstract:
abstract class Shape {
  a() { return 1; }
  b() { return 1; }
}
*)
Definition w_ts_abstract : sfile := F Ts ".ts" [L LCode "abstract class Shape {"; L LCode "a() { return 1; }"; L LCode "b() { return 1; }"; L LCode "}"] [C "Shape" CAbstract 1 0 0 4 [M MPlain "a"; M MPlain "b"]] [] [].
Definition c_ts_abstract : config := [("srp", [("max_methods", VNat 1); ("check_keywords", VBool false)])].
(* rs_trait:
struct Foo;
impl Tr for Foo {
    fn a(&self) {}
    fn b(&self) {}
}
*)
Definition w_rs_trait : sfile := F Rs ".rs" [L LCode "struct Foo;"; L LCode "impl Tr for Foo {"; L LCode "fn a(&self) {}"; L LCode "fn b(&self) {}"; L LCode "}"] [] [S' "Foo" [] false 1 0 1] [I "Foo" (TSimple "Tr") false [] 2 4 [M MPlain "a"; M MPlain "b"]].
Definition c_rs_trait : config := [("srp", [("max_methods", VNat 1); ("check_keywords", VBool false)])].
(* rs_generic:
struct Gen<T> {
    t: T,
}
impl<T> Gen<T> {
    fn a(&self) {}
    fn b(&self) {}
}
*)
Definition w_rs_generic : sfile := F Rs ".rs" [L LCode "struct Gen<T> {"; L LCode "t: T,"; L LCode "}"; L LCode "impl<T> Gen<T> {"; L LCode "fn a(&self) {}"; L LCode "fn b(&self) {}"; L LCode "}"] [] [S' "Gen" [] true 1 0 3] [I "Gen" TNone true [] 4 4 [M MPlain "a"; M MPlain "b"]].
Definition c_rs_generic : config := [("srp", [("max_methods", VNat 1); ("check_keywords", VBool false)])].
(* rs_collision:
mod m0 {
    struct Dup;
    impl Dup {
        fn a(&self) {}
    }
}
mod m1 {
    struct Dup;
    impl Dup {
        fn b(&self) {}
    }
}
*)
Definition w_rs_collision : sfile := F Rs ".rs" [L LCode "mod m0 {"; L LCode "struct Dup;"; L LCode "impl Dup {"; L LCode "fn a(&self) {}"; L LCode "}"; L LCode "}"; L LCode "mod m1 {"; L LCode "struct Dup;"; L LCode "impl Dup {"; L LCode "fn b(&self) {}"; L LCode "}"; L LCode "}"] [] [S' "Dup" ["m0"] false 2 4 1; S' "Dup" ["m1"] false 8 4 1] [I "Dup" TNone false ["m0"] 3 3 [M MPlain "a"]; I "Dup" TNone false ["m1"] 9 3 [M MPlain "b"]].
Definition c_rs_collision : config := [("srp", [("max_methods", VNat 1); ("check_keywords", VBool false)])].
(* rs_block:
struct Foo {
    /* block */
    a: i32,
}
*)
Definition w_rs_block : sfile := F Rs ".rs" [L LCode "struct Foo {"; L LBlockComment "/* block */"; L LCode "a: i32,"; L LCode "}"] [] [S' "Foo" [] false 1 0 4] [].
Definition c_rs_block : config := [("srp", [("max_loc", VNat 3); ("check_keywords", VBool false)])].

(* ts_class_expr:
const Box = class BoxImpl {
  a() { return 1; }
  b() { return 1; }
};
*)
Definition w_ts_class_expr : sfile := F Ts ".ts" [L LCode "const Box = class BoxImpl {"; L LCode "a() { return 1; }"; L LCode "b() { return 1; }"; L LCode "};"] [C "BoxImpl" CExprNamed 1 12 0 4 [M MPlain "a"; M MPlain "b"]] [] [].
Definition c_ts_class_expr : config := [("srp", [("max_methods", VNat 1); ("check_keywords", VBool false)])].

Theorem C16_py_hash_in_string_refuted :
  file_good w_py_hash = true /\ report srp_actual c_py_hash w_py_hash <> spec_report c_py_hash w_py_hash
  /\ report (with_flag 0 srp_actual) c_py_hash w_py_hash = spec_report c_py_hash w_py_hash.
Proof. vm_compute. split; [reflexivity | split; [discriminate | reflexivity]]. Qed.

Theorem C16_ts_nonpublic_counted_refuted :
  file_good w_ts_nonpublic = true /\ report srp_actual c_ts_nonpublic w_ts_nonpublic <> spec_report c_ts_nonpublic w_ts_nonpublic
  /\ report (with_flag 1 srp_actual) c_ts_nonpublic w_ts_nonpublic = spec_report c_ts_nonpublic w_ts_nonpublic.
Proof. vm_compute. split; [reflexivity | split; [discriminate | reflexivity]]. Qed.

Theorem C16_ts_accessor_counted_refuted :
  file_good w_ts_accessor = true /\ report srp_actual c_ts_accessor w_ts_accessor <> spec_report c_ts_accessor w_ts_accessor
  /\ report (with_flag 2 srp_actual) c_ts_accessor w_ts_accessor = spec_report c_ts_accessor w_ts_accessor.
Proof. vm_compute. split; [reflexivity | split; [discriminate | reflexivity]]. Qed.

Theorem C16_ts_block_comment_counted_refuted :
  file_good w_ts_block = true /\ report srp_actual c_ts_block w_ts_block <> spec_report c_ts_block w_ts_block
  /\ report (with_flag 3 srp_actual) c_ts_block w_ts_block = spec_report c_ts_block w_ts_block.
Proof. vm_compute. split; [reflexivity | split; [discriminate | reflexivity]]. Qed.

Theorem C16_rs_name_collision_refuted :
  file_good w_rs_collision = true /\ report srp_actual c_rs_collision w_rs_collision <> spec_report c_rs_collision w_rs_collision
  /\ report (with_flag 4 srp_actual) c_rs_collision w_rs_collision = spec_report c_rs_collision w_rs_collision.
Proof. vm_compute. split; [reflexivity | split; [discriminate | reflexivity]]. Qed.

Theorem C16_rs_block_comment_counted_refuted :
  file_good w_rs_block = true /\ report srp_actual c_rs_block w_rs_block <> spec_report c_rs_block w_rs_block
  /\ report (with_flag 5 srp_actual) c_rs_block w_rs_block = spec_report c_rs_block w_rs_block.
Proof. vm_compute. split; [reflexivity | split; [discriminate | reflexivity]]. Qed.

Theorem C16_py_setter_counted_refuted :
  file_good w_py_setter = true /\ report srp_actual c_py_setter w_py_setter <> spec_report c_py_setter w_py_setter
  /\ report (with_flag 6 srp_actual) c_py_setter w_py_setter = spec_report c_py_setter w_py_setter.
Proof. vm_compute. split; [reflexivity | split; [discriminate | reflexivity]]. Qed.

Theorem C16_py_cached_property_counted_refuted :
  file_good w_py_cached = true /\ report srp_actual c_py_cached w_py_cached <> spec_report c_py_cached w_py_cached
  /\ report (with_flag 7 srp_actual) c_py_cached w_py_cached = spec_report c_py_cached w_py_cached.
Proof. vm_compute. split; [reflexivity | split; [discriminate | reflexivity]]. Qed.

(* a class expression with two public methods under max_methods = 1: the specification reports it, the faithful model (like the
   implementation) reports nothing *)
Theorem C16_ts_class_expr_skipped_refuted :
  file_good w_ts_class_expr = true /\ report srp_actual c_ts_class_expr w_ts_class_expr <> spec_report c_ts_class_expr w_ts_class_expr
  /\ report srp_actual c_ts_class_expr w_ts_class_expr = []
  /\ report (with_flag 8 srp_actual) c_ts_class_expr w_ts_class_expr = spec_report c_ts_class_expr w_ts_class_expr.
Proof. vm_compute. split; [reflexivity | split; [discriminate | split; reflexivity]]. Qed.

(* fixed by c90fc92: the old witness of q_ts_loc_raw_span now meets the specification *)
Example C16_ts_loc_raw_span_fixed_regression :
  file_good w_ts_loc = true /\ report srp_actual c_ts_loc w_ts_loc = spec_report c_ts_loc w_ts_loc /\ spec_report c_ts_loc w_ts_loc = [].
Proof. vm_compute. split; [reflexivity | split; [reflexivity | reflexivity]]. Qed.

(* fixed by 447c6e4: the old witness of q_ts_abstract_skipped now meets the specification *)
Example C16_ts_abstract_skipped_fixed_regression :
  file_good w_ts_abstract = true /\ report srp_actual c_ts_abstract w_ts_abstract = spec_report c_ts_abstract w_ts_abstract /\ spec_report c_ts_abstract w_ts_abstract <> [].
Proof. vm_compute. split; [reflexivity | split; [reflexivity | discriminate]]. Qed.

(* fixed by 24b8b61: the old witness of q_rs_trait_first_ident now meets the specification *)
Example C16_rs_trait_first_ident_fixed_regression :
  file_good w_rs_trait = true /\ report srp_actual c_rs_trait w_rs_trait = spec_report c_rs_trait w_rs_trait /\ spec_report c_rs_trait w_rs_trait <> [].
Proof. vm_compute. split; [reflexivity | split; [reflexivity | discriminate]]. Qed.

(* fixed by 24b8b61: the old witness of q_rs_generic_impl_lost now meets the specification *)
Example C16_rs_generic_impl_lost_fixed_regression :
  file_good w_rs_generic = true /\ report srp_actual c_rs_generic w_rs_generic = spec_report c_rs_generic w_rs_generic /\ spec_report c_rs_generic w_rs_generic <> [].
Proof. vm_compute. split; [reflexivity | split; [reflexivity | discriminate]]. Qed.

