(* Props/C15Known.v - refutation for the listed defect q_name_exemption_ext_case and regression for the repaired one.
   q_shebang_any_ext was repaired by fix 2639201 (the shebang fallback applies to extensionless files only); its old
   witness is kept as a regression: under the claimed (faithful) vector it now meets the specification.
   The same input is in corpus/C15 and is replayed on the implementation on every run. *)
From TL Require Import Lib.Base Model.DispatchTypes Gen.DispatchGen Model.Dispatch Model.DispatchRun Actual.DispatchActual.

Definition w_tab : atab :=
  [(("nesting.excessive-depth", "python"), [("nesting.excessive-depth", 1)]);
   (("lbyl", "python"), [("lbyl.dict-key-check", 2)])].

(* notes.txt starting with a python shebang: .txt is not a recognised type, nothing may be reported *)
Definition w_txt : file := mk_file "notes.txt" "#!/usr/bin/env python" true true.
Example C15_shebang_any_ext_regression :
  cfg_clean [] = true /\ detect dispatch_actual w_txt = "unknown" /\
  run_cmd dispatch_actual "nesting" [] w_tab w_txt = Ok (spec_out "nesting" w_tab w_txt) /\
  spec_out "nesting" w_tab w_txt = [].
Proof. vm_compute. repeat split; reflexivity. Qed.

(* the extensionless script keeps being analysed as Python *)
Example C15_shebang_extensionless_regression :
  run_cmd dispatch_actual "nesting" [] w_tab (mk_file "script" "#!/usr/bin/env python" true true) = Ok [("nesting.excessive-depth", 1)].
Proof. vm_compute. reflexivity. Qed.

(* test_mod.PY is analysed as Python, but the method-property test-file exemption (`test_*.py`) does not recognise it:
   the findings that test_mod.py is spared (canonical reference: none) are reported (raw reference: tag 7) *)
Definition w_exempt_tab : atab :=
  [(("raw:method-property.should-be-property", "python"), [("method-property.should-be-property", 7)]);
   (("nesting.excessive-depth", "python"), [("nesting.excessive-depth", 1)])].
Definition w_test_upper : file := mk_file "test_mod.PY" "import os" true true.
Theorem C15_name_exemption_ext_case_refuted :
  atab_good w_exempt_tab = true /\ cfg_clean [] = true /\
  run_cmd dispatch_actual "method-property" [] w_exempt_tab w_test_upper
    <> Ok (spec_out "method-property" w_exempt_tab w_test_upper).
Proof. vm_compute. repeat split; discriminate. Qed.
Example C15_name_exemption_lowercase_ok :
  run_cmd dispatch_actual "method-property" [] w_exempt_tab (mk_file "test_mod.py" "import os" true true) = Ok [].
Proof. vm_compute. reflexivity. Qed.
