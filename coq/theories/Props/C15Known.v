(* Props/C15Known.v - no flag of Actual/DispatchActual.v is a listed defect any more.
   q_shebang_any_ext was repaired by fix 2639201 (the shebang fallback applies to extensionless files only); its old
   witness is kept as a regression: under the claimed (faithful) vector it now meets the specification.
   The same input is in corpus/C15 and is replayed on the implementation on every run. *)
From TL Require Import Lib.Base Model.DispatchTypes Gen.DispatchGen Model.Dispatch Model.DispatchRun Actual.DispatchActual.

Definition w_tab : atab :=
  [(("nesting.excessive-depth", "python"), [("nesting.excessive-depth", 1)]);
   (("lbyl", "python"), [("lbyl.dict-key-check", 2)])].

(* notes.txt starting with a python shebang: .txt is not a recognised type, nothing may be reported *)
Definition w_txt : file := mk_file "notes.txt" "#!/usr/bin/env python" true true.
Example C15_shebang_any_ext_regression :
  cfg_clean [] = true /\ detect dispatch_actual w_txt = "unknown" /\
  run_cmd dispatch_actual "nesting" [] w_tab w_txt = Ok (spec_out "nesting" w_tab w_txt) /\
  spec_out "nesting" w_tab w_txt = [].
Proof. vm_compute. repeat split; reflexivity. Qed.

(* the extensionless script keeps being analysed as Python *)
Example C15_shebang_extensionless_regression :
  run_cmd dispatch_actual "nesting" [] w_tab (mk_file "script" "#!/usr/bin/env python" true true) = Ok [("nesting.excessive-depth", 1)].
Proof. vm_compute. reflexivity. Qed.
