(* Props/C15Known.v - refutations: for the flag claimed `true` in Actual/DispatchActual.v a concrete input on
   which the faithful model differs from the specification (closed by vm_compute).  The same inputs are in
   corpus/C15 and are replayed on the implementation on every run. *)
From TL Require Import Lib.Base Model.DispatchTypes Gen.DispatchGen Model.Dispatch Model.DispatchRun Actual.DispatchActual.

Definition w_tab : atab :=
  [(("nesting.excessive-depth", "python"), [("nesting.excessive-depth", 1)]);
   (("lbyl", "python"), [("lbyl.dict-key-check", 2)])].

(* notes.txt starting with a python shebang is linted as Python although .txt is not a recognised type *)
Definition w_txt : file := mk_file "notes.txt" "#!/usr/bin/env python" true true.
Theorem C15_shebang_any_ext_refuted :
  cfg_clean [] = true /\
  run_cmd dispatch_actual "nesting" [] w_tab w_txt <> Ok (spec_out "nesting" w_tab w_txt).
Proof. vm_compute. split; [reflexivity|discriminate]. Qed.
