(* Props/C06.v — property C06 (exit code and text/JSON/SARIF outputs always agree with the violations found).
   Only statements closed by `exact <lemma>` and their Print Assumptions.
   vs ranges over ALL lists of violations (any rule ids, byte strings as paths and messages, any integers);
   q over all quirk vectors; the renderers are the interpretation of the dict literals / f-strings that the
   translator found in src/core/cli_utils.py and src/formatters/sarif.py (Gen/OutputGen.v). *)
From TL Require Import Lib.Base Model.OutputTypes Gen.OutputGen Model.Output Model.OutputBytes Actual.OutputActual
     Proofs.OutputStr Proofs.OutputJson Proofs.OutputText Proofs.OutputSan Proofs.OutputMain Proofs.OutputBytesArgs Proofs.OutputBytes Proofs.OutputBytesDoc.
From Coq Require Import ZArith.
Local Open Scope Z_scope.
Local Open Scope string_scope.

(* 1. Exit status.  Every command found in src/cli/linters (sys.exit site extracted per command): a performed run exits
      0 exactly when the rendered list is empty, 1 exactly when it is not, never 2. *)
Theorem C06_exit_iff : forall cmd vs z,
  exit_performed cmd vs = Some z -> (z = 0 <-> vs = []) /\ (z = 1 <-> vs <> []) /\ z <> 2.
Proof. exact exit_iff. Qed.
Print Assumptions C06_exit_iff.

Theorem C06_exit_defined : forall cmd vs, In cmd commands -> exists z, exit_performed cmd vs = Some z.
Proof. exact exit_defined. Qed.
Print Assumptions C06_exit_defined.

(* the exit status agrees with what the JSON rendering lists *)
Theorem C06_exit_matches_json : forall cmd vs z,
  exit_performed cmd vs = Some z ->
  exists cs t, decode_json (render_json vs) = Some (cs, t) /\ t = Z.of_nat (List.length cs)
               /\ (z = 0 <-> cs = []) /\ (z = 1 <-> cs <> []).
Proof. exact run_consistent. Qed.
Print Assumptions C06_exit_matches_json.

(* 2. Runs that cannot be performed exit 2: every class, every command, EVERY vector, the faithful one included (the guard
      `yaml.safe_load(f) or {}` (af4580b) and the existence check of the group-level --config (d92455c) are read from the
      source); an empty config file is not such a run. *)
Theorem C06_usage_exit_two : forall q cmd c, usage_outcome q cmd c = spec_outcome c.
Proof. exact usage_exit_two. Qed.
Print Assumptions C06_usage_exit_two.

(* ... among the classes: an integer-valued threshold option of a command (--max-depth, --max-methods, --max-loc, --min-lines, --min-continues:
   Gen threshold_options, read from the click declarations) given a value that is not positive ends with exit 2, a positive one lets the run be performed *)
Theorem C06_threshold_option : forall q cmd v,
  usage_outcome q cmd (UThreshold v) = if (v <=? 0)%Z then OExit 2 else OPerformed.
Proof. intros q cmd v. exact (usage_exit_two q cmd (UThreshold v)). Qed.
Print Assumptions C06_threshold_option.

(* 3. JSON: decoding the document gives back every violation (strings as the sanitiser shows them), in order,
      and `total` is their number. *)
Theorem C06_json_roundtrip : forall vs,
  decode_json (render_json vs) = Some (map san_core vs, Z.of_nat (List.length vs)).
Proof. exact json_roundtrip. Qed.
Print Assumptions C06_json_roundtrip.

Theorem C06_json_total : forall vs cs t,
  decode_json (render_json vs) = Some (cs, t) -> t = Z.of_nat (List.length cs) /\ List.length cs = List.length vs.
Proof. exact json_total_is_length. Qed.
Print Assumptions C06_json_total.

(* 4. SARIF: same list as JSON; startColumn = column + 1.  For EVERY vector, the faithful one included (since d9a5951 the
      templates found in the source sanitise path and message themselves). *)
Theorem C06_sarif_roundtrip : forall q ver vs,
  decode_sarif (render_sarif q ver vs) = Some (map san_core vs).
Proof. exact sarif_roundtrip_exact. Qed.
Print Assumptions C06_sarif_roundtrip.

Theorem C06_json_sarif_agree : forall q ver vs,
  decode_sarif (render_sarif q ver vs) = option_map fst (decode_json (render_json vs)).
Proof. exact json_sarif_agree. Qed.
Print Assumptions C06_json_sarif_agree.

(* 5. SARIF well-formedness: version / schema of 2.1.0, every position 1-based, every ruleId declared in
      tool.driver.rules, no rule declared twice, for every list of violations with 1-based lines and 0-based columns. *)
Theorem C06_sarif_wellformed : forall q ver vs, Forall pos_ok vs -> sarif_wf (render_sarif q ver vs) = true.
Proof. exact sarif_wellformed. Qed.
Print Assumptions C06_sarif_wellformed.

Theorem C06_sarif_rules_declared_once : forall q ver vs,
  exists ids, sarif_rule_ids (render_sarif q ver vs) = Some ids /\ NoDup ids /\ forall v, In v vs -> In (v_rule v) ids.
Proof. exact sarif_rules_declared_once. Qed.
Print Assumptions C06_sarif_rules_declared_once.

(* including the violations the syntax-error builders construct (lineno / offset as CPython reports them, or absent);
   for EVERY vector since f9c24d2 (the builders' default line, read from the source, is 1) *)
Theorem C06_sarif_wellformed_run : forall q ver srcs,
  Forall src_ok srcs -> sarif_wf (render_sarif q ver (map (realize q) srcs)) = true.
Proof. exact sarif_wellformed_run. Qed.
Print Assumptions C06_sarif_wellformed_run.

(* 6. Text: decoding stdout gives back every violation. *)
Theorem C06_text_roundtrip : forall q vs,
  q_text_omit_zero q = false -> q_text_raw_newline q = false ->
  forallb (fun v => rule_ok (v_rule v)) vs = true ->
  parse_text q (text_output q vs) = Some (map san_core vs).
Proof. exact text_roundtrip_ideal. Qed.
Print Assumptions C06_text_roundtrip.

(* the layout of the code: on the inputs where it is decodable (no newline in path / message, line >= 1 or column 0,
   path not ending in `:digits` unless line and column are both printed) *)
Theorem C06_text_roundtrip_partial : forall q vs,
  q_text_omit_zero q = true -> q_text_raw_newline q = true -> forallb (text_ok q) vs = true ->
  parse_text q (text_output q vs) = Some (map san_core vs).
Proof. exact text_roundtrip_actual_partial. Qed.
Print Assumptions C06_text_roundtrip_partial.

(* 7. One run, three renderings, one list. *)
Theorem C06_renderings_agree : forall q ver vs,
  q_text_omit_zero q = false -> q_text_raw_newline q = false ->
  forallb (fun v => rule_ok (v_rule v)) vs = true ->
  decode_json (render_json vs) = Some (map san_core vs, Z.of_nat (List.length (map san_core vs)))
  /\ decode_sarif (render_sarif q ver vs) = Some (map san_core vs)
  /\ parse_text q (text_output q vs) = Some (map san_core vs).
Proof. exact renderings_agree. Qed.
Print Assumptions C06_renderings_agree.

Theorem C06_renderings_agree_partial : forall q ver vs,
  q_text_omit_zero q = true -> q_text_raw_newline q = true ->
  forallb (text_ok q) vs = true ->
  decode_json (render_json vs) = Some (map san_core vs, Z.of_nat (List.length (map san_core vs)))
  /\ decode_sarif (render_sarif q ver vs) = Some (map san_core vs)
  /\ parse_text q (text_output q vs) = Some (map san_core vs).
Proof. exact renderings_agree_actual_partial. Qed.
Print Assumptions C06_renderings_agree_partial.

(* 8. --format dispatch: each of the three accepted values selects its renderer. *)
Theorem C06_dispatch : forall q ver vs,
  render q ver "json" vs = OutJson (render_json vs)
  /\ render q ver "sarif" vs = OutJson (render_sarif q ver vs)
  /\ render q ver "text" vs = OutText (text_output q vs)
  /\ format_choices = ["text"; "json"; "sarif"].
Proof. exact dispatch. Qed.
Print Assumptions C06_dispatch.

(* 9. The sanitiser (text.encode("utf-8","surrogateescape").decode("utf-8","replace") on the byte model; codec arguments from
      the source, the byte-level function compared with CPython on generated bytes every run): identity exactly on well-formed
      UTF-8, result always well-formed, idempotent, ASCII bytes (newline, colon, digits, quotes) neither removed nor introduced. *)
Theorem C06_sanitize_identity_iff_wellformed : forall s, sanitize s = s <-> utf8_valid s = true.
Proof. exact sanitize_fixpoint_iff. Qed.
Print Assumptions C06_sanitize_identity_iff_wellformed.

Theorem C06_sanitize_wellformed : forall s, utf8_valid (sanitize s) = true.
Proof. exact sanitize_wellformed. Qed.
Print Assumptions C06_sanitize_wellformed.

Theorem C06_sanitize_idempotent : forall s, sanitize (sanitize s) = sanitize s.
Proof. exact sanitize_idempotent. Qed.
Print Assumptions C06_sanitize_idempotent.

Theorem C06_sanitize_ascii : forall c s, is_ascii c = true -> has_char c (sanitize s) = has_char c s.
Proof. exact sanitize_ascii. Qed.
Print Assumptions C06_sanitize_ascii.

Theorem C06_rendered_is_violation_iff_wellformed : forall v,
  san_core v = core_of v <-> utf8_valid (v_file v) = true /\ utf8_valid (v_msg v) = true.
Proof. exact san_core_identity_iff. Qed.
Print Assumptions C06_rendered_is_violation_iff_wellformed.

(* 10. Every quirk vector, mixed text flags included: text round trip and agreement of the three renderings on text_ok q. *)
Theorem C06_text_roundtrip_any : forall q vs,
  forallb (text_ok q) vs = true -> parse_text q (text_output q vs) = Some (map san_core vs).
Proof. exact text_roundtrip_any. Qed.
Print Assumptions C06_text_roundtrip_any.

Theorem C06_renderings_agree_any : forall q ver vs,
  forallb (text_ok q) vs = true ->
  decode_json (render_json vs) = Some (map san_core vs, Z.of_nat (List.length (map san_core vs)))
  /\ decode_sarif (render_sarif q ver vs) = Some (map san_core vs)
  /\ parse_text q (text_output q vs) = Some (map san_core vs).
Proof. exact renderings_agree_any. Qed.
Print Assumptions C06_renderings_agree_any.

(* the domain text_ok is a property of the raw violation: no newline in path / message, path not ending in `:digits` ... *)
Theorem C06_text_domain_raw : forall q v, text_ok q v = text_ok_raw q v.
Proof. exact text_ok_is_raw. Qed.
Print Assumptions C06_text_domain_raw.

Theorem C06_sanitize_split : forall c a d, is_ascii c = true -> sanitize (a ++ String c d) = (sanitize a ++ String c (sanitize d))%string.
Proof. exact sanitize_split. Qed.
Print Assumptions C06_sanitize_split.

(* 11. A rule that fails while one file is linted does not end the run (exit 2 is for runs that cannot be performed). *)
Theorem C06_run_performed : forall q files, q_valueerror_aborts_run q = false -> run_outcome q files = OPerformed.
Proof. exact run_performed. Qed.
Print Assumptions C06_run_performed.

Theorem C06_run_performed_partial : forall q files, existsb storage_raises files = false -> run_outcome q files = OPerformed.
Proof. exact run_performed_partial. Qed.
Print Assumptions C06_run_performed_partial.

(* 12. Byte level.  stdout_of doc = what click.echo(json.dumps(doc, indent=K)) writes (json.dumps arguments read from the source, the
       ensure_ascii escaper working on the bytes of a str under surrogateescape; compared with the real stdout byte for byte on every
       document of every run); loads = the specification's reader of the JSON grammar (compared with Python's json.loads every run).
       For EVERY JSON value - every byte string as a str (lone surrogates included), every integer, any nesting: stdout is pure ASCII,
       hence well-formed UTF-8 whatever encoding stdout has; it is a JSON text and denotes the document; so the violations are
       recovered from the BYTES of the JSON and of the SARIF rendering, for every list of violations and every quirk vector. *)
Theorem C06_stdout_ascii_utf8 : forall j, ascii_bytes (stdout_of j) = true /\ utf8_valid (stdout_of j) = true.
Proof. intros j. split; [exact (stdout_ascii j)|exact (stdout_utf8 j)]. Qed.
Print Assumptions C06_stdout_ascii_utf8.

Theorem C06_stdout_is_json_of_document : forall j, loads (stdout_of j) = Some j.
Proof. exact loads_stdout. Qed.
Print Assumptions C06_stdout_is_json_of_document.

Theorem C06_stdout_wellformed : forall j, wellformed_json_text (stdout_of j) = true.
Proof. exact stdout_wellformed. Qed.
Print Assumptions C06_stdout_wellformed.

Theorem C06_stdout_injective : forall j1 j2, stdout_of j1 = stdout_of j2 -> j1 = j2.
Proof. exact stdout_injective. Qed.
Print Assumptions C06_stdout_injective.

Theorem C06_json_string_roundtrip : forall s X,
  exists r, (json_quote s ++ X)%string = String dq r /\ read_str (S (String.length r)) r = Some (s, X).
Proof. exact json_quote_read. Qed.
Print Assumptions C06_json_string_roundtrip.

Theorem C06_json_bytes_roundtrip : forall vs,
  bind (loads (stdout_of (render_json vs))) decode_json = Some (map san_core vs, Z.of_nat (List.length vs)).
Proof. exact json_bytes_roundtrip. Qed.
Print Assumptions C06_json_bytes_roundtrip.

Theorem C06_sarif_bytes_roundtrip : forall q ver vs,
  bind (loads (stdout_of (render_sarif q ver vs))) decode_sarif = Some (map san_core vs).
Proof. exact sarif_bytes_roundtrip. Qed.
Print Assumptions C06_sarif_bytes_roundtrip.

Theorem C06_json_dumps_arguments :
  json_dumps_uniform = true /\ json_dumps_ensure_ascii = true /\ json_dumps_sort_keys = false /\ json_dumps_item_sep = ","
  /\ json_dumps_key_sep = ": " /\ (1 <= json_dumps_indent)%nat.
Proof. exact json_ser_facts. Qed.
Print Assumptions C06_json_dumps_arguments.

(* non-vacuity: three violations (a repeated rule id, a non-ASCII path, quotes in a message) meet every domain
   hypothesis above under the claimed vector, and the decoded list is the expected one *)
Definition ex_vs : list viol :=
  [ Build_viol "nesting.excessive-depth" "src/a.py" 3 0 "Function 'f' has excessive nesting depth (5)";
    Build_viol "dry.duplicate-code" (String (ascii_of_nat 195) (String (ascii_of_nat 169) ".py")) 1 4 "say ""hi""";
    Build_viol "nesting.excessive-depth" "src/b c.py" 12 8 "x: y" ].
Example C06_nonvacuous :
  forallb (text_ok output_actual) ex_vs = true
  /\ forallb (fun v => (1 <=? v_line v)%Z && (0 <=? v_col v)%Z && String.eqb (sanitize (v_file v)) (v_file v)
                       && String.eqb (sanitize (v_msg v)) (v_msg v)) ex_vs = true
  /\ exit_performed "nesting" ex_vs = Some 1 /\ exit_performed "nesting" [] = Some 0
  /\ option_map (@List.length _) (parse_text output_actual (text_output output_actual ex_vs)) = Some 3%nat
  /\ sarif_rule_ids (render_sarif output_actual "0" ex_vs) = Some ["nesting.excessive-depth"; "dry.duplicate-code"].
Proof. vm_compute. repeat split; reflexivity. Qed.

(* regressions: the witnesses of the four repaired findings (kept in corpus/C06) now meet the specification under the claimed vector *)
Definition w_surrogate : list viol :=
  [Build_viol "file-placement" (String (ascii_of_nat 99) (String (ascii_of_nat 97) (String (ascii_of_nat 102) (String (ascii_of_nat 233) ".txt")))) 1 0 "not here"].
Example C06_sarif_unsanitized_fixed :
  decode_sarif (render_sarif output_actual "0" w_surrogate) = option_map fst (decode_json (render_json w_surrogate)).
Proof. vm_compute. reflexivity. Qed.

Definition w_nul : list vsrc := [VSyntax "nesting" "nesting.excessive-depth" "nul.py" None None "source code string cannot contain null bytes"].
Example C06_syntax_line_zero_fixed : sarif_wf (render_sarif output_actual "0" (map (realize output_actual) w_nul)) = true.
Proof. vm_compute. reflexivity. Qed.

Example C06_dry_empty_config_fixed : usage_outcome output_actual "dry" UEmptyConfig = spec_outcome UEmptyConfig.
Proof. vm_compute. reflexivity. Qed.

Example C06_group_missing_config_fixed :
  usage_outcome output_actual "nesting" UGroupMissingConfig = spec_outcome UGroupMissingConfig
  /\ usage_outcome output_actual "dry" UGroupMissingConfig = spec_outcome UGroupMissingConfig.
Proof. vm_compute. split; reflexivity. Qed.

(* byte level, non-vacuity: the three violations above (a non-ASCII path, quotes in a message) as the bytes of the JSON rendering *)
Example C06_bytes_nonvacuous :
  option_map (fun p => List.length (fst p)) (bind (loads (stdout_of (render_json ex_vs))) decode_json) = Some 3%nat
  /\ ascii_bytes (stdout_of (render_sarif output_actual "0" ex_vs)) = true
  /\ json_quote (String (ascii_of_nat 195) (String (ascii_of_nat 169) (String (ascii_of_nat 233) "\"""))) = """\u00e9\udce9\\\""""".
Proof. vm_compute. repeat split; reflexivity. Qed.
