(* Props/C01Known.v - refutations: for each flag that makes the faithful model differ from the specification
   a concrete skeleton (closed by vm_compute).  The same skeletons are in corpus/C01 and are replayed on the
   implementation on every run.  The witnesses of the four defects repaired by fix: commits (see
   known_findings.json) stay in corpus/C01 as regression inputs that must now satisfy the specification. *)
From TL Require Import Lib.Base Lib.GenTypes Gen.NestingGen Model.Skel Model.Nesting Model.NestingDisc Model.NestingRun Actual.NestingActual.

Definition w_if : list tree := [T (KFn FDef "f" 1 0) [T KIf [T KSimple []]]].
Theorem C01_py_start_refuted : report Py nesting_actual 1 w_if <> spec_report 1 w_if.
Proof. vm_compute. discriminate. Qed.

(* a function expression / a generator function exceeding the limit is never reported: the extractor's list has
   "function" where the grammar's node is function_expression, and no generator type *)
Definition w_fnexpr : list tree := [T (KFn FFnExpr "f" 1 10) [T KIf [T KSimple []]]].
Definition w_gen : list tree := [T (KFn FGen "g" 1 0) [T KIf [T KSimple []]]].
Theorem C01_ts_fn_types_refuted :
  report Ts nesting_actual 1 w_fnexpr <> spec_report 1 w_fnexpr /\ report Ts nesting_actual 1 w_gen <> spec_report 1 w_gen
  /\ NestingDisc.report_d Ts nesting_actual 1 w_fnexpr = [].
Proof. vm_compute. repeat split; discriminate. Qed.

(* regression: the repaired defects no longer separate the faithful model from the specification *)
Definition w_asyncfor : list tree := [T (KFn FDef "f" 1 0) [T KAsyncFor [T KIf [T KSimple []]]]].
Definition w_match : list tree := [T (KFn FDef "f" 1 0) [T KSwitch [T KCase [T KSimple []]]]].
Definition w_elif : list tree := [T (KFn FDef "f" 1 0) [T KIf [T KSimple []; T KElif [T KSimple []]]]].
Definition w_async : list tree := [T (KFn FDef "f" 1 0) [T KAsyncBlock [T KSimple []]]].
Theorem C01_fixed_witnesses_now_meet_the_spec :
  report Py (with_flag 0 nesting_actual) 2 w_asyncfor = spec_report 2 w_asyncfor
  /\ report Py (with_flag 0 nesting_actual) 2 w_match = spec_report 2 w_match
  /\ report Ts nesting_actual 2 w_elif = spec_report 2 w_elif
  /\ report Rs nesting_actual 2 w_elif = spec_report 2 w_elif
  /\ report Rs nesting_actual 1 w_async = spec_report 1 w_async.
Proof. vm_compute. repeat split; reflexivity. Qed.
