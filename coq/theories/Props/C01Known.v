(* Props/C01Known.v — refutations: for each flag claimed `true` in Actual/NestingActual.v a concrete
   skeleton on which the faithful model differs from the specification (closed by vm_compute).
   The same skeletons are in corpus/C01 and are replayed on the implementation on every run. *)
From TL Require Import Lib.Base Lib.GenTypes Gen.NestingGen Model.Skel Model.Nesting Model.NestingRun Actual.NestingActual.

Definition w_if : list tree := [T (KFn FDef "f" 1 0) [T KIf [T KSimple []]]].
Theorem C01_py_start_refuted : report Py nesting_actual 1 w_if <> spec_report 1 w_if.
Proof. vm_compute. discriminate. Qed.

Definition w_asyncfor : list tree := [T (KFn FDef "f" 1 0) [T KAsyncFor [T KIf [T KSimple []]]]].
Theorem C01_py_table_refuted : report Py (with_flag 0 nesting_actual) 2 w_asyncfor <> spec_report 2 w_asyncfor.
Proof. vm_compute. discriminate. Qed.

Definition w_match : list tree := [T (KFn FDef "f" 1 0) [T KSwitch [T KCase [T KSimple []]]]].
Theorem C01_py_match_refuted : report Py (with_flag 0 nesting_actual) 2 w_match <> spec_report 2 w_match.
Proof. vm_compute. discriminate. Qed.

Definition w_elif : list tree := [T (KFn FDef "f" 1 0) [T KIf [T KSimple []; T KElif [T KSimple []]]]].
Theorem C01_ts_elseif_refuted : report Ts nesting_actual 2 w_elif <> spec_report 2 w_elif.
Proof. vm_compute. discriminate. Qed.
Theorem C01_rs_elseif_refuted : report Rs nesting_actual 2 w_elif <> spec_report 2 w_elif.
Proof. vm_compute. discriminate. Qed.

Definition w_async : list tree := [T (KFn FDef "f" 1 0) [T KAsyncBlock [T KSimple []]]].
Theorem C01_rs_async_block_refuted : report Rs nesting_actual 1 w_async <> spec_report 1 w_async.
Proof. vm_compute. discriminate. Qed.
