(* Props/C18.v — property C18 (file-placement verdicts follow the allow/deny rules exactly).
   Only statements closed by `exact <lemma>` and their Print Assumptions.
   Every statement is quantified over the regex engine: valid p = "re.compile(p) succeeds",
   matches p s = "re.compile(p, IGNORECASE).search(s) finds a match". *)
From Coq Require Import ZArith Permutation.
From TL Require Import Lib.Base Lib.GenTypes Model.PlacementTypes Gen.PlacementGen Model.Placement Model.PlacementSource
     Model.PlacementRun Proofs.PlacementStrings Proofs.PlacementMain Proofs.PlacementSource Proofs.PlacementOrder.

(* 1. With the three remaining quirks off (the prefix test, the handling of dict allow items and the resolution of
      relative paths are the forms found in the source, for any value of their flags), for every regex engine, every configuration with non-empty directory keys
      and every file: the linter model yields exactly the specified outcome - the configuration is
      rejected iff it holds an invalid pattern, otherwise the reported list (file, line, column, message)
      is the one the allow/deny rules prescribe for the project-relative path. *)
Theorem C18_outcome_exact : forall valid matches q c f,
  q_global_on_covered q = false -> q_trailing_slash_depth q = false -> q_backslash_separator q = false ->
  cfg_ok c = true ->
  forget (run valid matches q c f) = spec valid matches c f.
Proof. exact run_exact. Qed.
Print Assumptions C18_outcome_exact.

Theorem C18_report_exact : forall matches q c p,
  q_global_on_covered q = false -> q_trailing_slash_depth q = false ->
  cfg_ok c = true ->
  check_all matches q p c = spec_report matches c p.
Proof. exact report_exact. Qed.
Print Assumptions C18_report_exact.

(* 2. What the specification means by "the most specific directory rule containing the file": the selected
      key contains the path and every other containing key is that directory or an ancestor of it;
      no rule is selected iff no key contains the path. *)
Theorem C18_most_specific_rule : forall p dirs d r,
  spec_rule p dirs = Some (d, r) ->
  In (d, r) dirs /\ contains d p = true /\
  forall d' r', In (d', r') dirs -> contains d' p = true ->
                rstrip_slash d' = rstrip_slash d \/ starts_with (rstrip_slash d' ++ "/") (rstrip_slash d) = true.
Proof. exact spec_rule_most_specific. Qed.
Print Assumptions C18_most_specific_rule.

Theorem C18_contains_is_directory_containment : forall d p,
  contains d p = true ->
  if String.eqb d "/" then List.length (split_on "/" p) = 1
  else exists rest, rest <> [] /\ split_on "/" p = split_on "/" (rstrip_slash d) ++ rest.
Proof. exact contains_components. Qed.
Print Assumptions C18_contains_is_directory_containment.

Theorem C18_uncovered_iff_no_containing_rule : forall p dirs,
  spec_rule p dirs = None <-> forall d r, In (d, r) dirs -> contains d p = false.
Proof. exact spec_rule_none. Qed.
Print Assumptions C18_uncovered_iff_no_containing_rule.

(* 2'. The choice does not depend on the order in which the directory rules are listed, as long as no directory is
       listed twice (keys compared without trailing slashes), nor on rules for directories that do not contain the
       file; with the remaining quirk flags off the same holds for the reported list of the checker model. *)
Theorem C18_most_specific_rule_order_independent : forall p dirs dirs',
  distinct_dirs dirs -> Permutation dirs dirs' -> spec_rule p dirs' = spec_rule p dirs.
Proof. exact spec_rule_order_independent. Qed.
Print Assumptions C18_most_specific_rule_order_independent.

Theorem C18_report_order_independent : forall matches q c dirs' p,
  q_global_on_covered q = false -> q_trailing_slash_depth q = false ->
  cfg_ok c = true -> distinct_dirs (dirs_of c) -> Permutation (dirs_of c) dirs' ->
  check_all matches q p (with_dirs c dirs') = check_all matches q p c.
Proof. exact report_order_independent. Qed.
Print Assumptions C18_report_order_independent.

Theorem C18_other_directories_irrelevant : forall matches q c p,
  q_global_on_covered q = false -> q_trailing_slash_depth q = false ->
  cfg_ok c = true ->
  check_all matches q p (with_dirs c (containing p (dirs_of c))) = check_all matches q p c.
Proof. exact report_other_directories_irrelevant. Qed.
Print Assumptions C18_other_directories_irrelevant.

(* 3. Reported iff: covered -> its most specific rule has a matching deny pattern or an allow list none of
      whose patterns match; not covered -> the same judgement by global_deny and by global_patterns. *)
Theorem C18_verdict_iff : forall matches c p,
  negb (is_nil (spec_report matches c p)) =
  match spec_rule p (dirs_of c) with
  | Some (_, r) => violates matches p r
  | None =>
    (match c_gdeny c with Some l => violates matches p (Build_drule None (Some l)) | None => false end)
    || (match c_gpat c with Some g => violates matches p g | None => false end)
  end.
Proof. exact verdict_iff. Qed.
Print Assumptions C18_verdict_iff.

(* 4. Deny takes precedence over allow. *)
Theorem C18_deny_precedence : forall matches q c p d r i,
  q_global_on_covered q = false -> q_trailing_slash_depth q = false ->
  cfg_ok c = true ->
  spec_rule p (dirs_of c) = Some (d, r) -> spec_denied matches p (r_deny r) = Some i ->
  check_all matches q p c = [(p, 1, 0, spec_dir_deny_msg p d (spec_reason i))].
Proof. exact deny_precedence. Qed.
Print Assumptions C18_deny_precedence.

(* 5. Files satisfying all applicable rules are never reported; nothing is reported when no rules are
      configured (the latter for every quirk vector, i.e. also for the current tree). *)
Theorem C18_satisfying_not_reported : forall matches q c p,
  q_global_on_covered q = false -> q_trailing_slash_depth q = false ->
  cfg_ok c = true ->
  match spec_rule p (dirs_of c) with
  | Some (_, r) => violates matches p r
  | None => (match c_gdeny c with Some l => violates matches p (Build_drule None (Some l)) | None => false end)
            || (match c_gpat c with Some g => violates matches p g | None => false end)
  end = false ->
  check_all matches q p c = [].
Proof. exact satisfying_not_reported. Qed.
Print Assumptions C18_satisfying_not_reported.

Theorem C18_no_rules_no_report : forall matches q c p,
  dirs_of c = [] -> c_gdeny c = None -> c_gpat c = None -> check_all matches q p c = [].
Proof. exact no_rules_no_report. Qed.
Print Assumptions C18_no_rules_no_report.

(* 6. The verdict depends only on the path relative to the project root. *)
Theorem C18_verdict_depends_on_relpath_only : forall valid matches q c f1 f2,
  q_global_on_covered q = false -> q_trailing_slash_depth q = false -> q_backslash_separator q = false ->
  cfg_ok c = true ->
  relpath f1 = relpath f2 ->
  forget (run valid matches q c f1) = forget (run valid matches q c f2).
Proof. exact verdict_depends_on_relpath_only. Qed.
Print Assumptions C18_verdict_depends_on_relpath_only.

(* 7. A syntactically invalid pattern anywhere in the configuration is rejected as a configuration error
      naming an invalid pattern; a configuration of valid patterns is accepted. *)
Theorem C18_invalid_pattern_rejected : forall valid matches q c f,
  (forallb valid (all_patterns c) = true -> exists l, run valid matches q c f = Reports l) /\
  (forallb valid (all_patterns c) = false ->
   exists p, run valid matches q c f = Rejected p /\ In p (all_patterns c) /\ valid p = false).
Proof. exact invalid_pattern_rejected. Qed.
Print Assumptions C18_invalid_pattern_rejected.

(* 8. Confinement (partial; the full statement is 1): the faithful model, with the three remaining quirks on, is exact
      on every input outside their defect classes - no directory key written with a trailing slash,
      the file uncovered or no global lists configured, and no backslash in the file's root-relative path. *)
Theorem C18_actual_exact_outside_defects_partial : forall valid matches q c f,
  cfg_ok c = true ->
  no_trailing_slash c = true ->
  (spec_rule (relpath f) (dirs_of c) = None \/ (c_gdeny c = None /\ c_gpat c = None)) ->
  no_backslash (relpath f) = true ->
  forget (run valid matches q c f) = spec valid matches c f.
Proof. exact run_exact_outside_defects. Qed.
Print Assumptions C18_actual_exact_outside_defects_partial.

(* 9. The forms found in the source after the fix: commits are the property's forms, whatever the flags say. *)
Theorem C18_source_prefix_test_is_containment : forall q d p,
  prefix_test q d p = starts_with (rstrip_slash d ++ "/") p.
Proof. exact prefix_test_ideal. Qed.
Print Assumptions C18_source_prefix_test_is_containment.

Theorem C18_source_path_is_root_relative : forall q f, eff_path q f = relpath f.
Proof. exact eff_path_relpath. Qed.
Print Assumptions C18_source_path_is_root_relative.

Theorem C18_source_dict_allow_items_are_patterns : forall valid q a, v_aitem valid q a = vpat valid (aitem_pattern a).
Proof. exact v_aitem_pattern. Qed.
Print Assumptions C18_source_dict_allow_items_are_patterns.

(* 9'. PathResolver.normalize_path_string (the string methods found in the source, interpreted by the model): the
       string the patterns and directory keys are tested against is the root-relative path itself, for every quirk
       vector, unless the path has a backslash in it (then, with the flag on, every backslash has become `/`). *)
Theorem C18_source_normalisation_is_identity : forall q s,
  negb (q_backslash_separator q) || no_backslash s = true -> path_str q s = s.
Proof. exact path_str_id. Qed.
Print Assumptions C18_source_normalisation_is_identity.

Theorem C18_source_normalisation_faithful : forall q s,
  q_backslash_separator q = true -> fp_normalize_ops = [NReplace "\" "/"] -> path_str q s = str_map backslash_to_slash s.
Proof. exact path_str_faithful. Qed.
Print Assumptions C18_source_normalisation_faithful.

(* 10. Where the rule set comes from (config file auto-loaded by the Orchestrator, inline --rules merged into it,
       wrapped section / known top-level keys / layout-file fall-back): with the two source quirks off the rule set in
       force is the specified one - inline rules replace the file's, the documented {"allow", "deny"} form is
       global_patterns, otherwise the file's section, otherwise none - and the whole pipeline yields the specified
       outcome. *)
Theorem C18_source_resolution_exact : forall sq s,
  q_rules_toplevel_ignored sq = false -> q_rules_do_not_override_file sq = false -> src_ok s = true ->
  resolve sq s = spec_resolve s.
Proof. exact resolve_exact. Qed.
Print Assumptions C18_source_resolution_exact.

Theorem C18_source_outcome_exact : forall valid matches q sq s f,
  q_global_on_covered q = false -> q_trailing_slash_depth q = false -> q_backslash_separator q = false ->
  q_rules_toplevel_ignored sq = false -> q_rules_do_not_override_file sq = false ->
  src_ok s = true -> cfg_ok (spec_resolve s) = true ->
  forget (run_src valid matches q sq s f) = spec_src valid matches s f.
Proof. exact run_src_exact. Qed.
Print Assumptions C18_source_outcome_exact.

(* confinement (partial): the faithful resolution is exact when no inline rules are given (config file only, any
   form) or when there is no config file and the inline rules are not in the {"allow", "deny"} form *)
Theorem C18_source_resolution_outside_defects_partial : forall sq s,
  src_ok s = true ->
  (s_rules s = None \/ (s_file s = None /\ forall x, s_rules s <> Some (RToplevel x))) ->
  resolve sq s = spec_resolve s.
Proof. exact resolve_exact_outside_defects. Qed.
Print Assumptions C18_source_resolution_outside_defects_partial.

Theorem C18_source_outcome_outside_defects_partial : forall valid matches q sq s f,
  src_ok s = true -> cfg_ok (spec_resolve s) = true ->
  (s_rules s = None \/ (s_file s = None /\ forall x, s_rules s <> Some (RToplevel x))) ->
  no_trailing_slash (spec_resolve s) = true ->
  (spec_rule (relpath f) (dirs_of (spec_resolve s)) = None \/ (c_gdeny (spec_resolve s) = None /\ c_gpat (spec_resolve s) = None)) ->
  no_backslash (relpath f) = true ->
  forget (run_src valid matches q sq s f) = spec_src valid matches s f.
Proof. exact run_src_exact_outside_defects. Qed.
Print Assumptions C18_source_outcome_outside_defects_partial.

(* non-vacuity: nested directory rules, deny over allow, an uncovered file judged by the global lists,
   a satisfied rule; the tables are re.search(.., IGNORECASE) on these strings *)
Definition ex_cfg : config := {|
  c_dirs := Some [("src", {| r_allow := Some [AStr ".*\.py$"]; r_deny := Some [DDict "test_" (Some "no tests here") None] |});
                  ("src/api/", {| r_allow := Some [AStr "_api\.py$"]; r_deny := None |})];
  c_gdeny := Some [DStr "\.tmp$"];
  c_gpat := None |}.
Definition ex_mt : list (string * string * bool) :=
  [(".*\.py$", "src/test_a.py", true); ("test_", "src/test_a.py", true);
   ("_api\.py$", "src/api/x.py", false); ("_api\.py$", "src/api/h_api.py", true);
   ("\.tmp$", "notes.tmp", true); ("\.tmp$", "src/api/h_api.py", false)].
Definition ex_file (p : string) : fileq := {| f_cwd := ""; f_rest := p; f_relative := false |}.
Example C18_nonvacuous :
  cfg_ok ex_cfg = true /\
  spec (fun _ => true) (tbl_matches ex_mt) ex_cfg (ex_file "src/test_a.py")
    = SReports [("src/test_a.py", 1, 0, "File 'src/test_a.py' not allowed in src: no tests here")] /\
  spec (fun _ => true) (tbl_matches ex_mt) ex_cfg (ex_file "src/api/x.py")
    = SReports [("src/api/x.py", 1, 0, "File 'src/api/x.py' does not match allowed patterns for src/api/")] /\
  spec (fun _ => true) (tbl_matches ex_mt) ex_cfg (ex_file "src/api/h_api.py") = SReports [] /\
  spec (fun _ => true) (tbl_matches ex_mt) ex_cfg (ex_file "notes.tmp")
    = SReports [("notes.tmp", 1, 0, "File not allowed in this location")] /\
  spec (fun p => negb (String.eqb p "test_")) (tbl_matches ex_mt) ex_cfg (ex_file "notes.tmp") = SRejected.
Proof. vm_compute. repeat split; reflexivity. Qed.
