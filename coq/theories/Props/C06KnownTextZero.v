(* Props/C06KnownTextZero.v - refutation witness of the listed finding q_text_omit_zero (closed by vm_compute; same input in corpus/C06) *)
From TL Require Import Lib.Base Model.OutputTypes Gen.OutputGen Model.Output Model.OutputRun Actual.OutputActual.
From Coq Require Import ZArith.
Local Open Scope Z_scope.
Local Open Scope string_scope.

(* text layout: `x:3` at line 1 and `x` at line 3, column 1 print the same *)
Definition w_colon_a : list viol := [Build_viol "file-placement" "x:3" 1 0 "not here"].
Definition w_colon_b : list viol := [Build_viol "file-placement" "x" 3 1 "not here"].
Theorem C06_text_omit_zero_refuted :
  text_output output_actual w_colon_a = text_output output_actual w_colon_b
  /\ map san_core w_colon_a <> map san_core w_colon_b
  /\ parse_text output_actual (text_output output_actual w_colon_a) <> Some (map san_core w_colon_a).
Proof. vm_compute. repeat split; discriminate. Qed.

