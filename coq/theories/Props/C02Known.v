(* Props/C02Known.v — refutations: for each finding still listed as known a concrete file on which the faithful model
   differs from the specification (closed by vm_compute); for each finding recorded as fixed a regression theorem: the old
   witness now meets the specification under the faithful model (which reads the repaired tables from the source).
   The same files are in corpus/C02 and are replayed on the implementation on every run. *)
From Coq Require Import ZArith.
From TL Require Import Lib.Base Lib.GenTypes Gen.MagicGen Model.MagicNum Model.Magic Model.MagicSpec Model.MagicRun Actual.MagicActual.

Definition w_cfg : mconfig := mk_cfg (Some [(7, 0)%Z]) None None None [].
Definition one_site (name : string) (k : skind) (s : site) : file := mk_file name [mk_scope k None [] [s]].

(* flag = True  was reported as "Magic number True" (fixed: a2903c3) *)
Definition w_bool : file := one_site "/case.py" SFunc (mk_site CAssign "flag" [LBool true] 2).
Theorem C02_py_bool_fixed_regression : report MPy magic_actual w_cfg w_bool = spec_report MPy w_cfg w_bool.
Proof. vm_compute. reflexivity. Qed.

(* OFFSET = -300 *)
Definition w_neg : file := one_site "/case.py" STop (mk_site CUpperNeg "OFFSET" [LInt RDec [[3;0;0]] false ""] 1).
Theorem C02_py_upper_neg_refuted : report MPy magic_actual w_cfg w_neg <> spec_report MPy w_cfg w_neg.
Proof. vm_compute. discriminate. Qed.

(* MAX_SIZE: int = 300 *)
Definition w_ann : file := one_site "/case.py" STop (mk_site CUpperAnn "MAX_SIZE" [LInt RDec [[3;0;0]] false ""] 1).
Theorem C02_py_upper_ann_refuted : report MPy magic_actual w_cfg w_ann <> spec_report MPy w_cfg w_ann.
Proof. vm_compute. discriminate. Qed.

(* LIMITS = (100, 200,) *)
Definition w_tuple : file :=
  one_site "/case.py" STop (mk_site CUpperTuple "LIMITS" [LInt RDec [[1;0;0]] false ""; LInt RDec [[2;0;0]] false ""] 1).
Theorem C02_py_upper_tuple_refuted : report MPy magic_actual w_cfg w_tuple <> spec_report MPy w_cfg w_tuple.
Proof. vm_compute. discriminate. Qed.

(* let val = 0xFE;  was not reported (fixed: bd88986) *)
Definition w_hex_e : file := one_site "/case.ts" STop (mk_site CAssign "val" [LInt RHex [[15;14]] true ""] 1).
Theorem C02_ts_hex_e_fixed_regression : report MTs magic_actual w_cfg w_hex_e = spec_report MTs w_cfg w_hex_e.
Proof. vm_compute. reflexivity. Qed.

(* let val = 10n;  was not reported (fixed: bd88986) *)
Definition w_bigint : file := one_site "/case.ts" STop (mk_site CAssign "val" [LInt RDec [[1;0]] false "n"] 1).
Theorem C02_ts_bigint_fixed_regression : report MTs magic_actual w_cfg w_bigint = spec_report MTs w_cfg w_bigint.
Proof. vm_compute. reflexivity. Qed.

(* contest_data.ts: "test_" occurs in the path, the file is treated as test code *)
Definition w_marker : file := one_site "/contest_data.ts" STop (mk_site CAssign "val" [LInt RDec [[3;0;0]] false ""] 1).
Theorem C02_ts_test_marker_refuted : report MTs magic_actual w_cfg w_marker <> spec_report MTs w_cfg w_marker.
Proof. vm_compute. discriminate. Qed.

(* let val = 0x1f32;  was reported as 1 (fixed: 7f3f841) *)
Definition w_clash : file := one_site "/case.rs" SFunc (mk_site CAssign "val" [LInt RHex [[1;15;3;2]] false ""] 2).
Theorem C02_rs_hex_suffix_clash_fixed_regression : report MRs magic_actual w_cfg w_clash = spec_report MRs w_cfg w_clash.
Proof. vm_compute. reflexivity. Qed.

(* let N = 300;  (one upper-case letter) is exempt in TypeScript although N is no UPPER_CASE constant name (Python reports N = 300) *)
Definition w_letter : file := one_site "/case.ts" STop (mk_site CAssign "N" [LInt RDec [[3;0;0]] false ""] 1).
Theorem C02_ts_single_letter_refuted : report MTs magic_actual w_cfg w_letter <> spec_report MTs w_cfg w_letter.
Proof. vm_compute. discriminate. Qed.

(* for i, w in enumerate(xs, start=6): pass   is reported although `enumerate(xs, 6)` is exempt: the parent of the literal is the
   ast.keyword node, _is_in_enumerate_call looks at the direct parent only *)
Definition w_enum_kw : file := one_site "/case.py" SFunc (mk_site CEnumerateKw "val" [LInt RDec [[6]] false ""] 2).
Definition w_enum_pos : file := one_site "/case.py" SFunc (mk_site CEnumerate "val" [LInt RDec [[6]] false ""] 2).
Theorem C02_py_enumerate_kw_refuted :
  report MPy magic_actual w_cfg w_enum_kw <> spec_report MPy w_cfg w_enum_kw
  /\ report MPy magic_actual w_cfg w_enum_pos = [] /\ spec_report MPy w_cfg w_enum_kw = [].
Proof. vm_compute. repeat split; try reflexivity; discriminate. Qed.

(* CACHE_TTL = 24 * 3600   is reported twice although it is an UPPER_CASE constant definition (the parent of each literal is the
   ast.BinOp); `const CACHE_TTL = 24 * 3600;` in TypeScript and `const CACHE_TTL: i64 = 24 * 3600;` in Rust are exempt *)
Definition s_binop : site := mk_site CUpperBinop "CACHE_TTL" [LInt RDec [[2;4]] false ""; LInt RDec [[3;6;0;0]] false ""] 1.
Definition w_binop : file := one_site "/case.py" STop s_binop.
Theorem C02_py_upper_binop_refuted :
  report MPy magic_actual w_cfg w_binop <> spec_report MPy w_cfg w_binop /\ spec_report MPy w_cfg w_binop = []
  /\ report MTs magic_actual w_cfg (one_site "/case.ts" STop s_binop) = [] /\ report MRs magic_actual w_cfg (one_site "/case.rs" STop s_binop) = [].
Proof. vm_compute. repeat split; try reflexivity; discriminate. Qed.

(* each witness is an admissible input, and switching its flag off repairs it *)
Theorem C02_witnesses_admissible :
  forallb (file_good MPy) [w_bool; w_neg; w_ann; w_tuple; w_enum_kw; w_binop] && forallb (file_good MTs) [w_hex_e; w_bigint; w_marker; w_letter]
  && file_good MRs w_clash = true
  /\ report MPy (with_flag 0 magic_actual) w_cfg w_bool = spec_report MPy w_cfg w_bool
  /\ report MPy (with_flag 1 magic_actual) w_cfg w_neg = spec_report MPy w_cfg w_neg
  /\ report MPy (with_flag 2 magic_actual) w_cfg w_ann = spec_report MPy w_cfg w_ann
  /\ report MPy (with_flag 3 magic_actual) w_cfg w_tuple = spec_report MPy w_cfg w_tuple
  /\ report MTs (with_flag 4 magic_actual) w_cfg w_hex_e = spec_report MTs w_cfg w_hex_e
  /\ report MTs (with_flag 5 magic_actual) w_cfg w_bigint = spec_report MTs w_cfg w_bigint
  /\ report MTs (with_flag 6 magic_actual) w_cfg w_marker = spec_report MTs w_cfg w_marker
  /\ report MRs (with_flag 7 magic_actual) w_cfg w_clash = spec_report MRs w_cfg w_clash
  /\ report MTs (with_flag 8 magic_actual) w_cfg w_letter = spec_report MTs w_cfg w_letter
  /\ report MPy (with_flag 9 magic_actual) w_cfg w_enum_kw = spec_report MPy w_cfg w_enum_kw
  /\ report MPy (with_flag 10 magic_actual) w_cfg w_binop = spec_report MPy w_cfg w_binop.
Proof. vm_compute. repeat split; reflexivity. Qed.
