(* Props/C08Known.v — refutations: for each C08 flag claimed `true` in Actual/OrchHistActual.v a concrete history on
   which the model with only that flag on returns something else than a fresh object (symbolic rule instance:
   a report is the token `TRep kind evidence`).  The same histories, rendered with real files, are in corpus/C08
   and are replayed on the implementation on every run. *)
From Coq Require Import Permutation.
From TL Require Import Lib.Base Lib.GenTypes Gen.OrchHistGen Model.OrchHist Model.OrchHistRun Actual.OrchHistActual
     Proofs.OrchHistMain.

Definition w_dirs : list (nat * list nat) := [(0, [0; 1; 2; 8; 9])].
Definition w_ign : list (nat * list nat) := [(0, []); (5, [1])].   (* version 4 of the ignore file (path 9) ignores path 1 *)
Definition w_fs : fsys := [(0, 0); (1, 1); (2, 2); (8, 0)].   (* path 8: the configuration file, path 9: the ignore file *)
Definition only_dry : oquirks := Build_oquirks true false false false false false false.
Definition only_leaves : oquirks := Build_oquirks false true false false false false false.
Definition only_consts : oquirks := Build_oquirks false false true false false false false.
Definition only_reuse : oquirks := Build_oquirks false false false true false false false.
Definition only_dry_sticky : oquirks := Build_oquirks false false false false false true false.
Definition only_fp_sticky : oquirks := Build_oquirks false false false false false false true.

(* REGRESSION (finding q_dry_keeps_storage, fixed by 8b82489): lint the directory, delete a file, lint again - under the
   vector claimed for the current tree every call now returns what a fresh object returns *)
Definition w_delete : list op := [ApiLint (TDir 0 [0; 1; 2]); Delete 1; ApiLint (TDir 0 [0; 2])].
Example C08_dry_storage_regression :
  sym_run [] w_ign 9 8 w_dirs orch_actual w_fs w_delete = sym_fresh_run [] w_ign 9 8 w_dirs orch_actual w_fs w_delete
  /\ sym_run [] w_ign 9 8 w_dirs only_dry w_fs w_delete = sym_fresh_run [] w_ign 9 8 w_dirs only_dry w_fs w_delete.
Proof. split; vm_compute; reflexivity. Qed.

(* Orchestrator.lint_file leaves its evidence behind: the next batch run reports it (still present) *)
Definition w_single : list op := [LintFile 0; LintFiles [1]].
Theorem C08_lintfile_evidence_refuted :
  sym_run [] w_ign 9 8 w_dirs only_leaves w_fs w_single <> sym_fresh_run [] w_ign 9 8 w_dirs only_leaves w_fs w_single
  /\ sym_run [] w_ign 9 8 w_dirs orch_actual w_fs w_single <> sym_fresh_run [] w_ign 9 8 w_dirs orch_actual w_fs w_single.
Proof. split; vm_compute; discriminate. Qed.

(* REGRESSION (finding q_consts_in_processing_order, fixed by 5ce39e3): two orders of the same file list give the same
   duplicate-constant report under the vector claimed for the current tree *)
Definition w_order_a : list op := [LintFiles [0; 1; 2]].
Definition w_order_b : list op := [LintFiles [2; 1; 0]].
Definition run_c (q : oquirks) (h : list op) : list (list tok) :=
  map out_all (snd (run tok (fun _ _ => []) (fun _ _ => []) (fun _ _ _ => []) (sym_rep 1) (fun _ => []) (fun _ => false) (fun _ _ => false) 9 8 (tbl_in_dir w_dirs) q (init_st None (Some 0), w_fs) h)).
Example C08_consts_order_regression :
  run_c orch_actual w_order_a = run_c orch_actual w_order_b /\ run_c only_consts w_order_a = run_c only_consts w_order_b
  /\ run_c orch_actual w_order_a = [[TRep 1 0 1 [(0, 1); (1, 9); (2, 17)]]].
Proof. repeat split; vm_compute; reflexivity. Qed.

(* a new Linter built in the same process after the ignore file changed keeps the patterns (and decisions) of the old one:
   path 1 is ignored by the new version of the ignore file, yet still linted *)
Definition w_reuse : list op := [ApiLint (TDir 0 [0; 1; 2]); Add 9 4; NewLinter; ApiLint (TDir 0 [0; 1; 2; 9])].
Theorem C08_ignore_parser_reuse_refuted :
  hist_synced 9 8 false false w_reuse = true
  /\ sym_run [] w_ign 9 8 w_dirs only_reuse w_fs w_reuse <> sym_fresh_run [] w_ign 9 8 w_dirs only_reuse w_fs w_reuse
  /\ sym_run [] w_ign 9 8 w_dirs orch_actual w_fs w_reuse <> sym_fresh_run [] w_ign 9 8 w_dirs orch_actual w_fs w_reuse.
Proof. split; [reflexivity|]. split; vm_compute; discriminate. Qed.

(* the configuration of a live object is reloaded (orchestrator.config = the new file): DRYRule keeps reporting under the
   configuration it saw first, FilePlacementRule keeps the linter it built from it *)
Definition w_reload : list op := [ApiLint (TDir 0 [0; 1; 2]); Edit 8 1; ReloadConfig; ApiLint (TDir 0 [0; 1; 2])].
Theorem C08_dry_config_sticky_refuted :
  hist_synced 9 8 false false w_reload = true
  /\ sym_run [] w_ign 9 8 w_dirs only_dry_sticky w_fs w_reload <> sym_fresh_run [] w_ign 9 8 w_dirs only_dry_sticky w_fs w_reload
  /\ sym_run [] w_ign 9 8 w_dirs orch_actual w_fs w_reload <> sym_fresh_run [] w_ign 9 8 w_dirs orch_actual w_fs w_reload.
Proof. split; [reflexivity|]. split; vm_compute; discriminate. Qed.
Theorem C08_fp_config_sticky_refuted :
  sym_run [] w_ign 9 8 w_dirs only_fp_sticky w_fs w_reload <> sym_fresh_run [] w_ign 9 8 w_dirs only_fp_sticky w_fs w_reload.
Proof. vm_compute; discriminate. Qed.
