(* Props/C03Known.v — refutations: for each flag claimed `true` in Actual/DryActual.v a concrete project on
   which the faithful model (= the implementation, by the correspondence check of every run) violates a
   clause of the property.  The same projects are corpus/C03/*_w.json and are replayed on the implementation
   on every run.  With the flag off each clause holds (Props/C03.v). *)
From TL Require Import Lib.Base Lib.GenTypes Model.DryBase Model.DryPipe Gen.DryGen Model.Dry Model.DrySpec Model.DryRun Actual.DryActual.

Definition L := Build_aline.
Definition F := Build_afile.

(* q_strip_in_code: statements that differ only after `//` (floor division) and after `#` inside a string *)
Definition strip_in_code_w : list afile := [F DPy [L false "" "def f(a):" CNone; L false "    " "p = a // 2" CNone; L false "    " "q = ""u#one""" CNone; L false "    " "r = p // 7" CNone; L false "    " "return 1" CNone]; F DPy [L false "" "def g(a):" CNone; L false "    " "p = a // 3" CNone; L false "    " "q = ""u#two""" CNone; L false "    " "r = p // 9" CNone; L false "    " "return 2" CNone]].

Theorem C03_strip_in_code_refuted : ~ sound strip_in_code_w 3 (dry_model dry_actual 3 2 strip_in_code_w).
Proof.
  intros H.
  assert (E : dry_model dry_actual 3 2 strip_in_code_w = [Build_viol 0 2 1 3 2 [(1, 2, 4)]; Build_viol 1 2 1 3 2 [(0, 2, 4)]]) by (vm_compute; reflexivity).
  rewrite E in H. destruct (H _ (or_introl eq_refl)) as [_ [_ H3]].
  destruct (H3 1 2 4 (or_introl eq_refl)) as [_ H4]. vm_compute in H4. discriminate.
Qed.
Theorem C03_strip_in_code_off_ok : dry_model (dwith_flag 0 dry_actual) 3 2 strip_in_code_w = [].
Proof. vm_compute. reflexivity. Qed.

(* q_block_comment_kept: a /* */ comment line inside a run shared by two TypeScript files *)
Definition block_comment_w : list afile := [F DTs [L false "" "function f(a) {" CNone; L false "  " "const x = foo(a);" CNone; L false "  " "const y = bar(x, 1);" CNone; L false "  " "" (CBlock "note"); L false "  " "const z = baz(y);" CNone; L false "  " "return z;" CNone; L false "" "}" CNone]; F DTs [L false "" "function g(a) {" CNone; L false "  " "const x = foo(a);" CNone; L false "  " "const y = bar(x, 1);" CNone; L false "  " "const z = baz(y);" CNone; L false "  " "return x;" CNone; L false "" "}" CNone]].

Definition bw_1 : row := Eval vm_compute in nth 1 (ref_rows 3 block_comment_w) (Build_row 0 0 0 "").
Definition bw_2 : row := Eval vm_compute in nth 4 (ref_rows 3 block_comment_w) (Build_row 0 0 0 "").

Theorem C03_block_comment_kept_refuted : ~ complete (ref_rows 3 block_comment_w) 2 (dry_model dry_actual 3 2 block_comment_w).
Proof.
  intros H.
  assert (E : dry_model dry_actual 3 2 block_comment_w = []) by (vm_compute; reflexivity).
  rewrite E in H.
  assert (Hin1 : In bw_1 (ref_rows 3 block_comment_w)) by (vm_compute; right; left; reflexivity).
  assert (Hin2 : In bw_2 (ref_rows 3 block_comment_w)) by (vm_compute; do 4 right; left; reflexivity).
  assert (Hs : r_snip bw_2 = r_snip bw_1) by reflexivity.
  assert (Hd : disjoint_occurrences (ref_rows 3 block_comment_w) (r_snip bw_1) [bw_1; bw_2]).
  { split; [|split].
    - constructor; [intros [E1|[]]; discriminate E1|constructor; [intros []|constructor]].
    - intros p [<-|[<-|[]]]; split; [exact Hin1|reflexivity|exact Hin2|exact Hs].
    - intros a b [<-|[<-|[]]] [<-|[<-|[]]] Hne; try (exfalso; apply Hne; reflexivity); left; discriminate. }
  destruct (H (r_snip bw_1) [bw_1; bw_2] Hd (le_n 2) bw_1 Hin1 eq_refl) as [p [_ [_ [_ [_ [_ [v [[] _]]]]]]]].
Qed.
Theorem C03_block_comment_off_ok :
  dry_model (dwith_flag 1 dry_actual) 3 2 block_comment_w = [Build_viol 0 2 1 4 2 [(1, 2, 4)]; Build_viol 1 2 1 3 2 [(0, 2, 5)]].
Proof. vm_compute. reflexivity. Qed.

(* q_overlap_asym: block Q of file 0 (lines 6-10, stretched by blank lines) is dropped as "overlapping" block P
   (lines 2-4); file 1 line 8 still names 0:6-10, which no reported violation covers *)
Definition overlap_asym_w : list afile := [F DPy [L false "" "def f(a):" CNone; L false "    " "p = one(a)" CNone; L false "    " "q = two(p)" CNone; L false "    " "r = three(q)" CNone; L false "    " "u = other(r)" CNone; L false "    " "s = four(u)" CNone; L false "" "" CNone; L false "    " "t = five(s)" CNone; L false "" "" CNone; L false "    " "w = six(t)" CNone; L false "    " "return w" CNone]; F DPy [L false "" "def g(a):" CNone; L false "    " "p = one(a)" CNone; L false "    " "q = two(p)" CNone; L false "    " "r = three(q)" CNone; L false "    " "return r" CNone; L false "" "" CNone; L false "" "def h(u):" CNone; L false "    " "s = four(u)" CNone; L false "    " "t = five(s)" CNone; L false "    " "w = six(t)" CNone; L false "    " "return u" CNone]].

Theorem C03_overlap_asym_refuted : ~ mutual (dry_model dry_actual 3 2 overlap_asym_w).
Proof.
  intros H.
  assert (E : dry_model dry_actual 3 2 overlap_asym_w =
              [Build_viol 0 2 1 3 2 [(1, 2, 4)]; Build_viol 1 2 1 3 2 [(0, 2, 4)]; Build_viol 1 8 1 3 2 [(0, 6, 10)]]) by (vm_compute; reflexivity).
  rewrite E in H.
  destruct (H (Build_viol 1 8 1 3 2 [(0, 6, 10)]) (or_intror (or_intror (or_introl eq_refl))) 0 6 10 (or_introl eq_refl)) as [v [Hin Ht]].
  destruct Hin as [<-|[<-|[<-|[]]]]; vm_compute in Ht; discriminate.
Qed.
Theorem C03_overlap_asym_off_ok :
  dry_model (dwith_flag 2 dry_actual) 3 2 overlap_asym_w =
  [Build_viol 0 2 1 3 2 [(1, 2, 4)]; Build_viol 0 6 1 5 2 [(1, 8, 10)]; Build_viol 1 2 1 3 2 [(0, 2, 4)]; Build_viol 1 8 1 3 2 [(0, 6, 10)]].
Proof. vm_compute. reflexivity. Qed.
