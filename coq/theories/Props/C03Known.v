(* Props/C03Known.v — refutations: for each flag claimed `true` in Actual/DryActual.v a concrete project on
   which the faithful model (= the implementation, by the correspondence check of every run) violates a
   clause of the property.  The same projects are corpus/C03/*_w.json and are replayed on the implementation
   on every run.  With the flag off each clause holds (Props/C03.v). *)
From TL Require Import Lib.Base Lib.GenTypes Model.DryBase Model.DryPipe Gen.DryGen Model.Dry Model.DrySpec Model.DryRun Model.DryWitness Actual.DryActual.


(* q_strip_in_code: statements that differ only after `//` (floor division) and after `#` inside a string *)

Theorem C03_strip_in_code_refuted : ~ sound strip_in_code_w 3 (dry_model dry_actual 3 2 strip_in_code_w).
Proof.
  intros H.
  assert (E : dry_model dry_actual 3 2 strip_in_code_w = [Build_viol 0 2 1 3 2 [(1, 2, 4)]; Build_viol 1 2 1 3 2 [(0, 2, 4)]]) by (vm_compute; reflexivity).
  rewrite E in H. destruct (H _ (or_introl eq_refl)) as [_ [_ H3]].
  destruct (H3 1 2 4 (or_introl eq_refl)) as [_ H4]. vm_compute in H4. discriminate.
Qed.
Theorem C03_strip_in_code_off_ok : dry_model (dwith_flag 0 dry_actual) 3 2 strip_in_code_w = [].
Proof. vm_compute. reflexivity. Qed.

(* q_block_comment_kept: a /* */ comment line inside a run shared by two TypeScript files *)

Definition bw_1 : row := Eval vm_compute in nth 1 (ref_rows 3 block_comment_w) (Build_row 0 0 0 "").
Definition bw_2 : row := Eval vm_compute in nth 4 (ref_rows 3 block_comment_w) (Build_row 0 0 0 "").

Theorem C03_block_comment_kept_refuted : ~ complete (ref_rows 3 block_comment_w) 2 (dry_model dry_actual 3 2 block_comment_w).
Proof.
  intros H.
  assert (E : dry_model dry_actual 3 2 block_comment_w = []) by (vm_compute; reflexivity).
  rewrite E in H.
  assert (Hin1 : In bw_1 (ref_rows 3 block_comment_w)) by (vm_compute; right; left; reflexivity).
  assert (Hin2 : In bw_2 (ref_rows 3 block_comment_w)) by (vm_compute; do 4 right; left; reflexivity).
  assert (Hs : r_snip bw_2 = r_snip bw_1) by reflexivity.
  assert (Hd : disjoint_occurrences (ref_rows 3 block_comment_w) (r_snip bw_1) [bw_1; bw_2]).
  { split; [|split].
    - constructor; [intros [E1|[]]; discriminate E1|constructor; [intros []|constructor]].
    - intros p [<-|[<-|[]]]; split; [exact Hin1|reflexivity|exact Hin2|exact Hs].
    - intros a b [<-|[<-|[]]] [<-|[<-|[]]] Hne; try (exfalso; apply Hne; reflexivity); left; discriminate. }
  destruct (H (r_snip bw_1) [bw_1; bw_2] Hd (le_n 2) bw_1 Hin1 eq_refl) as [p [_ [_ [_ [_ [_ [v [[] _]]]]]]]].
Qed.
Theorem C03_block_comment_off_ok :
  dry_model (dwith_flag 1 dry_actual) 3 2 block_comment_w = [Build_viol 0 2 1 4 2 [(1, 2, 4)]; Build_viol 1 2 1 3 2 [(0, 2, 5)]].
Proof. vm_compute. reflexivity. Qed.

(* q_overlap_asym was repaired by fix f9c5945 (the filter reads the earlier block's own line count): its witness
   overlap_asym_w is now a regression input, see Props/C03.v C03_overlap_witness_regression. *)
