(* Props/C02.v — property C02 (magic numbers: exactly the non-allowed literals outside the documented
   exempt positions).  Only statements closed by `exact <lemma>` and their Print Assumptions.

   report lg q cfg f  : what the model of the linter (Model/Magic.v, quirk vector q) reports for file f
   spec_report lg cfg f : what the property and docs/magic-numbers-linter.md demand (Model/MagicSpec.v)
   flaggable ... = Some v : a numeric literal with value v, v not in allowed_numbers, in no exempt position *)
From Coq Require Import ZArith.
From TL Require Import Lib.Base Lib.GenTypes Gen.MagicGen Model.MagicNum Model.Magic Model.MagicSpec Actual.MagicActual
     Proofs.MagicChars Proofs.MagicExtract Proofs.MagicFacts Proofs.MagicTs Proofs.MagicRs Proofs.MagicPy Proofs.MagicMain.

(* 1. Exactness, per language: for every quirk vector whose still-open language flags are off, every configuration
      (allowed_numbers, max_small_integer, per-language sections, or the defaults) and every admissible file (any file name, see 14), the
      reported list is exactly the demanded one (same entries, same multiplicities, same order).
      The flags q_py_bool_is_number, q_ts_hex_e_float, q_ts_bigint_dropped and q_rs_hex_suffix_clash are no longer
      hypotheses: with them on, the model uses the tables found in the (repaired) source, and the statement covers that. *)
Theorem C02_py_report_exact : forall q cfg f,
  q_py_upper_neg_flagged q = false -> q_py_upper_ann_flagged q = false ->
  q_py_upper_tuple_flagged q = false -> q_py_enumerate_kw_flagged q = false -> q_py_upper_binop_flagged q = false ->
  file_good MPy f = true ->
  report MPy q cfg f = spec_report MPy cfg f.
Proof. exact py_report_exact. Qed.
Print Assumptions C02_py_report_exact.

Theorem C02_ts_report_exact : forall q cfg f,
  q_ts_test_marker_anywhere q = false -> q_ts_single_letter_const q = false ->
  file_good MTs f = true -> report MTs q cfg f = spec_report MTs cfg f.
Proof. exact ts_report_exact. Qed.
Print Assumptions C02_ts_report_exact.

Theorem C02_rs_report_exact : forall q cfg f,
  file_good MRs f = true -> report MRs q cfg f = spec_report MRs cfg f.
Proof. exact rs_report_exact. Qed.
Print Assumptions C02_rs_report_exact.

(* 2. Reported iff / on its line / naming its value: an entry r is reported iff it is (line of the statement,
      value of the literal) for some numeric literal occurrence that is flaggable. *)
Theorem C02_reported_iff : forall lg q cfg f r,
  flags_off lg q -> file_good lg f = true ->
  (In r (report lg q cfg f) <->
   exists sc s l v, In sc (f_scopes f) /\ In s (sc_sites sc) /\ In l (s_lits s)
                    /\ flaggable lg cfg f sc s l = Some v /\ r = (s_line s, RNum v)).
Proof. exact reported_iff. Qed.
Print Assumptions C02_reported_iff.

(* 3. Exactly once: as many reports as flaggable literal occurrences. *)
Theorem C02_exactly_once : forall lg q cfg f,
  flags_off lg q -> file_good lg f = true -> List.length (report lg q cfg f) = count_flaggable lg cfg f.
Proof. exact report_exactly_once. Qed.
Print Assumptions C02_exactly_once.

(* 4. The delta law, for EVERY quirk vector (so also for the code as it is): adding a value to allowed_numbers
      removes exactly the reports naming it; any configuration whose allowed set is that of cfg without a
      reports what cfg reports plus exactly the reports naming a; only the set of allowed values matters. *)
Theorem C02_allowed_add : forall lg q cfg a f,
  report lg q (add_allowed a cfg) f = filter (keep (norm a)) (report lg q cfg f).
Proof. exact allowed_add. Qed.
Print Assumptions C02_allowed_add.

Theorem C02_allowed_remove : forall lg q cfg cfg' a f,
  (forall v, nmem v (allowed cfg) = num_eqb v (norm a) || nmem v (allowed cfg')) -> max_small cfg = max_small cfg' ->
  report lg q cfg f = filter (keep (norm a)) (report lg q cfg' f).
Proof. exact allowed_remove. Qed.
Print Assumptions C02_allowed_remove.

Theorem C02_allowed_ext : forall lg q c1 c2 f,
  (forall v, nmem v (allowed c2) = nmem v (allowed c1)) -> max_small c2 = max_small c1 -> report lg q c2 f = report lg q c1 f.
Proof. exact allowed_ext. Qed.
Print Assumptions C02_allowed_ext.

(* 5. Nothing that is not a numeric literal (booleans, strings containing digits, identifiers) is reported. *)
Theorem C02_report_only_numeric : forall lg q cfg f r,
  flags_off lg q -> file_good lg f = true -> In r (report lg q cfg f) ->
  exists sc s l v, In sc (f_scopes f) /\ In s (sc_sites sc) /\ In l (s_lits s) /\ lit_is_numeric l = true
                   /\ lit_value l = Some v /\ r = (s_line s, RNum v).
Proof. exact report_only_numeric. Qed.
Print Assumptions C02_report_only_numeric.

(* 6. extract_total: the text-level value extraction of the TypeScript and the Rust analyzer reads every literal of the
      documented grammar (decimal, hex / octal / binary, underscore-separated, suffixed, BigInt, floats with exponent)
      as its value. *)
Theorem C02_ts_extract_total : forall from_code_prefixes from_code_suffix l raw,
  lit_ok MTs l = true -> lit_raw l = Some raw -> ts_extract from_code_prefixes from_code_suffix (lit_chars l) = Some raw.
Proof. exact ts_extract_total. Qed.
Print Assumptions C02_ts_extract_total.

Theorem C02_rs_extract_total : forall from_code_table l raw,
  lit_ok MRs l = true -> lit_raw l = Some raw -> rs_extract from_code_table (rs_node_type l) (lit_chars l) = Some raw.
Proof. exact rs_extract_total. Qed.
Print Assumptions C02_rs_extract_total.

(* 7. The range() / enumerate() exemption is monotone in max_small_integer. *)
Theorem C02_small_int_monotone : forall c1 c2 c l v,
  (spec_max_small c1 <= spec_max_small c2)%Z -> spec_usage_exempt c1 c l v = true -> spec_usage_exempt c2 c l v = true.
Proof. exact small_int_monotone. Qed.
Print Assumptions C02_small_int_monotone.

(* 8. The faithful model (every flag as claimed for the current tree) is exact on every admissible file outside the
      defect classes that are still open: Python UPPER_CASE definitions through a minus / annotation / tuple / product, enumerate(.., start=N),
      TypeScript paths on which the substring test and the documented test-file rule differ, and TypeScript
      declarations of a one-letter upper-case name (partial: the full statements
      are 1; for Rust there is no restriction left, see C02_rs_report_exact). *)
Theorem C02_actual_partial : forall lg cfg f ds,
  file_good lg f = true -> file_plain lg magic_actual f = true -> dirs_good ds = true ->
  lint_d lg magic_actual cfg f ds = spec_lint_d lg cfg f ds.
Proof. intros lg cfg f ds. exact (lint_d_guarded lg magic_actual cfg f ds). Qed.
Print Assumptions C02_actual_partial.

(* 9. The defaults found in the source are the documented ones. *)
Theorem C02_defaults_documented :
  (forall v, nmem v (map norm default_allowed_numbers) = nmem v (map norm doc_default_allowed))
  /\ default_max_small_integer = doc_default_max_small.
Proof. exact (conj default_allowed_doc (proj1 gen_defaults)). Qed.
Print Assumptions C02_defaults_documented.

(* 10. Configuration precedence: the allowed set and the small-integer limit in effect are those of the language's
       sub-section when it sets the key, else the top-level key, else the default (the order is read from from_dict). *)
Theorem C02_config_precedence : forall cfg,
  (forall v, nmem v (allowed cfg) = nmem v (spec_allowed cfg)) /\ max_small cfg = spec_max_small cfg.
Proof. exact (fun cfg => conj (allowed_spec cfg) (max_small_spec cfg)). Qed.
Print Assumptions C02_config_precedence.

(* 11. The section switches: with `enabled: false` nothing is reported; a file matched by an `ignore` pattern is skipped;
       otherwise the command reports exactly what the rule demands; the delta law survives the switches. *)
Theorem C02_lint_exact : forall lg q cfg f,
  flags_off lg q -> file_good lg f = true -> lint lg q cfg f = spec_lint lg cfg f.
Proof. exact lint_exact. Qed.
Print Assumptions C02_lint_exact.

Theorem C02_lint_disabled : forall lg q cfg f, c_enabled cfg = Some false -> lint lg q cfg f = [].
Proof. exact lint_disabled. Qed.
Print Assumptions C02_lint_disabled.

Theorem C02_lint_ignored : forall lg q cfg f p,
  In p (c_ignore cfg) -> path_match p (f_name f) || contains (chars p) (chars (f_name f)) = true -> lint lg q cfg f = [].
Proof. exact lint_ignored. Qed.
Print Assumptions C02_lint_ignored.

Theorem C02_lint_allowed_add : forall lg q cfg a f,
  lint lg q (add_allowed a cfg) f = filter (keep (norm a)) (lint lg q cfg f).
Proof. exact lint_allowed_add. Qed.
Print Assumptions C02_lint_allowed_add.

(* 12. Same-line ignore directives (trailing `# thailint: ignore[...]` / `// thailint: ignore[...]` comments of the documented
       forms): the reports are exactly the demanded ones on the lines that carry no matching directive; the delta law survives. *)
Theorem C02_directives_exact : forall lg q cfg f ds,
  flags_off lg q -> file_good lg f = true -> dirs_good ds = true -> lint_d lg q cfg f ds = spec_lint_d lg cfg f ds.
Proof. exact lint_d_exact. Qed.
Print Assumptions C02_directives_exact.

Theorem C02_directive_line : forall lg cfg f ds r,
  In r (spec_lint_d lg cfg f ds) <-> In r (spec_lint lg cfg f) /\ suppressed_at spec_suppresses ds (fst r) = false.
Proof. exact spec_directive_line. Qed.
Print Assumptions C02_directive_line.

Theorem C02_directives_delta : forall lg q cfg a f ds,
  lint_d lg q (add_allowed a cfg) f ds = filter (keep (norm a)) (lint_d lg q cfg f ds).
Proof. exact lint_d_delta. Qed.
Print Assumptions C02_directives_delta.

(* 13. Negative entries of allowed_numbers match nothing: a literal is an unsigned token (the minus of `-5` is an operator in
       the three grammars), so adding a negative value changes no report.  (The documentation's `status == -1` example is
       quiet because 1 is allowed, not because -1 is.) *)
Theorem C02_negative_allowed_inert : forall lg q cfg a f,
  flags_off lg q -> file_good lg f = true -> (fst a < 0)%Z -> report lg q (add_allowed a cfg) f = report lg q cfg f.
Proof. exact negative_allowed_inert. Qed.
Print Assumptions C02_negative_allowed_inert.

(* 14. File names.  The theorems above hold for EVERY path (TypeScript / JavaScript, Rust) and for every Python path whose last
       segment is <stem>.py with a dot-free stem (file_good asks nothing else of the name).  The two name-dependent Python tests
       agree with the documented patterns on all those names: is_test_file (`startswith("test_")` / `"_test.py" in name`) with
       test_*.py / *_test.py, the definition-module name test with *_codes.py / constants.py / *_constants.py in any letter case.
       The restriction is tight: on a dotted stem the substring test and the documented pattern differ. *)
Theorem C02_py_test_file_names : forall name, name_good MPy name = true -> py_is_test_file name = spec_is_test_file MPy name.
Proof. exact py_test_name. Qed.
Print Assumptions C02_py_test_file_names.

Theorem C02_py_definition_file_names : forall name, def_name_match name = spec_def_name name.
Proof. exact def_name_spec. Qed.
Print Assumptions C02_py_definition_file_names.

Example C02_names_nonvacuous :
  forallb (name_good MPy) (name_pool MPy) && name_good MPy "/pkg_a/unit.test.d/TEST_helper_Codes.py" && name_good MPy "x.py" = true
  /\ name_good MPy "/a_test.py.py" = false
  /\ py_is_test_file "/a_test.py.py" = true /\ spec_is_test_file MPy "/a_test.py.py" = false.
Proof. vm_compute. repeat split; reflexivity. Qed.

(* floats without an integer part (.5, .25e3) are literals of Python and TypeScript / JavaScript, not of Rust *)
Example C02_leading_dot_float :
  lit_ok MPy (LFloat [] [2;5] (Some ((false, true), [3])) "") && lit_ok MTs (LFloat [] [5] None "") && negb (lit_ok MRs (LFloat [] [5] None "")) = true
  /\ ts_extract true true (lit_chars (LFloat [] [2;5] (Some ((false, true), [3])) "")) = Some (25, 1)%Z.
Proof. vm_compute. repeat split; reflexivity. Qed.

(* non-vacuity: admissible files in the three languages with literals on both sides of the rule *)
Definition ex_py : file :=
  mk_file "/case.py"
    [mk_scope STop None [] [mk_site CUpper "MAX_SIZE" [LInt RDec [[3;0;0]] false ""] 1;
                            mk_site CAssign "timeout" [LInt RHexU [[1;15]] true ""] 2;
                            mk_site CUpper "_POOL_SIZE" [LInt RDec [[1;2]] false ""] 3; mk_site CAssign "N" [LInt RDec [[1;3]] false ""] 3];
     mk_scope SFunc None [] [mk_site CRange "val" [LInt RDec [[5]] false ""; LInt RDec [[5;0]] false ""] 4;
                             mk_site CReturn "val" [LFloat [2] [5] (Some ((true, true), [3])) ""] 5;
                             mk_site CStrRepeatL "val" [LInt RDec [[4;0]] false ""] 6;
                             mk_site CAssign "flag" [LBool true] 7]].
Definition ex_ts : file :=
  mk_file "/case.ts"
    [mk_scope STop None [] [mk_site CTsEnum "EV" [LInt RDec [[7]] false ""] 1; mk_site CAssign "val" [LInt RHex [[15;14]] true ""] 2;
                            mk_site CArg "foo" [LInt RDec [[1;0]] false "n"; LStr "42"] 3;
                            mk_site CInterp "val" [LInt RDec [[3;7]] false ""] 4]].
Definition ex_rs : file :=
  mk_file "/case.rs"
    [mk_scope SFunc None [] [mk_site CAssign "val" [LInt RHex [[1;15;3;2]] false ""] 2; mk_site CUpper "MAX_V" [LInt RDec [[9]] false ""] 3];
     mk_scope SFunc (Some ["#[cfg(test)]"]) ["#[test]"] [mk_site CAssign "val" [LInt RDec [[3;1;1]] false "_i32"] 7]].
Definition ex_cfg : mconfig := mk_cfg (Some [(7, 0)%Z]) None None None [].

Example C02_nonvacuous :
  file_good MPy ex_py = true /\ file_good MTs ex_ts = true /\ file_good MRs ex_rs = true
  /\ spec_report MPy ex_cfg ex_py = [(2, RNum (31, 0)%Z); (3, RNum (13, 0)%Z); (4, RNum (5, 1)%Z); (5, RNum (25, -4)%Z)]
  /\ spec_report MTs ex_cfg ex_ts = [(2, RNum (254, 0)%Z); (3, RNum (1, 1)%Z); (4, RNum (37, 0)%Z)]
  /\ spec_report MTs (mk_cfg (Some [(37, 0)%Z]) None (Some (None, Some 3%Z)) None []) ex_ts = [(2, RNum (254, 0)%Z); (3, RNum (1, 1)%Z)]
  /\ spec_report MTs (mk_cfg (Some [(37, 0)%Z]) None (Some (Some [], None)) None []) ex_ts
     = [(2, RNum (254, 0)%Z); (3, RNum (1, 1)%Z); (4, RNum (37, 0)%Z)]
  /\ spec_report MRs ex_cfg ex_rs = [(2, RNum (7986, 0)%Z)].
Proof. vm_compute. repeat split; reflexivity. Qed.

(* non-vacuity of 8: admissible files outside every defect class on which the faithful model reports something *)
Definition ex_py_plain : file :=
  mk_file "/util/helpers.py"
    [mk_scope STop None [] [mk_site CUpper "MAX_SIZE" [LInt RDec [[3;0;0]] false ""] 1];
     mk_scope SMethod None [] [mk_site CArg "foo" [LInt RDec [[1];[0;0;0]] false ""; LStr "42"; LFloat [3] [0] None ""] 4;
                               mk_site CEnumerate "val" [LInt RDec [[1;2]] false ""] 5]].
Definition ex_ts_plain : file :=
  mk_file "/src/util.ts" [mk_scope SNested None [] [mk_site CCompare "val" [LInt RHex [[1;15]] true ""] 3; mk_site CUpperTuple "LIMITS" [LInt RDec [[9]] false ""] 4]].
Definition ex_rs_plain : file :=
  mk_file "/src/util.rs" [mk_scope SMethod None ["#[inline]"] [mk_site CReturn "val" [LInt RHex [[1;15;3;2]] true "u32"] 3; mk_site CRsStatic "TMO" [LInt RDec [[9]] false ""] 4]].

Example C02_partial_nonvacuous :
  file_good MPy ex_py_plain && file_plain MPy magic_actual ex_py_plain && file_good MTs ex_ts_plain && file_plain MTs magic_actual ex_ts_plain
  && file_good MRs ex_rs_plain && file_plain MRs magic_actual ex_rs_plain = true
  /\ report MPy magic_actual ex_cfg ex_py_plain = [(4, RNum (1, 3)%Z); (4, RNum (3, 0)%Z); (5, RNum (12, 0)%Z)]
  /\ report MTs magic_actual ex_cfg ex_ts_plain = [(3, RNum (31, 0)%Z)]
  /\ report MRs magic_actual ex_cfg ex_rs_plain = [(3, RNum (7986, 0)%Z)].
Proof. vm_compute. repeat split; reflexivity. Qed.
