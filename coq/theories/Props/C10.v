(* Props/C10.v — property C10 (directory, file-list, CLI and library runs agree with one another).
   Only statements closed by `exact <lemma>` and their Print Assumptions.  Same parametric model as C08
   (Model/OrchHist.v); `o_pf` is everything the rules' check() returns (the findings of rules that judge files one
   at a time), `o_blocks / o_consts / o_st` what finalize() adds (cross-file rules). *)
From Coq Require Import Permutation.
From TL Require Import Lib.Base Lib.GenTypes Gen.OrchHistGen Model.OrchHist Model.OrchHistRun
     Proofs.OrchHistBase Proofs.OrchHistMain Proofs.OrchHistApi.

(* 1. For every rule that judges files one at a time: a directory run and a file-list run report exactly the
      union of what linting each contained file on its own reports — from any object state that holds the current patterns and configuration (`current`), for every quirk vector. *)
Theorem C10_dir_is_union :
  forall V perfile perfile_fp rep_blocks rep_consts rep_st hard_excl ignored ign_path cfg_path in_dir q st fs d l,
  coherent ignored st -> current ign_path cfg_path q st fs ->
  o_pf (snd (step V perfile perfile_fp rep_blocks rep_consts rep_st hard_excl ignored ign_path cfg_path in_dir q (st, fs) (LintDir d l)))
  = flat_map (fun p => o_pf (fresh V perfile perfile_fp rep_blocks rep_consts rep_st hard_excl ignored ign_path cfg_path in_dir q fs (LintFile p))) (walk in_dir fs d l)
  /\ o_pf (snd (step V perfile perfile_fp rep_blocks rep_consts rep_st hard_excl ignored ign_path cfg_path in_dir q (st, fs) (ApiLint (TDir d l))))
  = flat_map (fun p => o_pf (fresh V perfile perfile_fp rep_blocks rep_consts rep_st hard_excl ignored ign_path cfg_path in_dir q fs (LintFile p))) (walk in_dir fs d l).
Proof. exact dir_is_union. Qed.
Print Assumptions C10_dir_is_union.

Theorem C10_files_is_union :
  forall V perfile perfile_fp rep_blocks rep_consts rep_st hard_excl ignored ign_path cfg_path in_dir q st fs ps,
  coherent ignored st -> current ign_path cfg_path q st fs ->
  o_pf (snd (step V perfile perfile_fp rep_blocks rep_consts rep_st hard_excl ignored ign_path cfg_path in_dir q (st, fs) (LintFiles ps)))
  = flat_map (fun p => o_pf (fresh V perfile perfile_fp rep_blocks rep_consts rep_st hard_excl ignored ign_path cfg_path in_dir q fs (LintFile p))) ps.
Proof. exact files_is_union. Qed.
Print Assumptions C10_files_is_union.

Theorem C10_api_file_perfile :
  forall V perfile perfile_fp rep_blocks rep_consts rep_st hard_excl ignored ign_path cfg_path in_dir q fs p c,
  fs_get fs p = Some c ->
  o_pf (api_run V perfile perfile_fp rep_blocks rep_consts rep_st hard_excl ignored ign_path cfg_path in_dir q fs (TFile p))
  = o_pf (fresh V perfile perfile_fp rep_blocks rep_consts rep_st hard_excl ignored ign_path cfg_path in_dir q fs (LintFile p)).
Proof. exact api_file_perfile. Qed.
Print Assumptions C10_api_file_perfile.

(* 2. Same target, same configuration: Linter.lint and the command line return the same, cross-file findings
      included — for a directory and (since fix f7c62f4, read from the source) for a single file, under every quirk vector. *)
Theorem C10_api_eq_cli_dir :
  forall V perfile perfile_fp rep_blocks rep_consts rep_st hard_excl ignored ign_path cfg_path in_dir q fs d l,
  cli_run V perfile perfile_fp rep_blocks rep_consts rep_st hard_excl ignored ign_path cfg_path in_dir q fs [] [(d, l)]
  = [api_run V perfile perfile_fp rep_blocks rep_consts rep_st hard_excl ignored ign_path cfg_path in_dir q fs (TDir d l)].
Proof. exact api_eq_cli_dir. Qed.
Print Assumptions C10_api_eq_cli_dir.

Theorem C10_api_eq_cli_file :
  forall V perfile perfile_fp rep_blocks rep_consts rep_st hard_excl ignored ign_path cfg_path in_dir q fs p c,
  fs_get fs p = Some c ->
  cli_run V perfile perfile_fp rep_blocks rep_consts rep_st hard_excl ignored ign_path cfg_path in_dir q fs [p] []
  = [api_run V perfile perfile_fp rep_blocks rep_consts rep_st hard_excl ignored ign_path cfg_path in_dir q fs (TFile p)].
Proof. exact api_eq_cli_file. Qed.
Print Assumptions C10_api_eq_cli_file.

(* 3. Several command-line targets (the files together, then each directory) are reported as independent runs,
      for every quirk vector (the DRY storage is reset by finalize() since fix 8b82489): nothing of an earlier target is reported again. *)
Theorem C10_cli_targets_independent :
  forall V perfile perfile_fp rep_blocks rep_consts rep_st hard_excl ignored ign_path cfg_path in_dir q fs files dirs,
  cli_run V perfile perfile_fp rep_blocks rep_consts rep_st hard_excl ignored ign_path cfg_path in_dir q fs files dirs
  = map (fresh V perfile perfile_fp rep_blocks rep_consts rep_st hard_excl ignored ign_path cfg_path in_dir q fs) (cli_ops files dirs).
Proof. exact cli_targets_independent. Qed.
Print Assumptions C10_cli_targets_independent.

(* 4. The API's `rules` filter (operator read from the source) agrees with a command's rule_id filter when asked
      for exactly the rule ids that filter accepts among the ids a run can emit. *)
Theorem C10_filters_agree :
  forall (V : Type) (rule_of : V -> string) kind needle ids vs,
  (forall v, In v vs -> In (rule_of v) ids) ->
  filter (fmatch kind needle) ids <> [] ->
  api_filter V rule_of (filter (fmatch kind needle) ids) vs = cli_filter V rule_of kind needle vs.
Proof. exact filters_agree. Qed.
Print Assumptions C10_filters_agree.

(* 5. Every linter command's rule_id filter (read from src/cli/linters) accepts exactly the rule ids that the code of
      its own linter package can put on a violation (literals read from src/linters/<package>), and none of another
      package: the command reports the findings of its linter and only those. *)
Theorem C10_cli_filters_select_own_package : forallb (fun e => filter_exact (fst e) (snd e)) cmd_pkg = true.
Proof. exact cli_filters_select_own_package. Qed.
Print Assumptions C10_cli_filters_select_own_package.

(* non-vacuity: with the symbolic rules, a directory run returns the three files' own findings plus the reports *)
Example C10_nonvacuous :
  map out_all (sym_cli [] [] 9 8 [(0, [0; 1; 2])] ideal [(0, 0); (1, 1); (2, 2)] [1] [(0, [2; 0; 1])])
  = [ [TPer 1 (Some 8); TFp 1 (Some 8); TRep 0 1 0 [(1, 8)]; TRep 1 0 0 [(1, 8)]; TRep 2 0 0 [(1, 8)]];
      [TPer 2 (Some 16); TFp 2 (Some 16); TPer 0 (Some 0); TFp 0 (Some 0); TPer 1 (Some 8); TFp 1 (Some 8);
       TRep 0 3 0 [(2, 16); (0, 0); (1, 8)]; TRep 1 0 0 [(0, 0); (1, 8); (2, 16)]; TRep 2 0 0 [(2, 16); (0, 0); (1, 8)]] ]
  /\ cli_filter_of "_run_dry_lint" cli_filters = Some ("FStartswith", "dry.")
  /\ fmatch "FStartswith" "dry." "dry.duplicate-code" = true /\ fmatch "FContains" "nesting" "dry.duplicate-code" = false.
Proof. vm_compute. repeat split; reflexivity. Qed.
