(* Props/C06KnownValueError.v - refutation witness of the listed finding q_valueerror_aborts_run: one Python source with an
   undecodable file name for which the stringly-typed analyzers store one record ends the whole run with exit 2, because
   Orchestrator._safe_check_rule re-raises every ValueError and UnicodeEncodeError is one *)
From TL Require Import Lib.Base Model.OutputTypes Gen.OutputGen Model.Output Model.OutputRun Actual.OutputActual.
From Coq Require Import ZArith.
Local Open Scope Z_scope.

Definition w_undecodable : list lintfile := [Build_lintfile true 1].
Theorem C06_valueerror_aborts_run_refuted :
  run_outcome output_actual w_undecodable = OExit 2 /\ run_outcome ideal w_undecodable = OPerformed
  /\ run_outcome output_actual [Build_lintfile true 0; Build_lintfile false 3] = OPerformed.
Proof. vm_compute. repeat split; reflexivity. Qed.
