(* Props/C19Known.v — refutations: for each flag claimed `true` in Actual/EmbedActual.v a concrete fragment and
   embedding on which the faithful model of the string-concat-in-loop detector breaks the embedding law
   (closed by vm_compute).  The same inputs are in corpus/C19 and are replayed on the implementation on every run. *)
From TL Require Import Lib.Base Lib.GenTypes Gen.EmbedGen Model.Embed Model.PrintStmt Model.PerfConcat Model.StatelessCls
     Model.MethodProp Gen.Embed2Gen Model.CondVerbose Model.RegexLoop Model.EmbedRun Model.EmbedRun2 Actual.EmbedActual.

(* docs/performance-linter.md, "String Concatenation Detection" *)
Definition w_doc : list ast :=
  [N "body" "FunctionDef" 1 0 "build_message" "" [N "args" "arguments" 1 0 "" "" [N "args" "arg" 1 18 "items" "" []];
     N "body" "Assign" 2 4 "" "" [N "targets" "Name" 2 4 "result" "" []; N "value" "Constant" 2 13 "" "str" []];
     N "body" "For" 3 4 "" "" [N "target" "Name" 3 8 "item" "" []; N "iter" "Name" 3 16 "items" "" [];
        N "body" "AugAssign" 4 8 "" "" [N "target" "Name" 4 8 "result" "" []; N "op" "Add" 4 8 "" "" [];
           N "value" "Call" 4 18 "" "" [N "func" "Name" 4 18 "str" "" []; N "args" "Name" 4 22 "item" "" []]]];
     N "body" "Return" 5 4 "" "" [N "value" "Name" 5 11 "result" "" []]]].

(* two copies: reported once, not once per occurrence *)
Theorem C19_concat_dedup_refuted :
  concat_reports concat_actual (copies 2 7 w_doc)
  <> flat_map (fun k => shiftRs (k * 7) 0 (concat_reports concat_actual w_doc)) (seq 0 2).
Proof. vm_compute. discriminate. Qed.

(* followed by an unrelated function `def collect(rows): result = []; return result`: nothing is reported *)
Definition c_other : ctx :=
  Seq [] 0 Hole
      [N "body" "FunctionDef" 8 0 "collect" "" [N "args" "arguments" 8 0 "" "" [N "args" "arg" 8 12 "rows" "" []];
         N "body" "Assign" 9 4 "" "" [N "targets" "Name" 9 4 "result" "" []; N "value" "List" 9 13 "" "" []];
         N "body" "Return" 10 4 "" "" [N "value" "Name" 10 11 "result" "" []]]].
Theorem C19_concat_global_names_refuted :
  cc_ctx_ok c_other = true
  /\ law_cc concat_actual (EPlug c_other) w_doc = false
  /\ law_cc (cq_without 0 concat_actual) (EPlug c_other) w_doc = true.
Proof. vm_compute. repeat split; reflexivity. Qed.

(* `buffer += chunk` is reported because of the NAME buffer, which the code's table has and the documentation does not;
   renamed (no documented name involved), it is not *)
Definition w_named : list ast :=
  [N "body" "FunctionDef" 1 0 "join_chunks" "" [N "args" "arguments" 1 0 "" "" [N "args" "arg" 1 16 "chunks" "" []];
     N "body" "For" 2 4 "" "" [N "target" "Name" 2 8 "chunk" "" []; N "iter" "Name" 2 17 "chunks" "" [];
        N "body" "AugAssign" 3 8 "" "" [N "target" "Name" 3 8 "buffer" "" []; N "op" "Add" 3 8 "" "" []; N "value" "Name" 3 18 "chunk" "" []]];
     N "body" "Return" 4 4 "" "" [N "value" "Name" 4 11 "buffer" "" []]]].
Theorem C19_concat_name_table_refuted :
  in_domain (ERename [("buffer", "buffer_rn")]) w_named = [true; true]
  /\ law_cc concat_actual (ERename [("buffer", "buffer_rn")]) w_named = false
  /\ law_cc (cq_without 2 concat_actual) (ERename [("buffer", "buffer_rn")]) w_named = true.
Proof. vm_compute. repeat split; reflexivity. Qed.

(* ---------------------------------------------------------------- stateless-class *)
Definition w_cls : list ast :=
  [N "body" "ClassDef" 1 0 "StringUtils" "" [
     N "body" "FunctionDef" 2 4 "capitalize" "" [N "args" "arguments" 2 4 "" "" [N "args" "arg" 2 19 "self" "" []; N "args" "arg" 2 25 "text" "" []];
        N "body" "Return" 3 8 "" "" [N "value" "Call" 3 15 "" "" [N "func" "Attribute" 3 15 "capitalize" "" [N "value" "Name" 3 15 "text" "" []]]]];
     N "body" "FunctionDef" 5 4 "reverse" "" [N "args" "arguments" 5 4 "" "" [N "args" "arg" 5 16 "self" "" []; N "args" "arg" 5 22 "text" "" []];
        N "body" "Return" 6 8 "" "" [N "value" "Name" 6 15 "text" "" []]]]].
Definition law_sl (q : squirks) (e : emb) (frag : list ast) : bool :=
  same_reps (stateless_reports q (embed e frag)) (predicted e (stateless_reports q frag) (stateless_reports q (filler_of e))).

(* renamed to TestStringUtils / StringmixinUtils the documented kind of class is no longer reported *)
Theorem C19_stateless_test_name_refuted :
  law_sl stateless_actual (ERename [("StringUtils", "TestStringUtils")]) w_cls = false
  /\ law_sl (sq_without 0 stateless_actual) (ERename [("StringUtils", "TestStringUtils")]) w_cls = true.
Proof. vm_compute. split; reflexivity. Qed.
Theorem C19_stateless_mixin_name_refuted :
  law_sl stateless_actual (ERename [("StringUtils", "StringmixinUtils")]) w_cls = false
  /\ law_sl (sq_without 1 stateless_actual) (ERename [("StringUtils", "StringmixinUtils")]) w_cls = true.
Proof. vm_compute. split; reflexivity. Qed.

(* followed by an unrelated function that defines a local `class StringUtils(x.TestCase)`: nothing is reported *)
Definition c_same : ctx :=
  Seq [] 0 Hole
      [N "body" "FunctionDef" 9 0 "_tv_other_class" "" [N "args" "arguments" 9 0 "" "" [N "args" "arg" 9 20 "_tv_p" "" []];
         N "body" "ClassDef" 10 4 "StringUtils" "" [N "bases" "Attribute" 10 22 "TestCase" "" [N "value" "Name" 10 22 "_tv_p" "" []]; N "body" "Pass" 11 8 "" "" []];
         N "body" "Return" 13 4 "" "" [N "value" "Name" 13 11 "_tv_p" "" []]]].
Theorem C19_stateless_lookup_refuted :
  sl_ctx_ok c_same = true
  /\ law_sl stateless_actual (EPlug c_same) w_cls = false
  /\ law_sl (sq_without 2 stateless_actual) (EPlug c_same) w_cls = true.
Proof. vm_compute. repeat split; reflexivity. Qed.

(* ---------------------------------------------------------------- method-property *)
Definition w_user : list ast :=
  [N "body" "ClassDef" 1 0 "User" "" [N "body" "FunctionDef" 2 4 "get_name" "" [N "args" "arguments" 2 4 "" "" [N "args" "arg" 2 17 "self" "" []];
     N "body" "Return" 3 8 "" "" [N "value" "Attribute" 3 15 "_name" "" [N "value" "Name" 3 15 "self" "" []]]]]].
(* class _TvWrap:  if _tv_c:  <hole>   -- the documented class under an `if` in a class body is never found *)
Definition c_clsif : ctx :=
  Wrap (I "body" "ClassDef" 1 0 "_TvWrap" "") [] [] 1 4
       (Wrap (I "body" "If" 1 0 "" "") [N "test" "Name" 1 3 "_tv_c" "" []] [] 1 4 Hole).
Definition law_mp (q : mquirks) (c : ctx) (frag : list ast) : bool :=
  same_reps (method_reports q (plug c frag)) (shiftRs (off_l c) (off_c c) (method_reports q frag) ++ method_reports q (plug c [])).
Theorem C19_method_class_body_only_refuted :
  mp_ctx_ok c_clsif = true
  /\ method_reports method_actual w_user = [(2, 4, "User", "get_name")]
  /\ law_mp method_actual c_clsif w_user = false
  /\ law_mp m_ideal c_clsif w_user = true.
Proof. vm_compute. repeat split; reflexivity. Qed.

(* ---------------------------------------------------------------- conditional verbose *)
(* docs/improper-logging-linter.md, `if verbose: logger.debug(...)` inside a function *)
Definition w_verbose : list ast :=
  [N "body" "FunctionDef" 1 0 "process_data" "" [N "args" "arguments" 1 0 "" "" [N "args" "arg" 1 17 "data" "" []; N "args" "arg" 1 23 "verbose" "" []];
     N "body" "If" 2 4 "" "" [N "test" "Name" 2 7 "verbose" "" [];
        N "body" "Expr" 3 8 "" "" [N "value" "Call" 3 8 "" "" [N "func" "Attribute" 3 8 "debug" "" [N "value" "Name" 3 8 "logger" "" []];
           N "args" "Constant" 3 21 "Processing" "str" []]]]]].
(* wrapped in `if _tv_cfg.verbose:` the one logger call is reported twice; the ideal detector reports it once, moved *)
Definition c_verbose_if : ctx :=
  Wrap (I "body" "If" 1 0 "" "") [N "test" "Attribute" 1 3 "verbose" "" [N "value" "Name" 1 3 "_tv_cfg" "" []]] [] 1 4 Hole.
Theorem C19_condverbose_nested_refuted :
  cv_reports cv_actual (plug c_verbose_if w_verbose) = [(4, 12, "", "debug"); (4, 12, "", "debug")]
  /\ cv_reports v_ideal (plug c_verbose_if w_verbose) = shiftRs 1 4 (cv_reports v_ideal w_verbose)
  /\ cv_reports v_ideal w_verbose = [(3, 8, "", "debug")].
Proof. vm_compute. repeat split; reflexivity. Qed.

(* ---------------------------------------------------------------- regex in loop *)
(* docs/performance-linter.md Example 2: import re / def extract_emails(lines): for line in lines: match = re.search(.., line) *)
Definition w_regex : list ast :=
  [N "body" "Import" 1 0 "" "" [N "names" "alias" 1 7 "re" "" []];
   N "body" "FunctionDef" 3 0 "extract_emails" "" [N "args" "arguments" 3 0 "" "" [N "args" "arg" 3 19 "lines" "" []];
     N "body" "For" 4 4 "" "" [N "target" "Name" 4 8 "line" "" []; N "iter" "Name" 4 16 "lines" "" [];
        N "body" "Assign" 5 8 "" "" [N "targets" "Name" 5 8 "match" "" [];
           N "value" "Call" 5 16 "" "" [N "func" "Attribute" 5 16 "search" "" [N "value" "Name" 5 16 "re" "" []];
              N "args" "Constant" 5 26 "x" "str" []; N "args" "Name" 5 31 "line" "" []]]]]].
(* preceded by an unrelated function with a LOCAL variable re:  def _tv_patterns(_tv_src): import re as _tv_re; re = _tv_re.compile(_tv_src); return re *)
Definition c_local_re : ctx :=
  Seq [N "body" "FunctionDef" 1 0 "_tv_patterns" "" [N "args" "arguments" 1 0 "" "" [N "args" "arg" 1 17 "_tv_src" "" []];
         N "body" "Import" 2 4 "" "" [N "names" "alias" 2 11 "re" "" [N "asname" "@str" 2 11 "_tv_re" "" []]];
         N "body" "Assign" 3 4 "" "" [N "targets" "Name" 3 4 "re" "" [];
            N "value" "Call" 3 9 "" "" [N "func" "Attribute" 3 9 "compile" "" [N "value" "Name" 3 9 "_tv_re" "" []]; N "args" "Name" 3 24 "_tv_src" "" []]];
         N "body" "Return" 4 4 "" "" [N "value" "Name" 4 11 "re" "" []]]] 6 Hole [].
Theorem C19_regex_file_wide_refuted :
  rx_ctx_ok c_local_re = true
  /\ rx_reports rx_actual w_regex = [(5, 16, "mfor", "search")]
  /\ rx_reports rx_actual (plug c_local_re w_regex) = []
  /\ rx_reports r_ideal (plug c_local_re w_regex) = shiftRs 6 0 (rx_reports r_ideal w_regex)
  /\ rx_reports r_ideal w_regex = [(5, 16, "mfor", "search")].
Proof. vm_compute. repeat split; reflexivity. Qed.
