(* Props/C19Known.v — refutations: for each flag claimed `true` in Actual/EmbedActual.v a concrete fragment and
   embedding on which the faithful model of the string-concat-in-loop detector breaks the embedding law
   (closed by vm_compute).  The same inputs are in corpus/C19 and are replayed on the implementation on every run. *)
From TL Require Import Lib.Base Lib.GenTypes Gen.EmbedGen Model.Embed Model.PrintStmt Model.PerfConcat Model.EmbedRun
     Actual.EmbedActual.

(* docs/performance-linter.md, "String Concatenation Detection" *)
Definition w_doc : list ast :=
  [N "body" "FunctionDef" 1 0 "build_message" "" [N "args" "arguments" 1 0 "" "" [N "args" "arg" 1 18 "items" "" []];
     N "body" "Assign" 2 4 "" "" [N "targets" "Name" 2 4 "result" "" []; N "value" "Constant" 2 13 "" "str" []];
     N "body" "For" 3 4 "" "" [N "target" "Name" 3 8 "item" "" []; N "iter" "Name" 3 16 "items" "" [];
        N "body" "AugAssign" 4 8 "" "" [N "target" "Name" 4 8 "result" "" []; N "op" "Add" 4 8 "" "" [];
           N "value" "Call" 4 18 "" "" [N "func" "Name" 4 18 "str" "" []; N "args" "Name" 4 22 "item" "" []]]];
     N "body" "Return" 5 4 "" "" [N "value" "Name" 5 11 "result" "" []]]].

(* two copies: reported once, not once per occurrence *)
Theorem C19_concat_dedup_refuted :
  concat_reports concat_actual (copies 2 7 w_doc)
  <> flat_map (fun k => shiftRs (k * 7) 0 (concat_reports concat_actual w_doc)) (seq 0 2).
Proof. vm_compute. discriminate. Qed.

(* followed by an unrelated function `def collect(rows): result = []; return result`: nothing is reported *)
Definition c_other : ctx :=
  Seq [] 0 Hole
      [N "body" "FunctionDef" 8 0 "collect" "" [N "args" "arguments" 8 0 "" "" [N "args" "arg" 8 12 "rows" "" []];
         N "body" "Assign" 9 4 "" "" [N "targets" "Name" 9 4 "result" "" []; N "value" "List" 9 13 "" "" []];
         N "body" "Return" 10 4 "" "" [N "value" "Name" 10 11 "result" "" []]]].
Theorem C19_concat_global_names_refuted :
  cc_ctx_ok c_other = true
  /\ law_cc concat_actual (EPlug c_other) w_doc = false
  /\ law_cc (cq_without 0 concat_actual) (EPlug c_other) w_doc = true.
Proof. vm_compute. repeat split; reflexivity. Qed.

(* `buffer += chunk` is reported because of the NAME buffer, which the code's table has and the documentation does not;
   renamed (no documented name involved), it is not *)
Definition w_named : list ast :=
  [N "body" "FunctionDef" 1 0 "join_chunks" "" [N "args" "arguments" 1 0 "" "" [N "args" "arg" 1 16 "chunks" "" []];
     N "body" "For" 2 4 "" "" [N "target" "Name" 2 8 "chunk" "" []; N "iter" "Name" 2 17 "chunks" "" [];
        N "body" "AugAssign" 3 8 "" "" [N "target" "Name" 3 8 "buffer" "" []; N "op" "Add" 3 8 "" "" []; N "value" "Name" 3 18 "chunk" "" []]];
     N "body" "Return" 4 4 "" "" [N "value" "Name" 4 11 "buffer" "" []]]].
Theorem C19_concat_name_table_refuted :
  in_domain (ERename [("buffer", "buffer_rn")]) w_named = [true; true]
  /\ law_cc concat_actual (ERename [("buffer", "buffer_rn")]) w_named = false
  /\ law_cc (cq_without 2 concat_actual) (ERename [("buffer", "buffer_rn")]) w_named = true.
Proof. vm_compute. repeat split; reflexivity. Qed.
