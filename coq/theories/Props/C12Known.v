(* Props/C12Known.v — refutations: for each flag claimed `true` in Actual/LocActual.v a concrete file and construct on
   which the faithful builder model violates the property while the ideal model satisfies it (closed by vm_compute).
   The same inputs are in corpus/C12 and are replayed on the implementation on every run. *)
From TL Require Import Lib.Base Lib.GenTypes Model.LocTypes Gen.LocGen Model.Loc Model.LocRun Actual.LocActual.
From TL Require Import Model.LocLazyTypes Gen.LocLazyGen Model.LocLazy.

Definition only (i : nat) : lquirks :=
  Build_lquirks (i =? 0) (i =? 1) (i =? 2) (i =? 3) (i =? 4).
Definition refutes (i : nat) (f : lfile) (c : construct) : Prop :=
  wf_construct f c = true
  /\ loc_ok f c (model_line (only i) c) (model_col (only i) f c) = false
  /\ loc_ok f c (model_line loc_ideal c) (model_col loc_ideal f c) = true.

(* a method chain broken over lines: `.unwrap()` is on line 3, the report goes to line 1 *)
Definition w_chain : lfile := ["fn main() {"; "    let x = foo"; "        .bar()"; "        .unwrap();"; "}"].
Theorem C12_rs_chain_start_refuted : refutes 0 w_chain (K "unwrap" "" 3 9 1 12).
Proof. vm_compute. repeat split; reflexivity. Qed.
Theorem C12_rs_chain_start_clone_refuted : refutes 0 ["for i in 0..3 {"; "    let z = v"; "        .clone();"; "}"] (K "clone" "" 2 9 1 12).
Proof. vm_compute. repeat split; reflexivity. Qed.

(* REGRESSION (fixed in 147bf8d): a decorated TypeScript class that is not exported - the class node starts at the
   decorator, SRP now reports the `class` keyword child.  The old witness meets the specification under the claimed vector. *)
Definition w_deco : lfile := ["@Dec"; "class DataHandler {"; "  a() { return 1; }"; "  b() { return 2; }"; "}"].
Example C12_ts_decorated_class_now_ok :
  loc_ok w_deco (K "srp.ts" "DataHandler" 1 0 0 0) (model_line loc_actual (K "srp.ts" "DataHandler" 1 0 0 0))
         (model_col loc_actual w_deco (K "srp.ts" "DataHandler" 1 0 0 0)) = true
  /\ judge loc_actual w_deco [K "srp.ts" "DataHandler" 1 0 0 0] [R "srp.ts" "DataHandler" 2 0 ["DataHandler"] ["class "] true]
     = [[true; true; true; true; true; true; true; true; true]]
  /\ judge loc_actual w_deco [K "srp.ts" "DataHandler" 1 0 0 0] [R "srp.ts" "DataHandler" 1 0 ["DataHandler"] ["class "] true]
     = [[false; true; false; false; false; false; false; false; false]].
Proof. vm_compute. repeat split; reflexivity. Qed.

(* an arrow function whose declaration is broken after `=`: the quoted name `g` is on line 1, line 2 is reported *)
Definition w_arrow : lfile := ["const g ="; "  (a) => {"; "    if (a) { if (a) { h(); } }"; "  };"].
Theorem C12_ts_arrow_node_start_refuted : refutes 1 w_arrow (K "nesting.ts" "g" 0 6 1 2).
Proof. vm_compute. repeat split; reflexivity. Qed.

(* the same layout seen by the CQS rule (it takes its function nodes from the same extractor): `Function 'g' violates CQS`
   is reported at line 2 *)
Definition w_arrow_cqs : lfile := ["const g ="; "  (id) => {"; "    const data = load(id);"; "    save(data);"; "    return data;"; "  };"].
Theorem C12_ts_arrow_node_start_cqs_refuted : refutes 1 w_arrow_cqs (K "cqs.ts" "g" 0 6 1 2).
Proof. vm_compute. repeat split; reflexivity. Qed.

(* console / .log( on two lines *)
Definition w_console : lfile := ["function f() {"; "  console"; "    .log(1);"; "}"].
Theorem C12_ts_console_chain_start_refuted : refutes 2 w_console (K "print.ts" "log" 2 5 1 2).
Proof. vm_compute. repeat split; reflexivity. Qed.

(* temporal language numbered inside the header text: the phrase is on file line 5, header line 3 is reported *)
Definition w_header : lfile := ["#!/usr/bin/env python3"; """"""""; "Purpose: Parses things"; ""; "Overview: It currently works."; """"""""].
Theorem C12_fh_header_relative_refuted : refutes 3 w_header (K "file-header.atemporal" "currently" 4 13 2 0).
Proof. vm_compute. repeat split; reflexivity. Qed.

(* constant column 1 on an empty first line *)
Definition w_empty_first : lfile := [""; "def f():"; "    return 1"].
Theorem C12_col_const_unclamped_refuted : refutes 4 w_empty_first (K "file-header.missing" "" 0 0 0 0).
Proof. vm_compute. repeat split; reflexivity. Qed.

(* the judge attributes a report at the faithful position to the flag: the property fails for the report, the claimed
   vector explains it, switching the flag off does not, the ideal model satisfies the property *)
Theorem C12_judge_attributes_chain :
  judge loc_actual w_chain [K "unwrap" "" 3 9 1 12] [R "unwrap" "" 2 12 ["let x = foo"] [] true]
  = [[false; true; true; false; true; true; true; true; false]].
Proof. vm_compute. reflexivity. Qed.

(* lazy-ignores numbers lines with str.splitlines(): after a form feed (a page break at the end of a comment line) the
   directive of file line 2 is reported at line 3 - beyond the end of the two-line file; with the file's own lines (flag
   off) it is reported at line 2, column 8 (1-based), where `# noqa` stands *)
Definition w_lazy_text : string :=
  bytes_to_string [35;32;112;97;103;101;12;10; 120;32;61;32;49;32;32;35;32;110;111;113;97;10].   (* "# page" FF LF "x = 1  # noqa" LF *)
Definition w_lazy_find : string -> list hit := table_find [("x = 1  # noqa", [(7, "# noqa")])].
Theorem C12_lazy_splitlines_numbering_refuted :
  lines_of w_lazy_text = [bytes_to_string [35;32;112;97;103;101;12]; "x = 1  # noqa"]
  /\ lazy_scan true w_lazy_find w_lazy_text = [(3, 8, "# noqa")]
  /\ forallb (lrep_ok (lines_of w_lazy_text)) (lazy_scan true w_lazy_find w_lazy_text) = false
  /\ lazy_scan false w_lazy_find w_lazy_text = [(2, 8, "# noqa")]
  /\ forallb (lrep_ok (lines_of w_lazy_text)) (lazy_scan false w_lazy_find w_lazy_text) = true
  /\ only_lf w_lazy_text = false.
Proof. vm_compute. repeat split; reflexivity. Qed.
