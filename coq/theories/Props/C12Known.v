(* Props/C12Known.v — refutations: for each flag claimed `true` in Actual/LocActual.v a concrete file and construct on
   which the faithful builder model violates the property while the ideal model satisfies it (closed by vm_compute).
   The same inputs are in corpus/C12 and are replayed on the implementation on every run. *)
From TL Require Import Lib.Base Lib.GenTypes Model.LocTypes Gen.LocGen Model.Loc Model.LocRun Actual.LocActual.

Definition only (i : nat) : lquirks :=
  Build_lquirks (i =? 0) (i =? 1) (i =? 2) (i =? 3) (i =? 4).
Definition refutes (i : nat) (f : lfile) (c : construct) : Prop :=
  wf_construct f c = true
  /\ loc_ok f c (model_line (only i) c) (model_col (only i) f c) = false
  /\ loc_ok f c (model_line loc_ideal c) (model_col loc_ideal f c) = true.

(* a method chain broken over lines: `.unwrap()` is on line 3, the report goes to line 1 *)
Definition w_chain : lfile := ["fn main() {"; "    let x = foo"; "        .bar()"; "        .unwrap();"; "}"].
Theorem C12_rs_chain_start_refuted : refutes 0 w_chain (K "unwrap" "" 3 9 1 12).
Proof. vm_compute. repeat split; reflexivity. Qed.
Theorem C12_rs_chain_start_clone_refuted : refutes 0 ["for i in 0..3 {"; "    let z = v"; "        .clone();"; "}"] (K "clone" "" 2 9 1 12).
Proof. vm_compute. repeat split; reflexivity. Qed.

(* REGRESSION (fixed in 147bf8d): a decorated TypeScript class that is not exported - the class node starts at the
   decorator, SRP now reports the `class` keyword child.  The old witness meets the specification under the claimed vector. *)
Definition w_deco : lfile := ["@Dec"; "class DataHandler {"; "  a() { return 1; }"; "  b() { return 2; }"; "}"].
Example C12_ts_decorated_class_now_ok :
  loc_ok w_deco (K "srp.ts" "DataHandler" 1 0 0 0) (model_line loc_actual (K "srp.ts" "DataHandler" 1 0 0 0))
         (model_col loc_actual w_deco (K "srp.ts" "DataHandler" 1 0 0 0)) = true
  /\ judge loc_actual w_deco [K "srp.ts" "DataHandler" 1 0 0 0] [R "srp.ts" "DataHandler" 2 0 ["DataHandler"] ["class "] true]
     = [[true; true; true; true; true; true; true; true; true]]
  /\ judge loc_actual w_deco [K "srp.ts" "DataHandler" 1 0 0 0] [R "srp.ts" "DataHandler" 1 0 ["DataHandler"] ["class "] true]
     = [[false; true; false; false; false; false; false; false; false]].
Proof. vm_compute. repeat split; reflexivity. Qed.

(* an arrow function whose declaration is broken after `=`: the quoted name `g` is on line 1, line 2 is reported *)
Definition w_arrow : lfile := ["const g ="; "  (a) => {"; "    if (a) { if (a) { h(); } }"; "  };"].
Theorem C12_ts_arrow_node_start_refuted : refutes 1 w_arrow (K "nesting.ts" "g" 0 6 1 2).
Proof. vm_compute. repeat split; reflexivity. Qed.

(* console / .log( on two lines *)
Definition w_console : lfile := ["function f() {"; "  console"; "    .log(1);"; "}"].
Theorem C12_ts_console_chain_start_refuted : refutes 2 w_console (K "print.ts" "log" 2 5 1 2).
Proof. vm_compute. repeat split; reflexivity. Qed.

(* temporal language numbered inside the header text: the phrase is on file line 5, header line 3 is reported *)
Definition w_header : lfile := ["#!/usr/bin/env python3"; """"""""; "Purpose: Parses things"; ""; "Overview: It currently works."; """"""""].
Theorem C12_fh_header_relative_refuted : refutes 3 w_header (K "file-header.atemporal" "currently" 4 13 2 0).
Proof. vm_compute. repeat split; reflexivity. Qed.

(* constant column 1 on an empty first line *)
Definition w_empty_first : lfile := [""; "def f():"; "    return 1"].
Theorem C12_col_const_unclamped_refuted : refutes 4 w_empty_first (K "file-header.missing" "" 0 0 0 0).
Proof. vm_compute. repeat split; reflexivity. Qed.

(* the judge attributes a report at the faithful position to the flag: the property fails for the report, the claimed
   vector explains it, switching the flag off does not, the ideal model satisfies the property *)
Theorem C12_judge_attributes_chain :
  judge loc_actual w_chain [K "unwrap" "" 3 9 1 12] [R "unwrap" "" 2 12 ["let x = foo"] [] true]
  = [[false; true; true; false; true; true; true; true; false]].
Proof. vm_compute. reflexivity. Qed.
