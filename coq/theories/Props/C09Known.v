(* Props/C09Known.v — refutations (and regression examples for repaired findings): for each flag claimed `true` in Actual/PathLocActual.v a concrete file, location,
   working directory and spelling on which the faithful model differs from the specification, and on which switching
   off that single flag restores the specification (closed by vm_compute).  The same situations are in corpus/C09 and
   are replayed on the implementation (real CLI) on every run. *)
From TL Require Import Lib.Base Lib.GenTypes Model.PathLocTypes Gen.PathLocGen Model.PathLoc Model.PathLocRun Actual.PathLocActual.

Definition sig_of (n : string) : cmdsig := match find_sig n with Some s => s | None => dummy_sig end.
Definition mkenv (root cwd : list string) (rp cp : list string) : env :=
  {| e_root := root; e_cwd := cwd; e_root_pats := rp; e_cwd_pats := cp |}.
Definition mkf (g : gpath) (l : lang) (raw : list nat) : file := {| f_given := g; f_lang := l; f_raw := raw |}.
Definition mks (rel : list string) (l : lang) (raw : list nat) : sfile := {| s_rel := rel; s_lang := l; s_raw := raw |}.

(* 1. (FIXED by b20520c) a project under .../build/ addressed by absolute path used to report nothing.  Regression: with the
      source's exclusion scope (Gen.hard_exclusion_scope) the old witness meets the specification under the claimed vector -
      and even with the old quirk flag switched on. *)
Definition e1 := mkenv ["s"; "build"; "proj"] ["s"; "home"] [] [].
Definition g1 := GP true ["s"; "build"; "proj"; "src"; "mod.py"].
Definition excl_flag_on (q : quirks) : quirks :=
  Build_quirks true (q_ignore_no_reroot q) (q_linter_ignore_full_path q) (q_fp_relative_unchanged q) (q_test_marker_full_path q) (q_rule_parser_cwd q).
Example C09_excl_all_parts_regression :
  file_result pathloc_actual e1 (sig_of "magic-numbers") None (mkf g1 LPy [16]) = spec_file [] (sig_of "magic-numbers") None (mks ["src"; "mod.py"] LPy [16])
  /\ file_result (excl_flag_on pathloc_actual) e1 (sig_of "magic-numbers") None (mkf g1 LPy [16]) = [16]
  /\ spec_file [] (sig_of "magic-numbers") None (mks ["build"; "mod.py"] LPy [16]) = [].
Proof. vm_compute. repeat split; reflexivity. Qed.

(* 2. .thailintignore `src/*`, target `proj` given from the parent directory: the pattern no longer matches *)
Definition e2 := mkenv ["s"; "ok"; "proj"] ["s"; "ok"] ["src/*"] [].
Definition g2 := GP false ["proj"; "src"; "mod.py"].
Theorem C09_ignore_no_reroot_refuted :
  file_result pathloc_actual e2 (sig_of "magic-numbers") None (mkf g2 LPy [16]) <> spec_file ["src/*"] (sig_of "magic-numbers") None (mks ["src"; "mod.py"] LPy [16])
  /\ file_result (with_flag 1 pathloc_actual) e2 (sig_of "magic-numbers") None (mkf g2 LPy [16]) = spec_file ["src/*"] (sig_of "magic-numbers") None (mks ["src"; "mod.py"] LPy [16]).
Proof. vm_compute. split; [discriminate|reflexivity]. Qed.

(* 3a. a project under .../tests/: the Rust linters' default ignore entry "tests/" silences it *)
Definition e3 := mkenv ["s"; "tests"; "proj"] ["s"; "home"] [] [].
Definition g3 := GP true ["s"; "tests"; "proj"; "src"; "lib.rs"].
Theorem C09_linter_ignore_full_path_refuted :
  file_result pathloc_actual e3 (sig_of "unwrap-abuse") None (mkf g3 LRs [2]) <> spec_file [] (sig_of "unwrap-abuse") None (mks ["src"; "lib.rs"] LRs [2])
  /\ file_result (with_flag 2 pathloc_actual) e3 (sig_of "unwrap-abuse") None (mkf g3 LRs [2]) = spec_file [] (sig_of "unwrap-abuse") None (mks ["src"; "lib.rs"] LRs [2]).
Proof. vm_compute. split; [discriminate|reflexivity]. Qed.

(* 3b. (FIXED by 12368d4) file-placement rule for `src`, target `proj` given from the parent directory: the rule used not to apply.
       Regression: the old witness meets the specification, also with the old quirk flag on. *)
Definition e3b := mkenv ["s"; "ok"; "proj"] ["s"; "ok"] [] [].
Definition fp_flag_on (q : quirks) : quirks :=
  Build_quirks (q_excl_all_parts q) (q_ignore_no_reroot q) (q_linter_ignore_full_path q) true (q_test_marker_full_path q) (q_rule_parser_cwd q).
Example C09_fp_relative_unchanged_regression :
  file_result pathloc_actual e3b (sig_of "file-placement") (Some ["src"]) (mkf g2 LPy [1])
  = spec_file [] (sig_of "file-placement") (Some ["src"]) (mks ["src"; "mod.py"] LPy [1])
  /\ file_result (fp_flag_on pathloc_actual) e3b (sig_of "file-placement") (Some ["src"]) (mkf g2 LPy [1]) = [1].
Proof. vm_compute. repeat split; reflexivity. Qed.

(* 3c. ignore pattern `**/mod.py` and a top-level mod.py: Path.match reaches the components above the project *)
Definition e3c := mkenv ["s"; "ok"; "proj"] ["s"; "home"] [] [].
Definition g3c := GP true ["s"; "ok"; "proj"; "mod.py"].
Theorem C09_path_match_above_root_refuted :
  file_result pathloc_actual e3c (sig_of "magic-numbers") (Some ["**/mod.py"]) (mkf g3c LPy [16])
  <> spec_file [] (sig_of "magic-numbers") (Some ["**/mod.py"]) (mks ["mod.py"] LPy [16])
  /\ file_result (with_flag 2 pathloc_actual) e3c (sig_of "magic-numbers") (Some ["**/mod.py"]) (mkf g3c LPy [16])
     = spec_file [] (sig_of "magic-numbers") (Some ["**/mod.py"]) (mks ["mod.py"] LPy [16]).
Proof. vm_compute. split; [discriminate|reflexivity]. Qed.

(* 4a. a project under .../test_data/: every TypeScript file counts as a test file *)
Definition e4 := mkenv ["s"; "test_data"; "proj"] ["s"; "home"] [] [].
Definition g4 := GP true ["s"; "test_data"; "proj"; "src"; "mod.ts"].
Theorem C09_test_marker_full_path_refuted :
  file_result pathloc_actual e4 (sig_of "magic-numbers") None (mkf g4 LTs [3]) <> spec_file [] (sig_of "magic-numbers") None (mks ["src"; "mod.ts"] LTs [3])
  /\ file_result (with_flag 4 pathloc_actual) e4 (sig_of "magic-numbers") None (mkf g4 LTs [3]) = spec_file [] (sig_of "magic-numbers") None (mks ["src"; "mod.ts"] LTs [3]).
Proof. vm_compute. split; [discriminate|reflexivity]. Qed.

(* 4b. tests/mod.ts addressed relative to the project directory: no leading slash, so "/tests/" is not found *)
Definition e4b := mkenv ["s"; "ok"; "proj"] ["s"; "ok"; "proj"] [] [].
Definition g4b := GP false ["tests"; "mod.ts"].
Theorem C09_test_marker_relative_refuted :
  file_result pathloc_actual e4b (sig_of "print-statements") None (mkf g4b LTs [2]) <> spec_file [] (sig_of "print-statements") None (mks ["tests"; "mod.ts"] LTs [2])
  /\ file_result (with_flag 4 pathloc_actual) e4b (sig_of "print-statements") None (mkf g4b LTs [2]) = spec_file [] (sig_of "print-statements") None (mks ["tests"; "mod.ts"] LTs [2]).
Proof. vm_compute. split; [discriminate|reflexivity]. Qed.

(* 5. run from an unrelated directory whose own .thailintignore says `*.py` *)
Definition e5 := mkenv ["s"; "ok"; "proj"] ["s"; "other"] [] ["*.py"].
Definition g5 := GP true ["s"; "ok"; "proj"; "src"; "mod.py"].
Theorem C09_rule_parser_cwd_refuted :
  file_result pathloc_actual e5 (sig_of "magic-numbers") None (mkf g5 LPy [16]) <> spec_file [] (sig_of "magic-numbers") None (mks ["src"; "mod.py"] LPy [16])
  /\ file_result (with_flag 5 pathloc_actual) e5 (sig_of "magic-numbers") None (mkf g5 LPy [16]) = spec_file [] (sig_of "magic-numbers") None (mks ["src"; "mod.py"] LPy [16]).
Proof. vm_compute. split; [discriminate|reflexivity]. Qed.
