(* Props/C17.v — property C17 (Rust safety linters flag exactly the risky calls outside test code).
   Only statements closed by `exact <lemma>` and their Print Assumptions.
   report lists are compared for equality as lists (pre-order of the file, one entry per call). *)
From TL Require Import Lib.Base Lib.GenTypes Model.RustSafetyTypes Model.RustSafetySpec Gen.RustSafetyGen Model.RustSafety
     Model.RustSafetyRun Actual.RustSafetyActual Proofs.RustSafetyWalk Proofs.RustSafetyCtx Proofs.RustSafetyEmit Proofs.RustSafetyMain Proofs.RustSafetyPlain Proofs.RustSafetyAttr Proofs.RustSafetyAttrCode Proofs.RustSafetyHide.

(* 1. unwrap-abuse: for every quirk vector whose relevant flags are off, every configuration and every
      file, the model reports exactly every .unwrap() — and every .expect() when allow_expect is off —
      once, at its position, except inside #[test] functions / #[cfg(test)] modules while allow_in_tests. *)
Theorem C17_unwrap_exact : forall q ls c file,
  context_flags_off q -> q_chain_start_line q = false ->
  unwrap_report q ls c file = spec_unwrap_report ls c file.
Proof. exact unwrap_exact. Qed.
Print Assumptions C17_unwrap_exact.

(* 2. clone-abuse: exactly the .clone() calls in a loop, chained on a clone, or in a let whose source
      identifier does not appear afterwards in the block, each under the first enabled pattern. *)
Theorem C17_clone_exact : forall q ls c file,
  context_flags_off q -> q_chain_start_line q = false -> q_for_header_in_loop q = false ->
  q_clone_first_pattern q = false ->
  clone_report q ls c file = spec_clone_report ls c file.
Proof. exact clone_exact. Qed.
Print Assumptions C17_clone_exact.

(* 3. blocking-async: exactly the documented std::fs / thread::sleep / std::net call paths lexically
      inside an async fn and not inside a spawn_blocking / block_in_place / asyncify call (function, path or
      method form). *)
Theorem C17_blocking_exact : forall q ls c file,
  context_flags_off q -> q_net_bare_type q = false -> q_wrapper_method_form q = false -> q_blocking_msg_line q = false ->
  blocking_report q ls c file = spec_blocking_report ls c file.
Proof. exact blocking_exact. Qed.
Print Assumptions C17_blocking_exact.

(* 4. all three commands together *)
Theorem C17_report_exact : forall q ls c file,
  context_flags_off q -> q_chain_start_line q = false -> q_for_header_in_loop q = false ->
  q_clone_first_pattern q = false -> q_net_bare_type q = false -> q_wrapper_method_form q = false ->
  q_blocking_msg_line q = false ->
  report q ls c file = spec_report ls c file.
Proof. exact report_exact. Qed.
Print Assumptions C17_report_exact.

(* 5. confinement (partial: the full statements are 1-3): the FAITHFUL model — every quirk as claimed for
      the current tree — already equals the specification on every file that passes the executable
      guard: no reportable call inside a macro invocation, attribute lists the code's sibling walk
      judges like the specification, method calls on the line where their receiver starts, no clone in
      a `for` iterator expression, call paths the code's table classifies as documented, no documented blocking
      call inside a method-form wrapper; for clone-abuse additionally all detect_* options on; for blocking-async
      up to the message text (rule ids and positions; every message is the listed finding q_blocking_msg_line).
      (Since the fix commit def5e3f comments among attributes are no longer restricted: statements 1-4 hold
      whatever q_attr_stop_at_comment is.  The NetType::method fix e1a1fd7 was undone by a07d81a.) *)
Theorem C17_unwrap_actual_partial : forall ls c file,
  file_guard LUnwrap rust_actual file = true -> unwrap_report rust_actual ls c file = spec_unwrap_report ls c file.
Proof. exact (unwrap_guarded rust_actual). Qed.
Print Assumptions C17_unwrap_actual_partial.

Theorem C17_clone_actual_partial : forall ls c file,
  clone_switches_on (c_clone c) = true -> file_guard LClone rust_actual file = true ->
  clone_report rust_actual ls c file = spec_clone_report ls c file.
Proof. exact (fun ls c file H => clone_guarded rust_actual ls c file (or_intror H)). Qed.
Print Assumptions C17_clone_actual_partial.

Theorem C17_blocking_actual_partial : forall ls c file,
  file_guard LBlocking (msg_off rust_actual) file = true ->
  map erase_msg (blocking_report rust_actual ls c file) = map erase_msg (spec_blocking_report ls c file).
Proof. exact (fun ls c file H => eq_trans (blocking_msg_erased rust_actual ls c file) (f_equal (map erase_msg) (blocking_guarded (msg_off rust_actual) ls c file H))). Qed.
Print Assumptions C17_blocking_actual_partial.

(* 5b. the same confinement with a syntactic description of the defect classes (Proofs/RustSafetyPlain.v::plain_ok):
      no reportable call inside a macro invocation; "test" / "cfg(test)" occurring in an attribute text exactly
      when the attribute marks a test function / implies cfg(test); method calls on the line where their receiver
      chain starts; no clone in a `for` iterator expression; no NetType::method call path. *)
Theorem C17_unwrap_actual_plain_partial : forall ls c file,
  file_plain LUnwrap file = true -> unwrap_report rust_actual ls c file = spec_unwrap_report ls c file.
Proof. exact unwrap_actual_plain. Qed.
Print Assumptions C17_unwrap_actual_plain_partial.

Theorem C17_clone_actual_plain_partial : forall ls c file,
  clone_switches_on (c_clone c) = true -> file_plain LClone file = true ->
  clone_report rust_actual ls c file = spec_clone_report ls c file.
Proof. exact clone_actual_plain. Qed.
Print Assumptions C17_clone_actual_plain_partial.

Theorem C17_blocking_actual_plain_partial : forall ls c file,
  file_plain LBlocking file = true ->
  map erase_msg (blocking_report rust_actual ls c file) = map erase_msg (spec_blocking_report ls c file).
Proof. exact blocking_actual_plain. Qed.
Print Assumptions C17_blocking_actual_plain_partial.

(* 6. switches: allow_expect removes exactly the expect-call reports; a blocking class's detect_* option
      removes exactly that class's reports; a clone pattern whose detect_* option is off is never reported *)
Theorem C17_switch_allow_expect : forall ls c file,
  spec_unwrap_report ls (with_unwrap c (set_opt "allow_expect" true (c_unwrap c))) file =
  filter (drop_rule "unwrap-abuse.expect-call") (spec_unwrap_report ls (with_unwrap c (set_opt "allow_expect" false (c_unwrap c))) file).
Proof. exact switch_allow_expect. Qed.
Print Assumptions C17_switch_allow_expect.

Theorem C17_switch_blocking : forall ls c file cl, cl = "fs-in-async" \/ cl = "sleep-in-async" \/ cl = "net-in-async" ->
  spec_blocking_report ls (with_blocking c (set_opt (blocking_switch cl) false (c_blocking c))) file =
  filter (drop_rule (blocking_rule cl)) (spec_blocking_report ls (with_blocking c (set_opt (blocking_switch cl) true (c_blocking c))) file).
Proof. exact switch_blocking. Qed.
Print Assumptions C17_switch_blocking.

Theorem C17_switch_clone_off : forall ls c file,
  Forall (fun r => opt (c_clone c) (clone_switch_of_rule (rule_of_rep r)) true = true) (spec_clone_report ls c file).
Proof. exact switch_clone_off. Qed.
Print Assumptions C17_switch_clone_off.

(* 6b. the `enabled` option of each linter (read by _should_analyze in front of the analyzer; the field it reads is the
      documented key with the documented default): switched off, model - under every quirk vector - and specification report nothing *)
Theorem C17_switch_enabled : forall q ls c file,
  (opt (c_unwrap c) "enabled" true = false -> unwrap_report q ls c file = [] /\ spec_unwrap_report ls c file = []) /\
  (opt (c_clone c) "enabled" true = false -> clone_report q ls c file = [] /\ spec_clone_report ls c file = []) /\
  (opt (c_blocking c) "enabled" true = false -> blocking_report q ls c file = [] /\ spec_blocking_report ls c file = []).
Proof. exact switch_enabled. Qed.
Print Assumptions C17_switch_enabled.

Theorem C17_enabled_keys : forall o,
  enabled_of unwrap_cfg o = opt o "enabled" true /\ enabled_of clone_cfg o = opt o "enabled" true /\ enabled_of blocking_cfg o = opt o "enabled" true.
Proof. exact enabled_keys. Qed.
Print Assumptions C17_enabled_keys.

(* 7. the documented option names and defaults are the ones the code reads; the documented tables are the code's *)
Theorem C17_documented_tables :
  blocking_fs_functions = fs_functions /\ blocking_net_types = net_types /\ async_wrapper_functions = wrapper_names /\
  blocking_classes_of ideal = spec_blocking_classes /\
  test_attr_run_types = ["attribute_item"; "line_comment"; "block_comment"] /\ cfg_attr_run_types = test_attr_run_types /\
  map fst unwrap_cfg = ["enabled"; "allow_in_tests"; "allow_expect"] /\
  map fst clone_cfg = ["enabled"; "allow_in_tests"; "detect_clone_in_loop"; "detect_clone_chain"; "detect_unnecessary_clone"] /\
  map fst blocking_cfg = ["enabled"; "allow_in_tests"; "detect_fs_in_async"; "detect_sleep_in_async"; "detect_net_in_async"] /\
  forallb (fun e => String.eqb (fst e) (fst (snd e)) && snd (snd e)) (unwrap_cfg ++ clone_cfg ++ blocking_cfg) = true.
Proof. exact documented_tables. Qed.
Print Assumptions C17_documented_tables.

(* 8. the message quirk of blocking-async changes message texts only *)
Theorem C17_blocking_msg_only : forall q ls c file,
  map erase_msg (blocking_report q ls c file) = map erase_msg (blocking_report (msg_off q) ls c file).
Proof. exact blocking_msg_erased. Qed.
Print Assumptions C17_blocking_msg_only.

(* 9. attributes.  The specification reads an attribute from its text (tokeniser + path + cfg predicate in Kleene logic,
      Model/RustSafetySpec.v); the documented vocabulary and the look-alikes get the listed verdicts *)
Theorem C17_attr_semantics :
  forallb (fun e => Bool.eqb (attr_is_test_fn (fst e)) (fst (snd e)) && Bool.eqb (attr_is_cfg_test (fst e)) (snd (snd e)) && attr_wf (fst e))
          attr_catalogue = true.
Proof. exact attr_catalogue_agrees. Qed.
Print Assumptions C17_attr_semantics.

(* for ALL attribute texts: whatever marks a test function or test-only configuration mentions the identifier `test`, so the
   code's `"test" in text` never misses one (the finding q_test_attr_substring errs towards exemption only): with that
   flag on, every function the specification takes for test code is a test context of the faithful model *)
Theorem C17_test_attr_mentions_test : forall t, attr_marks_test_fn t = true -> contains test_attr_needle t = true.
Proof. exact marks_test_fn_mentions_test. Qed.
Print Assumptions C17_test_attr_mentions_test.

Theorem C17_test_fn_never_missed : forall q pre a nm,
  q_test_attr_substring q = true -> fn_is_test pre = true -> is_test_context q (own_frame (KFn pre a nm)) = true.
Proof. exact test_fn_never_missed. Qed.
Print Assumptions C17_test_fn_never_missed.

(* 9b. confinement of the finding q_test_attr_substring at the level of the reported lists: for EVERY quirk vector, every
      configuration and every file, switching the flag on (sub_on q: the code's `"test" in text`) only removes reports - the list
      is a subsequence of the one reported with the flag off (sub_off q) - for each of the three linters; in particular, with every
      other flag off, what the substring test lets through is a subsequence of what the specification demands *)
Theorem C17_test_attr_flag_only_hides : forall q ls c file,
  subseq (unwrap_report (sub_on q) ls c file) (unwrap_report (sub_off q) ls c file) /\
  subseq (clone_report (sub_on q) ls c file) (clone_report (sub_off q) ls c file) /\
  subseq (blocking_report (sub_on q) ls c file) (blocking_report (sub_off q) ls c file).
Proof. exact test_attr_flag_only_hides. Qed.
Print Assumptions C17_test_attr_flag_only_hides.

Theorem C17_substring_test_reports_within_spec : forall ls c file,
  subseq (report (sub_on ideal) ls c file) (spec_report ls c file).
Proof. exact substring_test_reports_within_spec. Qed.
Print Assumptions C17_substring_test_reports_within_spec.

(* 10. the tree-sitter node-type names the source's helpers look at are the ones the model's parser-oracle side was written for *)
Theorem C17_grammar_names :
  use_ident_type = node_type (KId "") /\ clone_receiver_ident_type = node_type (KId "") /\
  wrapper_ident_type = "identifier" /\ wrapper_scoped_type = "scoped_identifier" /\ call_path_type = "scoped_identifier" /\
  async_modifiers_type = "function_modifiers" /\ async_token_type = "async" /\
  unwrap_field_expr_type = "field_expression" /\ unwrap_field_ident_type = "field_identifier" /\
  clone_field_expr_type = "field_expression" /\ clone_field_ident_type = "field_identifier" /\
  line_context_strips = true.
Proof. exact grammar_names. Qed.
Print Assumptions C17_grammar_names.

(* non-vacuity: a file in the domain, outside every defect class (file_plain) for all three linters, with test and
   non-test code, a loop, an async fn and a wrapper, on which the specification reports calls with their messages *)
Definition ex_file : list node :=
  [N (KFn [SAttr "#[test]"] false "t") [N KStmt [N (KMethod 2 4 2 "unwrap") [N (KId "v0") []]]];
   N (KMod [SAttr "#[cfg(test)]"]) [N (KFn [] false "h") [N (KLet "b") [N (KMethod 6 16 6 "clone") [N (KId "v1") []]]]];
   N (KFn [SAttr "#[inline]"] true "g")
     [N KStmt [N (KLoop LLoop "") [N KStmt [N (KMethod 11 8 11 "clone") [N (KId "v1") []]]]];
      N KStmt [N (KMethod 13 4 13 "expect") [N (KCall 13 4 ["std"; "fs"; "read"]) [N (KId "p") []]; N KLit []]];
      N KStmt [N (KCall 14 4 ["tokio"; "task"; "spawn_blocking"]) [N (KClosure "") [N (KCall 14 34 ["thread"; "sleep"]) [N (KId "d") []]]]]]].
Definition ex_lines : srclines :=
  [(2, "    v0.unwrap();"); (6, "        let b = v1.clone();"); (11, "        v1.clone();");
   (13, "    std::fs::read(p).expect(""msg"");"); (14, "    tokio::task::spawn_blocking(|| thread::sleep(d));")].
Definition defaults : config := {| c_unwrap := []; c_clone := []; c_blocking := [] |}.
Definition strict : config :=
  {| c_unwrap := [("allow_in_tests", false); ("allow_expect", false)]; c_clone := [("allow_in_tests", false)]; c_blocking := [] |}.
Example C17_nonvacuous :
  file_domain ex_file = true /\
  file_plain LUnwrap ex_file = true /\ file_plain LClone ex_file = true /\
  file_guard LBlocking rust_actual ex_file = false /\ file_guard LBlocking (msg_off rust_actual) ex_file = true /\
  spec_report ex_lines defaults ex_file =
    [("clone-abuse.clone-in-loop", 12, 8, ".clone() called inside a loop body may cause performance issues: v1.clone();");
     ("blocking-async.fs-in-async", 14, 4, "Blocking std::fs operation inside async function: std::fs::read")] /\
  map erase_msg (spec_report ex_lines strict ex_file) =
    [("unwrap-abuse.unwrap-call", 3, 4); ("unwrap-abuse.expect-call", 14, 4);
     ("clone-abuse.unnecessary-clone", 7, 16); ("clone-abuse.clone-in-loop", 12, 8); ("blocking-async.fs-in-async", 14, 4)].
Proof. vm_compute. repeat split; reflexivity. Qed.

(* regression: the witness of the finding repaired in /repo (def5e3f) now meets the specification under the
   faithful model *)
Definition w_attr_stop_at_comment : list node := [N (KFn [SAttr "#[test]"; SComment] false "f") [N KStmt [N (KMethod 3 4 3 "unwrap") [N (KId "v0") []]]]].
Definition l_attr_stop_at_comment : srclines := [(3, "    v0.unwrap();")].
Example C17_fixed_witness_passes :
  report rust_actual l_attr_stop_at_comment defaults w_attr_stop_at_comment = spec_report l_attr_stop_at_comment defaults w_attr_stop_at_comment /\
  spec_report l_attr_stop_at_comment defaults w_attr_stop_at_comment = [].
Proof. vm_compute. repeat split; reflexivity. Qed.
