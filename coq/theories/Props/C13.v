(* Props/C13.v — property C13 (meaning-preserving edits leave the findings unchanged up to line shift):
   the PROVED part, i.e. the layout-sensitive text-level steps the property's anchors name.  What the parsers do with
   blank lines, comments, byte-order marks and renamed identifiers is validated on the implementation, not proved.
   Only statements closed by `exact <lemma>` and their Print Assumptions. *)
From TL Require Import Lib.Base Lib.GenTypes Model.PyStr Model.Edit.
From TL Require Import Gen.IgnoreGen Model.Ignore Model.IgnoreSpec.
From TL Require Import Model.DryBase Model.DryPipe Gen.DryGen Model.Dry.
From TL Require Import Model.SrpTypes Gen.SrpGen Model.SrpSpec Model.Srp.
From TL Require Import Gen.EditGen Model.EditRun Actual.SrpActual Actual.EditActual.
From TL Require Import Proofs.EditList Proofs.EditIgnore Proofs.EditLines Proofs.EditDry Proofs.EditSrp Proofs.EditFacts Proofs.EditMain Proofs.EditFixed Proofs.EditDryB.
From TL Require Import Model.DryFilter Model.EditFilter Proofs.EditFilterP.

(* ------------------------------------------------------------------ 1. suppression decisions (Model/Ignore.v) *)
(* For EVERY quirk vector of the shared suppression parser, every file, every violation line and rule: inserting a
   line that does not contain the word "ignore" - a blank line, a directive-free comment, unrelated code - at any
   admissible position moves the decision with the line.  Admissible: the new line does not push a file-level
   directive out of the documented header window and does not separate a next-line directive from its target. *)
Theorem C13_suppression_insert : forall q lines k x v r, EditIgnore.ins_ok q k x lines = true ->
  should_ignore_lines q (ins k x lines) (shift_ins k v) r = should_ignore_lines q lines v r.
Proof. exact EditIgnore.should_ignore_ins. Qed.
Print Assumptions C13_suppression_insert.

(* replacing the text of a directive-free line by directive-free text (trailing white space, re-indentation, a
   trailing CR, a byte-order mark in front of line 1) changes no decision anywhere in the file *)
Theorem C13_suppression_replace : forall q lines k f v r,
  match nth_error lines k with Some l => kfree l = true /\ kfree (f l) = true | None => True end ->
  should_ignore_lines q (upd k f lines) v r = should_ignore_lines q lines v r.
Proof. exact EditIgnore.should_ignore_replace. Qed.
Print Assumptions C13_suppression_replace.

(* every sequence of edits of the algebra, each admissible in the state it is applied to *)
Theorem C13_suppression_edits : forall q r es lines v, EditIgnore.ignore_ok_seq q es lines = true ->
  should_ignore_lines q (apply_all es lines) (shift_all es v) r = should_ignore_lines q lines v r.
Proof. exact EditIgnore.should_ignore_edits. Qed.
Print Assumptions C13_suppression_edits.

(* the same on the text of the file (IgnoreDirectiveParser.should_ignore_violation(violation, content)) *)
Theorem C13_suppression_content : forall q repo es ls v r,
  EditIgnore.clean ls = true -> EditIgnore.clean (apply_all es ls) = true -> EditIgnore.ignore_ok_seq q es ls = true ->
  should_ignore q repo (join_lines (apply_all es ls)) (shift_all es v) r = should_ignore q repo (join_lines ls) v r.
Proof. exact EditIgnore.should_ignore_content_edits. Qed.
Print Assumptions C13_suppression_content.

(* with the parser's line-numbering defect off, form feeds and the other str.splitlines-only boundaries may occur *)
Theorem C13_suppression_content_any_whitespace : forall q repo es ls v r, q_splitlines_unicode q = false ->
  forallb no_newline ls = true -> forallb no_newline (apply_all es ls) = true -> EditIgnore.ignore_ok_seq q es ls = true ->
  should_ignore q repo (join_lines (apply_all es ls)) (shift_all es v) r = should_ignore q repo (join_lines ls) v r.
Proof. exact EditIgnore.should_ignore_content_edits_nl. Qed.
Print Assumptions C13_suppression_content_any_whitespace.

(* the two side conditions are necessary, under every quirk vector: they are what the documentation ties to a position *)
Theorem C13_next_line_adjacency_needed : forall q,
  let f := ["# thailint: ignore-next-line[magic-numbers]"; "x = 4242"] in
  should_ignore_lines q f 2 EditIgnore.py_magic = true /\
  should_ignore_lines q (ins 1 "" f) (shift_ins 1 2) EditIgnore.py_magic = false.
Proof. exact EditIgnore.next_line_adjacency_needed. Qed.
Print Assumptions C13_next_line_adjacency_needed.

Theorem C13_header_window_needed : forall q,
  let f := ["a";"b";"c";"d";"e";"f";"g";"h";"i"; "# thailint: ignore-file[magic-numbers]"; "x = 4242"] in
  should_ignore_lines q f 11 EditIgnore.py_magic = true /\
  should_ignore_lines q (ins 0 "" f) (shift_ins 0 11) EditIgnore.py_magic = false.
Proof. exact EditIgnore.header_window_needed. Qed.
Print Assumptions C13_header_window_needed.

(* ------------------------------------------------------------------ 2. the DRY tokenizer (Model/DryPipe.v, Model/Dry.v) *)
(* for any leaf parameters: a line that yields no token moves every token by the shift and changes nothing else *)
Theorem C13_dry_tokens_insert : forall P, p_first_line P = 1 -> forall x ls k,
  EditDry.yields_no_token P x = true -> k <= List.length ls ->
  DryPipe.tokenize P (ins k x ls) = map (EditDry.tok_shift (shift_ins k)) (DryPipe.tokenize P ls).
Proof. exact EditDry.tokenize_ins. Qed.
Print Assumptions C13_dry_tokens_insert.

(* hence every window and every stored row (snippet = hash input, start line, end line), for the parameters read from
   the source under every quirk vector *)
Theorem C13_dry_rows_insert : forall q l W fi x ls k,
  EditDry.yields_no_token (model_aparams q l) x = true -> k <= List.length ls ->
  file_rows (model_aparams q l) W fi (ins k x ls)
  = map (EditDry.row_shift (shift_ins k)) (file_rows (model_aparams q l) W fi ls).
Proof. exact EditDry.dry_rows_insert. Qed.
Print Assumptions C13_dry_rows_insert.

Theorem C13_dry_blank_no_token : forall q l ws, EditDry.ws_only ws = true ->
  EditDry.yields_no_token (model_aparams q l) {| a_doc := false; a_indent := ws; a_code := ""; a_cmt := CNone |} = true.
Proof. exact EditDry.blank_no_token. Qed.
Print Assumptions C13_dry_blank_no_token.

Theorem C13_dry_comment_no_token : forall q l ws t,
  EditDry.yields_no_token (model_aparams q l) {| a_doc := false; a_indent := ws; a_code := ""; a_cmt := CLine t |} = true.
Proof. exact EditDry.comment_no_token. Qed.
Print Assumptions C13_dry_comment_no_token.

(* on the text of the line, as the code sees it (white space, comment marker, anything) *)
Theorem C13_dry_raw_comment_no_token : forall q l ws t, q_strip_in_code q = true -> EditDry.ws_only ws = true ->
  EditDry.yields_no_token (model_aparams q l) (EditDry.raw_aline false (ws ++ line_marker l ++ t)) = true.
Proof. exact EditDry.raw_comment_no_token. Qed.
Print Assumptions C13_dry_raw_comment_no_token.

(* code appended after the end: the tokens of the existing lines are a prefix of the new token list *)
Theorem C13_dry_append : forall P, p_first_line P = 1 -> forall ls extra, exists more, DryPipe.tokenize P (ls ++ extra) = DryPipe.tokenize P ls ++ more.
Proof. exact EditDry.tokenize_append. Qed.
Print Assumptions C13_dry_append.

(* normalize_line = " ".join(_strip_comments(line).split()) with the markers read from the source *)
Theorem C13_normalize_trailing_ws : forall s w, EditDry.ws_only w = true ->
  EditDry.normalize_line (s ++ w) = EditDry.normalize_line s.
Proof. exact EditDry.normalize_trailing_ws. Qed.
Print Assumptions C13_normalize_trailing_ws.

Theorem C13_normalize_cr : forall s, EditDry.normalize_line (s ++ cr) = EditDry.normalize_line s.
Proof. exact EditDry.normalize_cr. Qed.
Print Assumptions C13_normalize_cr.

Theorem C13_normalize_indent : forall w1 w2 b, EditDry.ws_only w1 = true -> EditDry.ws_only w2 = true ->
  EditDry.normalize_line (w1 ++ b) = EditDry.normalize_line (w2 ++ b).
Proof. exact EditDry.normalize_indent. Qed.
Print Assumptions C13_normalize_indent.

Theorem C13_normalize_set_indent : forall w s, all_of is_blank_char w = true ->
  EditDry.normalize_line (set_indent w s) = EditDry.normalize_line s.
Proof. exact EditDry.normalize_set_indent. Qed.
Print Assumptions C13_normalize_set_indent.

(* trailing white space / CRLF / re-indentation of any set of lines: the same tokens, windows and rows (no shift) *)
Theorem C13_dry_rows_ws_variant : forall q l W fi docs ls ls', q_strip_in_code q = true ->
  Forall2 EditDry.ws_variant ls ls' -> List.length docs = List.length ls ->
  file_rows (model_aparams q l) W fi (map (fun p => EditDry.raw_aline (fst p) (snd p)) (combine docs ls))
  = file_rows (model_aparams q l) W fi (map (fun p => EditDry.raw_aline (fst p) (snd p)) (combine docs ls')).
Proof. exact EditDry.dry_rows_ws_variant. Qed.
Print Assumptions C13_dry_rows_ws_variant.

(* ... and therefore the same DRY report for the whole project, under every quirk vector that strips comments textually *)
Theorem C13_dry_report_ws_variant : forall q W k files files', q_strip_in_code q = true ->
  Forall2 (fun f f' => exists l docs ls ls', f = EditDry.raw_file l docs ls /\ f' = EditDry.raw_file l docs ls' /\
                       Forall2 EditDry.ws_variant ls ls' /\ List.length docs = List.length ls) files files' ->
  dry_model q W k files = dry_model q W k files'.
Proof. exact EditDry.dry_report_ws_variant. Qed.
Print Assumptions C13_dry_report_ws_variant.

(* --- stage B (grouping by snippet, overlap removal of blocks, violation building, overlap filter of violations) --- *)
(* for ANY strictly monotone renumbering F of the lines of each file and every quirk vector: the report of the renumbered
   rows is the renumbered report, where a violation keeps its first line, its LAST line (line + count - 1), its occurrence
   count and its references, all moved by F *)
Theorem C13_dry_report_renumbered : forall F, (forall f a b, a < b <-> F f a < F f b) -> forall q k rows,
  Forall EditDryB.row_wf rows ->
  DryPipe.report (model_bparams q) k (map (EditDryB.rshift F) rows) = map (EditDryB.vshift F) (DryPipe.report (model_bparams q) k rows).
Proof. exact EditDryB.report_shift. Qed.
Print Assumptions C13_dry_report_renumbered.

(* the whole pipeline: a line that yields no token (blank, comment-only, docstring) inserted before index k of file j of a
   project - the DRY report of the project is the old report renumbered, for every quirk vector, window size and threshold *)
Theorem C13_dry_report_insert : forall q W kk k x files j f, nth_error files j = Some f ->
  EditDry.yields_no_token (model_aparams q (DryPipe.f_lang f)) x = true -> k <= List.length (DryPipe.f_lines f) ->
  dry_model q W kk (EditDryB.ins_file j k x files)
  = map (EditDryB.vshift (EditDryB.ins_renumber j k)) (dry_model q W kk files).
Proof. exact EditDryB.dry_model_insert. Qed.
Print Assumptions C13_dry_report_insert.

(* what the renumbering does to one violation: everything but the size only moves ... *)
Theorem C13_dry_rest_moves : forall fi k v,
  v_file (EditDryB.vshift (EditDryB.ins_renumber fi k) v) = v_file v /\
  v_line (EditDryB.vshift (EditDryB.ins_renumber fi k) v) = EditDryB.ins_renumber fi k (v_file v) (v_line v) /\
  v_col (EditDryB.vshift (EditDryB.ins_renumber fi k) v) = v_col v /\
  v_occ (EditDryB.vshift (EditDryB.ins_renumber fi k) v) = v_occ v /\
  v_refs (EditDryB.vshift (EditDryB.ins_renumber fi k) v) = map (EditDryB.loc_shift (EditDryB.ins_renumber fi k)) (v_refs v).
Proof. exact EditDryB.vshift_rest. Qed.
Print Assumptions C13_dry_rest_moves.

(* ... and the size N of `Duplicate code (N lines` grows by one exactly when the new line falls strictly inside the block
   (this is the listed finding dry.duplicate-code|insert_*|span-count; it is the only deviation) *)
Theorem C13_dry_count_stretch : forall fi k v, 1 <= v_count v ->
  v_count (EditDryB.vshift (EditDryB.ins_renumber fi k) v)
  = v_count v + (if (v_file v =? fi) && (v_line v <=? k) && (k <? v_line v + v_count v - 1) then 1 else 0).
Proof. exact EditDryB.vshift_count. Qed.
Print Assumptions C13_dry_count_stretch.

(* rows computed from files are well formed (first line <= last line), so the hypothesis of the first theorem is met *)
Theorem C13_dry_rows_wf : forall q W files i, Forall EditDryB.row_wf (rows_from (model_aparams q) W i files).
Proof. exact EditDryB.rows_from_wf. Qed.
Print Assumptions C13_dry_rows_wf.

Theorem C13_dry_insert_example :
  let body := map (EditDry.raw_aline false) ["x = norm(a)"; "y = norm(b)"; "z = join(x, y)"] in
  let f1 := {| DryPipe.f_lang := DPy; DryPipe.f_lines := EditDry.raw_aline false "def load(a, b):" :: body |} in
  let f2 := {| DryPipe.f_lang := DPy; DryPipe.f_lines := EditDry.raw_aline false "def save(a, b):" :: body |} in
  let blank := EditDry.raw_aline false "" in
  map (fun v => (v_file v, v_line v, v_count v)) (dry_model EditDryB.all_flags_on 3 2 [f1; f2]) = [(0, 2, 3); (1, 2, 3)] /\
  map (fun v => (v_file v, v_line v, v_count v)) (dry_model EditDryB.all_flags_on 3 2 (EditDryB.ins_file 0 2 blank [f1; f2]))
  = [(0, 2, 4); (1, 2, 3)].
Proof. exact EditDryB.dry_model_insert_example. Qed.
Print Assumptions C13_dry_insert_example.

(* --- the block filters (Model/EditFilter.v: KeywordArgumentFilter, ImportGroupFilter, LoggerCallFilter, ExceptionReraiseFilter and
   the registry's `any`), which decide on the RAW lines start..end of a candidate block whether the block is stored at all --- *)
(* the lines of the block after a line was inserted before index k of the file: unchanged, or the new line strictly inside *)
Theorem C13_dry_filter_slice : forall raw s e k x, 1 <= s -> s <= e -> e <= List.length raw ->
  slice_lines (ins k x raw) (shift_ins k s) (shift_ins k e)
  = if (s <=? k) && (k <? e) then ins (k - (s - 1)) x (slice_lines raw s e) else slice_lines raw s e.
Proof. exact EditFilterP.slice_ins. Qed.
Print Assumptions C13_dry_filter_slice.

(* with the two line-counting defects off (for a blank line: the keyword-argument one alone), for any matcher of the logger
   pattern, every file, every block that starts and ends on code lines and every position k: a blank or comment-only line
   changes the decision of NO filter (Call spans renumbered: parser oracle) *)
Theorem C13_dry_filters_insert : forall q marker lm raw calls s e k x,
  f_kwarg_raw_lines q = false -> (f_reraise_counts_comments q = false \/ EditFilterP.blank x = true) ->
  skippable marker x = true -> block_ok marker raw s e = true ->
  decisions q marker lm (ins k x raw) (calls_ins k calls) (shift_ins k s) (shift_ins k e) = decisions q marker lm raw calls s e.
Proof. exact EditFilterP.decisions_insert. Qed.
Print Assumptions C13_dry_filters_insert.

Theorem C13_dry_registry_insert : forall q marker lm raw calls s e k x,
  f_kwarg_raw_lines q = false -> (f_reraise_counts_comments q = false \/ EditFilterP.blank x = true) ->
  skippable marker x = true -> block_ok marker raw s e = true ->
  registry q marker lm (ins k x raw) (calls_ins k calls) (shift_ins k s) (shift_ins k e) = registry q marker lm raw calls s e.
Proof. exact EditFilterP.registry_insert. Qed.
Print Assumptions C13_dry_registry_insert.

(* confinement of the defects, for EVERY quirk vector: (a) a new line of ANY kind outside the block changes nothing; (b) the import
   and the logger filter never see a new line inside a block that starts and ends on code lines; (c) a blank line never disturbs
   the except / raise filter - so only the keyword-argument share (blank and comment) and the except / raise pair (comment) deviate *)
Theorem C13_dry_filters_insert_outside : forall q marker lm raw calls s e k x,
  1 <= s -> s <= e -> e <= List.length raw -> (k < s \/ e <= k) ->
  decisions q marker lm (ins k x raw) (calls_ins k calls) (shift_ins k s) (shift_ins k e) = decisions q marker lm raw calls s e.
Proof. exact EditFilterP.decisions_insert_outside. Qed.
Print Assumptions C13_dry_filters_insert_outside.

Theorem C13_dry_import_logger_insert : forall marker lm ls j x, 2 <= List.length ls -> ends_code marker ls = true ->
  import_on (ins j x ls) = import_on ls /\ logger_on lm (ins j x ls) = logger_on lm ls.
Proof. exact EditFilterP.import_logger_insert. Qed.
Print Assumptions C13_dry_import_logger_insert.

Theorem C13_dry_reraise_blank_insert : forall q marker ls j x, EditFilterP.blank x = true ->
  reraise_on q marker (ins j x ls) = reraise_on q marker ls.
Proof. exact EditFilterP.reraise_blank_insert. Qed.
Print Assumptions C13_dry_reraise_blank_insert.

(* trailing white space / CR / re-indentation of ANY lines (str.strip() of every line unchanged): no decision changes once the
   pattern's `.+` may not be satisfied by trailing white space; re-indentation alone changes none under EVERY vector *)
Theorem C13_dry_filters_ws_variant : forall q marker lm raw raw' calls s e, f_kwarg_trailing_ws q = false ->
  Forall2 EditFilterP.ws_var raw raw' -> decisions q marker lm raw calls s e = decisions q marker lm raw' calls s e.
Proof. exact EditFilterP.decisions_ws_variant. Qed.
Print Assumptions C13_dry_filters_ws_variant.

Theorem C13_dry_filters_reindent : forall q marker lm raw raw' calls s e, Forall2 EditFilterP.reindented raw raw' ->
  decisions q marker lm raw calls s e = decisions q marker lm raw' calls s e.
Proof. exact EditFilterP.decisions_reindent. Qed.
Print Assumptions C13_dry_filters_reindent.

(* the literals the statements rest on, and the tie of the keyword-argument filter to C03's model of it *)
Theorem C13_dry_filter_literals :
  flt_logger_cmp = CEq /\ flt_logger_count = 1 /\ flt_reraise_cmp = CNe /\ flt_reraise_count = 2 /\
  flt_registry = ["keyword_argument_filter"; "import_group_filter"; "logger_call_filter"; "exception_reraise_filter"] /\
  (forall a b s e, dry_call_contains a b s e = call_contains_ref a b s e).
Proof. exact EditFilterP.gen_filter_facts. Qed.
Print Assumptions C13_dry_filter_literals.

Theorem C13_dry_kwarg_filter_is_c03 : forall raw calls s e,
  filter_on fq_actual "#" logger_match (slice_lines raw s e) calls s e "keyword_argument_filter" = model_kwarg_filter raw calls s e.
Proof. exact EditFilterP.kwarg_is_c03. Qed.
Print Assumptions C13_dry_kwarg_filter_is_c03.

Example C13_dry_filters_example : block_ok "#" EditFilterP.kw_file 2 5 = true /\ skippable "#" "    # the defaults" = true /\
  decisions EditFilterP.fq_ideal "#" logger_match EditFilterP.kw_file [(1, 6)] 2 5 = [true; false; false; false].
Proof. exact EditFilterP.block_ok_example. Qed.

(* the reported line count end - start + 1 is unchanged by insertions outside the block *)
Theorem C13_dry_span_outside : forall s e k, (k < s \/ e <= k) ->
  dry_line_count (shift_ins k s) (shift_ins k e) = dry_line_count s e.
Proof. exact EditDry.span_count_outside. Qed.
Print Assumptions C13_dry_span_outside.

(* ------------------------------------------------------------------ 3. lines of code of a class (Model/Srp.v) *)
Theorem C13_py_loc_insert : forall q lines c k x, py_line_counts q x = false -> k <= List.length lines ->
  1 <= c_line c -> 1 <= c_len c -> c_deco c = 0 ->
  py_count_loc q (ins k x lines) (EditSrp.shift_cls k c) = py_count_loc q lines c.
Proof. exact EditSrp.py_loc_insert. Qed.
Print Assumptions C13_py_loc_insert.

Theorem C13_rs_loc_insert : forall q lines start len k x, rs_line_counts q x = false -> k <= List.length lines ->
  1 <= start -> 1 <= len ->
  rs_node_loc q (ins k x lines) (shift_ins k start) (EditSrp.len_shift k start len) = rs_node_loc q lines start len.
Proof. exact EditSrp.rs_loc_insert. Qed.
Print Assumptions C13_rs_loc_insert.

(* on the raw text of the line, as the code sees it: a white-space-only line and a line `white space, marker, anything` *)
Theorem C13_blank_and_comment_not_counted : forall q k w t, EditSrp.ws_all w = true ->
  py_line_counts q {| l_kind := LBlank; l_raw := w |} = false /\
  py_line_counts q {| l_kind := LComment; l_raw := (w ++ "#" ++ t)%string |} = false /\
  rs_line_counts q {| l_kind := k; l_raw := w |} = false /\
  rs_line_counts q {| l_kind := k; l_raw := (w ++ "//" ++ t)%string |} = false.
Proof.
  exact (fun q k w t H => conj (EditSrp.py_blank_not_counted q w H) (conj (EditSrp.py_comment_not_counted q w t H)
                    (conj (EditSrp.rs_blank_not_counted q k w H) (EditSrp.rs_comment_not_counted q k w t H)))).
Qed.
Print Assumptions C13_blank_and_comment_not_counted.

(* str.strip() of the line is all the metric looks at: trailing white space (a CR included) and the indentation do not matter *)
Theorem C13_strip_trailing_ws : forall s w, EditSrp.ws_all w = true -> SrpTypes.strip (s ++ w) = SrpTypes.strip s.
Proof. exact EditSrp.strip_trailing_ws. Qed.
Print Assumptions C13_strip_trailing_ws.

Theorem C13_strip_leading_ws : forall w s, EditSrp.ws_all w = true -> SrpTypes.strip (w ++ s) = SrpTypes.strip s.
Proof. exact EditSrp.strip_leading_ws. Qed.
Print Assumptions C13_strip_leading_ws.

(* hence trailing white space / CRLF / re-indentation of ANY lines of the file leave every class size unchanged, in all three
   languages and for every quirk vector (this is what the seeded change `count_loc counts white-space-only lines` breaks) *)
Theorem C13_loc_ws_variant : forall q ls ls' c start len, Forall2 EditSrp.same_text ls ls' ->
  py_count_loc q ls c = py_count_loc q ls' c /\ ts_count_loc q ls c = ts_count_loc q ls' c /\
  rs_node_loc q ls start len = rs_node_loc q ls' start len.
Proof.
  exact (fun q ls ls' c start len F => conj (EditSrp.py_loc_same_text q ls ls' c F)
           (conj (EditSrp.ts_loc_same_text q ls ls' c F) (EditSrp.rs_loc_same_text q ls ls' start len F))).
Qed.
Print Assumptions C13_loc_ws_variant.

Theorem C13_same_text_variants : forall k s w w' body, EditSrp.ws_all w = true -> EditSrp.ws_all w' = true ->
  EditSrp.same_text {| l_kind := k; l_raw := s |} {| l_kind := k; l_raw := (s ++ w)%string |} /\
  EditSrp.same_text {| l_kind := k; l_raw := (w ++ body)%string |} {| l_kind := k; l_raw := (w' ++ body)%string |}.
Proof. exact (fun k s w w' body H H' => conj (EditSrp.same_text_trailing k s w H) (EditSrp.same_text_indent k w w' body H H')). Qed.
Print Assumptions C13_same_text_variants.

(* TypeScript / JavaScript: the line-count rule is read from the source (Gen.SrpGen.ts_loc_mode); since fix c90fc92 it filters
   the lines of the class node, so the metric is invariant under every quirk vector, decorators included (the former guard
   q_ts_loc_raw_span = false is gone with the flag) *)
Theorem C13_ts_loc_insert : forall q lines c k x, ts_line_counts q "//" x = false -> k <= List.length lines ->
  1 <= EditSrp.node_start c -> c_deco c <= c_line c -> 1 <= c_len c ->
  ts_count_loc q (ins k x lines) (EditSrp.shift_cls k c) = ts_count_loc q lines c.
Proof. exact EditSrp.ts_loc_insert. Qed.
Print Assumptions C13_ts_loc_insert.

Theorem C13_ts_blank_and_comment_not_counted : forall q k w t, EditSrp.ws_all w = true ->
  ts_line_counts q "//" {| l_kind := k; l_raw := w |} = false /\
  ts_line_counts q "//" {| l_kind := k; l_raw := (w ++ "//" ++ t)%string |} = false.
Proof. exact (fun q k w t H => conj (EditSrp.ts_blank_not_counted q k w H) (EditSrp.ts_comment_not_counted q k w t H)). Qed.
Print Assumptions C13_ts_blank_and_comment_not_counted.

Theorem C13_py_loc_append : forall q lines extra c, c_line c + c_len c - 1 <= List.length lines ->
  py_count_loc q (lines ++ extra) c = py_count_loc q lines c.
Proof. exact EditSrp.py_loc_append. Qed.
Print Assumptions C13_py_loc_append.

Theorem C13_rs_loc_append : forall q lines extra start len, 1 <= start -> 1 <= len -> start + len - 1 <= List.length lines ->
  rs_node_loc q (lines ++ extra) start len = rs_node_loc q lines start len.
Proof. exact EditSrp.rs_loc_append. Qed.
Print Assumptions C13_rs_loc_append.

(* ------------------------------------------------------------------ 4. line terminators *)
(* FileLintContext.file_lines = content.split("\n"): under CRLF the same number of lines, each with a trailing CR
   (white space for normalize_line and str.strip: sections 2 and 3) *)
Theorem C13_file_lines_crlf : forall content,
  pieces (to_crlf content) = map_init (fun l => (l ++ cr)%string) (pieces content).
Proof. exact EditLines.file_lines_crlf. Qed.
Print Assumptions C13_file_lines_crlf.

Theorem C13_file_lines_crlf_count : forall content, List.length (pieces (to_crlf content)) = List.length (pieces content).
Proof. exact EditLines.file_lines_crlf_count. Qed.
Print Assumptions C13_file_lines_crlf_count.

(* str.splitlines (suppression parser) and the analysers' numbering see exactly the lines of the LF text *)
Theorem C13_splitlines_crlf : forall content, EditLines.no_cr content = true -> splitlines (to_crlf content) = splitlines content.
Proof. exact EditLines.splitlines_to_crlf. Qed.
Print Assumptions C13_splitlines_crlf.

Theorem C13_split_newlines_crlf : forall content, EditLines.no_cr content = true ->
  split_newlines (to_crlf content) = split_newlines content.
Proof. exact EditLines.split_newlines_to_crlf. Qed.
Print Assumptions C13_split_newlines_crlf.

(* hence the suppression decision on the CRLF text is the decision on the LF text, for every quirk vector *)
Theorem C13_suppression_crlf : forall q repo content v r, EditLines.no_cr content = true ->
  should_ignore q repo (to_crlf content) v r = should_ignore q repo content v r.
Proof. exact EditMain.should_ignore_crlf. Qed.
Print Assumptions C13_suppression_crlf.

(* ------------------------------------------------------------------ 4b. byte-order mark *)
(* the codec is read from the source; with a BOM-stripping codec (the claimed vector since fix bbc2cf4) a mark in front of a
   file is invisible to every text-level step of the model *)
Theorem C13_bom_invisible : forall q l r, e_bom_kept q = false -> prefixb bom l = false ->
  seen q (apply AddBOM (l :: r)) = seen q (l :: r).
Proof. exact EditFixed.bom_invisible. Qed.
Print Assumptions C13_bom_invisible.

Theorem C13_actual_strips_bom : e_bom_kept edit_actual = false.
Proof. exact EditFixed.actual_bom_off. Qed.
Print Assumptions C13_actual_strips_bom.

(* regressions: the witnesses of the repaired findings q_ts_loc_raw_span and q_bom_kept now meet the specification under the
   claimed vector *)
Theorem C13_regression_ts_loc :
  let lines := [{| l_kind := LCode; l_raw := "class A {" |}; {| l_kind := LCode; l_raw := "  x = 1;" |}; {| l_kind := LCode; l_raw := "}" |}] in
  let c := {| c_name := "A"; c_kind := CPlain; c_line := 1; c_col := 0; c_deco := 0; c_len := 3; c_members := [] |} in
  ts_count_loc srp_actual (ins 1 {| l_kind := LBlank; l_raw := "   " |} lines) (EditSrp.shift_cls 1 c)
  = ts_count_loc srp_actual lines c.
Proof. exact EditSrp.ts_loc_old_witness_invariant. Qed.
Print Assumptions C13_regression_ts_loc.

Theorem C13_regression_bom_tokens :
  let f := ["import os"; "x = 1"; "y = 2"] in
  tokens_model edit_actual 0 [] (apply AddBOM f) = tokens_model edit_actual 0 [] f.
Proof. exact EditFixed.bom_tokens_old_witness. Qed.
Print Assumptions C13_regression_bom_tokens.

Theorem C13_regression_bom_first_line_directive :
  let f := ["// thailint: ignore-start nesting"; "function g(x) {"; "// thailint: ignore-end"] in
  ignore_model edit_actual (apply AddBOM f) [(2, "nesting.excessive-depth")] = [true] /\
  ignore_model edit_actual f [(2, "nesting.excessive-depth")] = [true].
Proof. exact EditFixed.bom_first_line_directive_old_witness. Qed.
Print Assumptions C13_regression_bom_first_line_directive.

(* ------------------------------------------------------------------ 5. sequences, literals, non-vacuity *)
(* any observation that every admissible edit preserves up to the shift is preserved by every admissible sequence *)
Theorem C13_sequences : forall (R : Type) (F : list string -> nat -> R) (good : edit -> list string -> Prop),
  (forall e ls v, good e ls -> F (apply e ls) (shift e v) = F ls v) ->
  forall es ls v, EditList.good_seq good es ls -> F (apply_all es ls) (shift_all es v) = F ls v.
Proof. exact (@EditList.invariant_seq). Qed.
Print Assumptions C13_sequences.

(* the line separators of every text-level step are "\n" (the codec and the suppression parser's splitting method, which
   carry two of the listed defects, are stated in Props/C13Known.v) *)
Theorem C13_source_literals :
  file_lines_sep = nl /\
  loc_line_seps = [nl; nl] /\ tokenize_line_seps = [nl; nl; nl] /\ block_filter_line_seps = [nl; nl; nl; nl] /\
  loc_strip_calls = ["count_loc"; "_node_loc"] /\ dry_block_window = 10.
Proof. exact EditFacts.gen_edit_facts. Qed.
Print Assumptions C13_source_literals.

Theorem C13_file_lines_is_pieces : forall content, split_on file_lines_sep content = pieces content.
Proof. exact EditFacts.file_lines_is_pieces. Qed.
Print Assumptions C13_file_lines_is_pieces.

(* non-vacuity: an admissible insertion inside a suppression block above a same-line directive, every flag on *)
Example C13_insert_admissible :
  EditIgnore.ins_ok EditIgnore.all_on 1 "    # a note"
    ["# thailint: ignore-start magic-numbers"; "x = 4242"; "# thailint: ignore-end"; "y = 17  # thailint: ignore[magic-numbers]"] = true.
Proof. exact EditIgnore.ins_ok_example. Qed.
