(* Props/C04Known.v — refutations: for each finding still listed as known (flags q_splitlines_unicode, q_start_rules_from_code and
   each deviating linter pipeline) a concrete abstract file of the domain on which the faithful model differs from the
   specification.  (The witnesses of the five findings repaired by the fix: commits are regression theorems now:
   Proofs/IgnoreRegress.v, Props/C04.v section 9.)
   The same files are in corpus/C04 and are replayed on the implementation on every run. *)
From TL Require Import Lib.Base Lib.GenTypes Gen.IgnoreGen Model.PyStr Model.Ignore Model.IgnoreSpec Model.IgnoreRun Actual.IgnoreActual.

Definition refutes (a : list aline) (v : nat) (r : string) : Prop :=
  file_ok a = true /\ target_ok a v = true /\ should_ignore ignore_actual false (render a) v r <> spec false a v r.

(* a form feed shifts the parser's line numbers: the directive on line 2 is looked up on line 3 *)
Definition w_formfeed : list aline := [LPlain (String c12 ""); LSame "y = 4242" Hash (Names "magic-numbers")].
Theorem C04_splitlines_unicode_refuted : refutes w_formfeed 2 "magic-numbers.numeric-literal".
Proof. vm_compute. repeat split; discriminate. Qed.

(* the bracket form names nesting only, yet magic-numbers inside the block is suppressed as well *)
Definition w_start_bracket : list aline := [LStart "" Hash true (Names "nesting"); LPlain "x = 4242"; LEnd "" Hash].
Theorem C04_start_rules_from_code_refuted : refutes w_start_bracket 2 "magic-numbers.numeric-literal".
Proof. vm_compute. repeat split; discriminate. Qed.

(* linters that never consult the shared parser: a same-line directive naming their rule suppresses nothing *)
Definition w_lbyl : list aline := [LSame "    if key in d:" Hash (Names "lbyl")].
Theorem C04_no_inline_support_refuted :
  forallb (fun p => negb (suppressed ignore_actual (pipeline_of p "py") (render w_lbyl) 1 "lbyl.dict-key-check")) no_inline_support = true
  /\ spec false w_lbyl 1 "lbyl.dict-key-check" = true.
Proof. vm_compute. split; reflexivity. Qed.

(* method-property: its own line check fires for a directive that names another rule *)
Definition w_method_property : list aline := [LSame "    def get_x(self):" Hash (Names "nesting")].
Theorem C04_own_line_check_only_refuted :
  suppressed ignore_actual (pipeline_of "method_property" "py") (render w_method_property) 1 "method-property.should-be-property" = true
  /\ spec false w_method_property 1 "method-property.should-be-property" = false.
Proof. vm_compute. split; reflexivity. Qed.

(* dot-less rule ids (cqs, file-placement, ... are reported without a ".suffix"): the documented `prefix.*` spelling does not name
   them, because the wildcard is implemented as "the id starts with `prefix.`" *)
Theorem C04_dotless_wildcard_refuted :
  existsb (fun r => negb (containsb "." r)) registry_rule_ids = true
  /\ forallb (fun r => containsb "." r || (rule_matches r r && negb (rule_matches r (r ++ ".*")))) registry_rule_ids = true.
Proof. vm_compute. split; reflexivity. Qed.

(* file-header: the "no header at all" violation (line 1) is returned without passing the violation filter: a same-line directive
   on line 1 naming the rule does not remove it (a file-level directive does) *)
Definition w_fh_missing : list aline := [LSame "import re" Hash (Names "file-header"); LPlain "x = 1"].
Theorem C04_missing_header_unfiltered_refuted :
  file_ok w_fh_missing = true /\ target_ok w_fh_missing 1 = true
  /\ suppressed ignore_actual (pipeline_of "file_header_missing" "py") (render w_fh_missing) 1 fh_rule_id = false
  /\ spec false w_fh_missing 1 fh_rule_id = true
  /\ suppressed ignore_actual (pipeline_of "file_header" "py") (render w_fh_missing) 1 fh_rule_id = true.
Proof. vm_compute. repeat split; reflexivity. Qed.
