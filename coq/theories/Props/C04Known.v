(* Props/C04Known.v — refutations: for each flag claimed `true` in Actual/IgnoreActual.v (and for each deviating linter
   pipeline) a concrete abstract file of the domain on which the faithful model differs from the specification.
   The same files are in corpus/C04 and are replayed on the implementation on every run. *)
From TL Require Import Lib.Base Lib.GenTypes Gen.IgnoreGen Model.PyStr Model.Ignore Model.IgnoreSpec Model.IgnoreRun Actual.IgnoreActual.

Definition refutes (a : list aline) (v : nat) (r : string) : Prop :=
  file_ok a = true /\ target_ok a v = true /\ should_ignore ignore_actual false (render a) v r <> spec false a v r.

(* a form feed shifts the parser's line numbers: the directive on line 2 is looked up on line 3 *)
Definition w_formfeed : list aline := [LPlain (String c12 ""); LSame "y = 4242" Hash (Names "magic-numbers")].
Theorem C04_splitlines_unicode_refuted : refutes w_formfeed 2 "magic-numbers.numeric-literal".
Proof. vm_compute. repeat split; discriminate. Qed.

Definition w_next_slash : list aline := [LNext "" Slashes (Names "magic-numbers"); LPlain "return 4242;"].
Theorem C04_next_line_hash_only_refuted : refutes w_next_slash 2 "magic-numbers.numeric-literal".
Proof. vm_compute. repeat split; discriminate. Qed.

Definition w_file_slash : list aline := [LFile Slashes (Names "nesting"); LPlain "function f() {"].
Theorem C04_file_hash_only_refuted : refutes w_file_slash 2 "nesting.excessive-depth".
Proof. vm_compute. repeat split; discriminate. Qed.

(* the violation on line 1 is outside (before) the block on lines 2-4, yet it is suppressed *)
Definition w_before_block : list aline :=
  [LPlain "x = 4242"; LStart "" Hash false (Names "magic-numbers"); LPlain "y = 1"; LEnd "" Hash].
Theorem C04_block_end_before_refuted : refutes w_before_block 1 "magic-numbers.numeric-literal".
Proof. vm_compute. repeat split; discriminate. Qed.

Definition w_bare_line : list aline := [LSame "def f(a):" Hash Bare].
Theorem C04_bare_line_unsupported_refuted : refutes w_bare_line 1 "nesting.excessive-depth".
Proof. vm_compute. repeat split; discriminate. Qed.

Definition w_bare_file : list aline := [LFile Hash Bare; LPlain "def f(a):"].
Theorem C04_bare_file_unsupported_refuted : refutes w_bare_file 2 "nesting.excessive-depth".
Proof. vm_compute. repeat split; discriminate. Qed.

(* the bracket form names nesting only, yet magic-numbers inside the block is suppressed as well *)
Definition w_start_bracket : list aline := [LStart "" Hash true (Names "nesting"); LPlain "x = 4242"; LEnd "" Hash].
Theorem C04_start_rules_from_code_refuted : refutes w_start_bracket 2 "magic-numbers.numeric-literal".
Proof. vm_compute. repeat split; discriminate. Qed.

(* linters that never consult the shared parser: a same-line directive naming their rule suppresses nothing *)
Definition w_lbyl : list aline := [LSame "    if key in d:" Hash (Names "lbyl")].
Theorem C04_no_inline_support_refuted :
  forallb (fun p => negb (suppressed ignore_actual (pipeline_of p "py") (render w_lbyl) 1 "lbyl.dict-key-check")) no_inline_support = true
  /\ spec false w_lbyl 1 "lbyl.dict-key-check" = true.
Proof. vm_compute. split; reflexivity. Qed.

(* method-property: its own line check fires for a directive that names another rule *)
Definition w_method_property : list aline := [LSame "    def get_x(self):" Hash (Names "nesting")].
Theorem C04_own_line_check_only_refuted :
  suppressed ignore_actual (pipeline_of "method_property" "py") (render w_method_property) 1 "method-property.should-be-property" = true
  /\ spec false w_method_property 1 "method-property.should-be-property" = false.
Proof. vm_compute. split; reflexivity. Qed.
