(* Props/C20Known.v — refutations: for each finding still listed as known a concrete input on which the faithful model
   violates the specification (closed by vm_compute); for each finding recorded as fixed a regression Example: the old
   witness now meets the specification under the claimed vector.  The same inputs are in corpus/C20 and are
   replayed on the real CLI on every run. *)
From TL Require Import Lib.Base Lib.GenTypes Model.CfgTypes Gen.CfgToolGen Model.CfgMerge Model.CfgCli Model.CfgToolRun
     Actual.CfgToolActual.
From Coq Require Import ZArith.

Definition std : list (string * string) := match lookup "standard" presets with Some r => r | None => [] end.
Definition after (q : cquirks) (E : list string) : list string := result_file E (init_config q "standard" E).

(* FIXED (repo commit 2b4908f): the user wrote `magic_numbers:`; init-config used to append `magic-numbers:`, which shadowed
   the user's value.  Regression: under the vector claimed for the current tree the old witness meets the whole specification. *)
Definition w_underscore : list string := ["magic_numbers:"; "  allowed_numbers: [4242]"; ""].
Example C20_missing_by_raw_key_fixed :
  struct_r (analyse w_underscore) = true /\ in_effect_b w_underscore (after cfgtool_actual w_underscore) = true
  /\ spec_ok std w_underscore (after cfgtool_actual w_underscore) (after cfgtool_actual (after cfgtool_actual w_underscore)) = true
  /\ smem "magic-numbers" (root_keys (analyse (after cfgtool_actual w_underscore))) = false.
Proof. vm_compute. repeat split; reflexivity. Qed.

(* a flow-style root: block text is appended after the closing brace; the result is no YAML document *)
Definition w_flow : list string := ["{nesting: {max_nesting_depth: 3}}"; ""].
Theorem C20_append_to_flow_root_refuted :
  struct_r (analyse w_flow) = true /\ struct_r (analyse (after cfgtool_actual w_flow)) = false
  /\ valid_b std w_flow (after cfgtool_actual w_flow) = false
  /\ valid_b std w_flow (after (with_flag 1 cfgtool_actual) w_flow) = true.
Proof. vm_compute. repeat split; reflexivity. Qed.

(* the GLOBAL SETTINGS banner stands inside the `dry` entry: the sections are inserted there and the rest of dry's body
   becomes part of the last inserted section *)
Definition w_mid_entry : list string :=
  ["dry:"; "  enabled: true"; marker_line1; "# GLOBAL SETTINGS"; "  min_duplicate_lines: 7"; "exclude:"; "  - x"; ""].
Theorem C20_insert_mid_entry_refuted :
  struct_r (analyse w_mid_entry) = true /\ in_effect_b w_mid_entry (after cfgtool_actual w_mid_entry) = false
  /\ valid_b std w_mid_entry (after cfgtool_actual w_mid_entry) = false
  /\ spec_ok std w_mid_entry (after (with_flag 2 cfgtool_actual) w_mid_entry) (after (with_flag 2 cfgtool_actual) w_mid_entry) = true.
Proof. vm_compute. repeat split; reflexivity. Qed.

(* FIXED (repo commit 5897da0): `config set my-key 5` was saved but `config get my-key` did not find it; `config set log-level
   debug` bypassed the log_level validator and left a file that failed validation on every load.  Regression: under the claimed
   vector both old witnesses meet the trace specification, and the second one is rejected. *)
Definition w_get : list cmd := [CSet "my-key" "5"; CGet "my-key"].
Definition w_loglevel : list cmd := [CSet "log-level" "debug"; CGet "greeting"].
Example C20_cli_raw_key_fixed :
  forallb (fun b => b) (spec_trace [] None w_get (run cfgtool_actual false None w_get)) = true
  /\ map o_out (run cfgtool_actual false None w_get) = [Some "Set my_key = 5"; Some "5"]
  /\ forallb (fun b => b) (spec_trace [] None w_loglevel (run cfgtool_actual true None w_loglevel)) = true
  /\ map o_rc (run cfgtool_actual true None w_loglevel) = [set_reject_exit; 0].
Proof. vm_compute. repeat split; reflexivity. Qed.

(* the same defect with a root mapping that is indented as a whole *)
Definition w_indented : list string := ["  nesting:"; "    max_nesting_depth: 3"; "  dry:"; "    enabled: false"; ""].
Theorem C20_append_to_indented_root_refuted :
  analyse w_indented = RFlow ["nesting"; "dry"] /\ struct_r (analyse (after cfgtool_actual w_indented)) = false
  /\ valid_b std w_indented (after cfgtool_actual w_indented) = false
  /\ valid_b std w_indented (after (with_flag 1 cfgtool_actual) w_indented) = true.
Proof. vm_compute. repeat split; reflexivity. Qed.

(* finding eof_rstrip_changes_block_scalar at the byte level: the file ends inside the keep-chomped block scalar `note` (value
   "keep" and three line breaks); init-config appends after rstrip(): two of the three blank lines are gone, the next line after
   the one that is left is the banner of the first added section - the old text is not a prefix of the new one.  (White space
   inside block scalars is not content for the subset semantics of Model/CfgMerge.v, so in_effect_b does not see the change: the
   finding is matched by its input class and judged with PyYAML.) *)
Definition w_tail : list string := ["note: |+"; "  keep"; ""; ""; ""].
Theorem C20_eof_rstrip_refuted :
  struct_r (analyse w_tail) = true
  /\ firstn 4 (after cfgtool_actual w_tail) = ["note: |+"; "  keep"; ""; marker_line1]
  /\ lines_eqb (firstn 5 (after cfgtool_actual w_tail)) w_tail = false
  /\ in_effect_b w_tail (after cfgtool_actual w_tail) = true.
Proof. vm_compute. repeat split; reflexivity. Qed.
