From TL Require Import Lib.Base Model.CfgMerge Model.CfgCli Model.CfgToolRun Actual.CfgToolActual.
