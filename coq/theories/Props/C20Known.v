(* Props/C20Known.v — refutations: for each flag claimed `true` in Actual/CfgToolActual.v a concrete input on which
   the faithful model violates the specification (closed by vm_compute).  The same inputs are in corpus/C20 and are
   replayed on the real CLI on every run. *)
From TL Require Import Lib.Base Lib.GenTypes Model.CfgTypes Gen.CfgToolGen Model.CfgMerge Model.CfgCli Model.CfgToolRun
     Actual.CfgToolActual.
From Coq Require Import ZArith.

Definition std : list (string * string) := match lookup "standard" presets with Some r => r | None => [] end.
Definition after (q : cquirks) (E : list string) : list string := result_file E (init_config q "standard" E).

(* the user wrote `magic_numbers:`; init-config appends `magic-numbers:` and the loaders now find the template's value *)
Definition w_underscore : list string := ["magic_numbers:"; "  allowed_numbers: [4242]"; ""].
Theorem C20_missing_by_raw_key_refuted :
  struct_r (analyse w_underscore) = true /\ in_effect_b w_underscore (after cfgtool_actual w_underscore) = false
  /\ only_missing_b w_underscore (after cfgtool_actual w_underscore) = false
  /\ in_effect_b w_underscore (after (with_flag 0 cfgtool_actual) w_underscore) = true.
Proof. vm_compute. repeat split; reflexivity. Qed.

(* a flow-style root: block text is appended after the closing brace; the result is no YAML document *)
Definition w_flow : list string := ["{nesting: {max_nesting_depth: 3}}"; ""].
Theorem C20_append_to_flow_root_refuted :
  struct_r (analyse w_flow) = true /\ struct_r (analyse (after cfgtool_actual w_flow)) = false
  /\ valid_b std w_flow (after cfgtool_actual w_flow) = false
  /\ valid_b std w_flow (after (with_flag 1 cfgtool_actual) w_flow) = true.
Proof. vm_compute. repeat split; reflexivity. Qed.

(* the GLOBAL SETTINGS banner stands inside the `dry` entry: the sections are inserted there and the rest of dry's body
   becomes part of the last inserted section *)
Definition w_mid_entry : list string :=
  ["dry:"; "  enabled: true"; marker_line1; "# GLOBAL SETTINGS"; "  min_duplicate_lines: 7"; "exclude:"; "  - x"; ""].
Theorem C20_insert_mid_entry_refuted :
  struct_r (analyse w_mid_entry) = true /\ in_effect_b w_mid_entry (after cfgtool_actual w_mid_entry) = false
  /\ valid_b std w_mid_entry (after cfgtool_actual w_mid_entry) = false
  /\ spec_ok std w_mid_entry (after (with_flag 2 cfgtool_actual) w_mid_entry) (after (with_flag 2 cfgtool_actual) w_mid_entry) = true.
Proof. vm_compute. repeat split; reflexivity. Qed.

(* `config set my-key 5` is accepted and saved, `config get my-key` does not find it (loading renames it my_key) *)
Definition w_get : list cmd := [CSet "my-key" "5"; CGet "my-key"].
Theorem C20_cli_raw_key_get_refuted :
  forallb (fun b => b) (spec_trace [] None w_get (run cfgtool_actual false None w_get)) = false
  /\ forallb (fun b => b) (spec_trace [] None w_get (run (with_flag 3 cfgtool_actual) false None w_get)) = true.
Proof. vm_compute. split; reflexivity. Qed.

(* `config set log-level debug` bypasses the log_level validator; the saved file no longer validates when loaded:
   with --config every later command exits 2, without it the whole file is silently ignored *)
Definition w_loglevel : list cmd := [CSet "log-level" "debug"; CGet "greeting"].
Theorem C20_cli_raw_key_validation_refuted :
  map o_rc (run cfgtool_actual true None w_loglevel) = [0; load_error_exit]
  /\ forallb (fun b => b) (spec_trace [] None w_loglevel (run cfgtool_actual true None w_loglevel)) = false
  /\ map o_rc (run (with_flag 3 cfgtool_actual) true None w_loglevel) = [set_reject_exit; 0].
Proof. vm_compute. repeat split; reflexivity. Qed.
