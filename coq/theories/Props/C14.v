(* Props/C14.v — property C14 (a run lints exactly the non-excluded, non-ignored files under the given
   paths).  Only statements closed by `exact <lemma>` and their Print Assumptions.
   Model: Model/Collect.v (quirk-parametric), specification: Model/CollectSpec.v. *)
From TL Require Import Lib.Base Model.CollectStr Model.Glob Gen.CollectGen Model.Collect Model.CollectSpec
     Actual.CollectActual Proofs.GlobFacts Proofs.GlobSets Proofs.CollectTables Proofs.CollectIgnoreStr Proofs.CollectWalk Proofs.CollectIgnore Proofs.CollectMain Model.CollectCache Proofs.CollectCacheFacts.

(* 1. What _collect_files_fast collects, for every tree (induction on the tree): a path is collected iff
      it is a regular file of the tree, no directory between the target and the file is always-excluded,
      and its suffix is not a compiled-artefact suffix; not recursive: exactly such direct children. *)
Theorem C14_collect_exact : forall t pre p,
  In p (walk true pre t) <->
  exists below, p = pre ++ below /\ file_at t below
                /\ existsb spec_excluded_dir (removelast below) = false /\ spec_compiled (last below "") = false.
Proof. exact walk_exact. Qed.
Print Assumptions C14_collect_exact.

Theorem C14_collect_flat_exact : forall t pre p,
  In p (walk false pre t) <-> exists n, p = pre ++ [n] /\ In (File n) (children t) /\ spec_compiled n = false.
Proof. exact walk_flat_exact. Qed.
Print Assumptions C14_collect_flat_exact.

(* 2. A directory run: for every quirk vector with all flags off, every tree, target, recursion mode
      and every set of ignore sources of the documented forms, the files that reach the rules are
      exactly (same list, same order) the regular files beneath the target that the specification keeps. *)
Theorem C14_dir_run_exact : forall q recursive abs sp rel t S,
  flags_off q -> rel_ok rel = true -> target_ok t = true -> tsources_ok S = true ->
  run_dir q recursive abs sp rel t (render_sources S) = spec_dir recursive rel t S.
Proof. exact run_dir_exact. Qed.
Print Assumptions C14_dir_run_exact.

(* 2b. lint_directory_parallel / --parallel: the same set, recursive or not. *)
Theorem C14_parallel_dir_run_exact : forall q recursive abs sp rel t S,
  flags_off q -> rel_ok rel = true -> target_ok t = true -> tsources_ok S = true ->
  run_dir_par q recursive abs sp rel t (render_sources S) = spec_dir recursive rel t S.
Proof. exact run_dir_par_exact. Qed.
Print Assumptions C14_parallel_dir_run_exact.

Theorem C14_parallel_equals_sequential : forall q recursive abs sp rel t s,
  run_dir_par q recursive abs sp rel t s = run_dir q recursive abs sp rel t s.
Proof. exact run_dir_par_eq. Qed.
Print Assumptions C14_parallel_equals_sequential.

(* 2c. The vector claimed for the current tree (Actual/CollectActual.v: the seven repaired flags off, the model then runs the
       functions generated from the source; q_ignore_cwd_spelling still on): exact for every target spelled absolutely or
       relative to the project root (plain_spelling), no other guard. *)
Theorem C14_dir_run_exact_current_tree : forall recursive abs sp rel t S,
  plain_spelling sp -> rel_ok rel = true -> target_ok t = true -> tsources_ok S = true ->
  run_dir collect_actual recursive abs sp rel t (render_sources S) = spec_dir recursive rel t S.
Proof. exact run_dir_exact_actual. Qed.
Print Assumptions C14_dir_run_exact_current_tree.

Theorem C14_parallel_dir_run_exact_current_tree : forall recursive abs sp rel t S,
  plain_spelling sp -> rel_ok rel = true -> target_ok t = true -> tsources_ok S = true ->
  run_dir_par collect_actual recursive abs sp rel t (render_sources S) = spec_dir recursive rel t S.
Proof. exact run_dir_par_exact_actual. Qed.
Print Assumptions C14_parallel_dir_run_exact_current_tree.

Theorem C14_named_files_exact_current_tree : forall abs sp S ps,
  plain_spelling sp -> tsources_ok S = true -> forallb path_ok ps = true ->
  run_files collect_actual abs sp (render_sources S) ps = spec_files S ps.
Proof. exact run_files_exact_actual. Qed.
Print Assumptions C14_named_files_exact_current_tree.

(* 3. Files named explicitly go through the same gates. *)
Theorem C14_named_files_exact : forall q abs sp S ps,
  flags_off q -> tsources_ok S = true -> forallb path_ok ps = true ->
  run_files q abs sp (render_sources S) ps = spec_files S ps.
Proof. exact run_files_exact. Qed.
Print Assumptions C14_named_files_exact.

(* 3b. Several targets in one run (execute_linting_on_paths): the named files plus everything beneath the named directories. *)
Theorem C14_mixed_targets_exact : forall q recursive parallel abs sp S files dirs,
  flags_off q -> tsources_ok S = true -> forallb path_ok files = true -> dirs_ok dirs = true ->
  run_paths q recursive parallel abs sp (render_sources S) files dirs = spec_paths recursive S files dirs.
Proof. exact run_paths_exact. Qed.
Print Assumptions C14_mixed_targets_exact.

(* 4. An excluded or ignored file never reaches the rules, under a directory target or named explicitly;
      every other regular file beneath the target does; --no-recursive considers direct children only. *)
Theorem C14_excluded_never_linted : forall q recursive abs sp rel t S ps p,
  flags_off q -> rel_ok rel = true -> target_ok t = true -> tsources_ok S = true -> forallb path_ok ps = true ->
  spec_ok S p = false ->
  ~ In p (run_dir q recursive abs sp rel t (render_sources S)) /\ ~ In p (run_files q abs sp (render_sources S) ps).
Proof. exact excluded_never_linted. Qed.
Print Assumptions C14_excluded_never_linted.

Theorem C14_others_linted : forall q abs sp rel t S below,
  flags_off q -> rel_ok rel = true -> target_ok t = true -> tsources_ok S = true ->
  file_at t below -> spec_ok S (rel ++ below) = true ->
  In (rel ++ below) (run_dir q true abs sp rel t (render_sources S)).
Proof. exact others_linted. Qed.
Print Assumptions C14_others_linted.

Theorem C14_flat_only_children : forall q abs sp rel t S p,
  flags_off q -> rel_ok rel = true -> target_ok t = true -> tsources_ok S = true ->
  In p (run_dir q false abs sp rel t (render_sources S)) <->
  exists n, p = rel ++ [n] /\ In (File n) (children t) /\ spec_ok S p = true.
Proof. exact flat_only_children. Qed.
Print Assumptions C14_flat_only_children.

(* 5. Ignore matching: with the three matching flags off, matches_pattern decides the documented meaning
      of every documented pattern form on every project-relative path; glob lemmas about the fnmatch model. *)
Theorem C14_matches_documented_forms : forall q p comps,
  glob_ideal q -> pat_ok p = true -> comps_ok comps -> matches q (pjoin comps) (render p) = spec_match p comps.
Proof. exact matches_spec. Qed.
Print Assumptions C14_matches_documented_forms.

Theorem C14_glob_star_matches_all : forall name, fnm name "*" = true.
Proof. exact fnm_star_all. Qed.
Print Assumptions C14_glob_star_matches_all.

Theorem C14_glob_suffix : forall name lit, plain (la lit) -> fnm name ("*" ++ lit) = ends_with name lit.
Proof. exact fnm_star_lit. Qed.
Print Assumptions C14_glob_suffix.

Theorem C14_glob_prefix : forall name lit stars,
  plain (la lit) -> (stars = "*" \/ stars = "**")%string -> fnm name (lit ++ stars) = starts_with name lit.
Proof. exact fnm_lit_stars. Qed.
Print Assumptions C14_glob_prefix.

(* the `?` and `[abc]` rows of the documented pattern table *)
Theorem C14_glob_question_mark : forall name pre post,
  plain (la pre) -> plain (la post) ->
  fnm name (pre ++ "?" ++ post) = true <-> exists c, la name = la pre ++ c :: la post.
Proof. exact fnm_question. Qed.
Print Assumptions C14_glob_question_mark.

Theorem C14_glob_character_set : forall name pre chars post,
  plain (la pre) -> plain (la post) -> simple_set chars ->
  fnm name (pre ++ "[" ++ sa chars ++ "]" ++ post) = true <-> exists c, In c chars /\ la name = la pre ++ c :: la post.
Proof. exact fnm_charset. Qed.
Print Assumptions C14_glob_character_set.

(* brackets: the parser finds the closing "]", an unclosed "[" is literal, a reversed range matches nothing *)
Theorem C14_glob_bracket_parse : forall body rest,
  ~ In c_rbr body -> closable (rev body) = true ->
  parse_st None (c_lbr :: body ++ c_rbr :: rest) = mk_set body :: parse_st None rest.
Proof. exact parse_bracket. Qed.
Print Assumptions C14_glob_bracket_parse.

Theorem C14_glob_unclosed_bracket_literal : forall s, ~ In c_rbr s -> parse_st None (c_lbr :: s) = TLit c_lbr :: map tok1 s.
Proof. exact parse_unclosed. Qed.
Print Assumptions C14_glob_unclosed_bracket_literal.

Theorem C14_glob_reversed_range_empty : forall lo hi c, nat_of_ascii hi < nat_of_ascii lo -> item_matches c (IRange lo hi) = false.
Proof. exact reversed_range_empty. Qed.
Print Assumptions C14_glob_reversed_range_empty.

(* bracket expressions with ranges of ANY shape (reversed, degenerate, stray hyphens, negation).  The model cuts the text into
   chunks and removes empty ranges the way fnmatch.translate does (Model/Glob.v set_chunks); for every text that decides the
   same set as the simple reading "x-y is a range, empty when written backwards; everything else stands for itself; a leading
   ! negates" -- unless removing a reversed range at the very start lets a "!" surface as the first character, which fnmatch
   then takes for a negation (witness below). *)
Theorem C14_glob_set_as_fnmatch_translate : forall stuff c,
  bang_surfaces stuff = false -> tok_sem (mk_set stuff) c = tok_sem (mk_set_simple stuff) c.
Proof. exact mk_set_simple_reading. Qed.
Print Assumptions C14_glob_set_as_fnmatch_translate.

Theorem C14_glob_bang_surfaces_only_after_reversed_range : forall stuff,
  bang_surfaces stuff = true -> exists lo hi r, stuff = lo :: c_dash :: hi :: r /\ nat_of_ascii hi < nat_of_ascii lo.
Proof. exact bang_surfaces_only_after_reversed_range. Qed.
Print Assumptions C14_glob_bang_surfaces_only_after_reversed_range.

Theorem C14_glob_bracket_any_body : forall name pre body post,
  plain (la pre) -> plain (la post) -> ~ In c_rbr body -> closable (rev body) = true -> bang_surfaces body = false ->
  fnm name (pre ++ "[" ++ sa body ++ "]" ++ post) = true <->
  exists c, tok_sem (mk_set_simple body) c = true /\ la name = la pre ++ c :: la post.
Proof. exact fnm_bracket. Qed.
Print Assumptions C14_glob_bracket_any_body.

(* what fnmatch does when the "!" surfaces: [z-a!x] is "anything but x", [b-a!] is "any character" *)
Example C14_glob_bang_surfaces_witness :
  bang_surfaces (la "z-a!x") = true /\ fnm "a" "[z-a!x]" = true /\ fnm "!" "[z-a!x]" = true /\ fnm "x" "[z-a!x]" = false
  /\ fnm "q" "[b-a!]" = true /\ fnm "x" "[z-a]" = false /\ fnm "x" "[!z-a]" = true /\ fnm "-" "[b-a-]" = true /\ fnm "a" "[b-a-]" = false.
Proof. vm_compute. repeat split; reflexivity. Qed.

Theorem C14_glob_literal : forall name pat, plain (la pat) -> fnm name pat = String.eqb name pat.
Proof. exact fnm_literal. Qed.
Print Assumptions C14_glob_literal.

(* what the code did with "name/" before fix 9c8f928 (the two directory-pattern flags on): component membership
   (file name included) or a bare prefix match *)
Theorem C14_dirpattern_former_defect : forall q path n,
  q_dirpat_prefix q = true -> q_dirpat_filename q = true -> lit_ok n = true ->
  match_dir q path (n ++ "/") = smem n (path_parts path) || starts_with path n.
Proof. exact dirpattern_former. Qed.
Print Assumptions C14_dirpattern_former_defect.

(* 6. The tables found in the source are the always-excluded names / compiled suffixes of the specification. *)
Theorem C14_excluded_dirs_table : forall n, smem n excluded_dirs = smem n spec_excluded_dirs.
Proof. exact excluded_dirs_table. Qed.
Print Assumptions C14_excluded_dirs_table.

Theorem C14_excluded_exts_table : forall n, smem n excluded_exts = smem n spec_compiled_exts.
Proof. exact excluded_exts_table. Qed.
Print Assumptions C14_excluded_exts_table.

(* GHard = _is_hardcoded_excluded applied to the path inside the project (fix b20520c) *)
Theorem C14_lint_file_gates : lint_gates = [GHard; GIgnored].
Proof. exact lint_gates_spec. Qed.
Print Assumptions C14_lint_file_gates.

(* 7. Confinement: ANY quirk vector -- e.g. one describing a tree in which a former defect is back -- is exact on
      every input outside the defect classes (partial: the full statements are 2 and 3). *)
Theorem C14_dir_run_exact_partial : forall q recursive abs sp rel t S,
  outside_defect_classes abs (all_files recursive rel t) S -> plain_spelling sp ->
  rel_ok rel = true -> target_ok t = true -> tsources_ok S = true ->
  run_dir q recursive abs sp rel t (render_sources S) = spec_dir recursive rel t S.
Proof. exact run_dir_exact_partial. Qed.
Print Assumptions C14_dir_run_exact_partial.

Theorem C14_named_files_exact_partial : forall q abs sp S ps,
  outside_defect_classes abs ps S -> plain_spelling sp -> tsources_ok S = true -> forallb path_ok ps = true ->
  run_files q abs sp (render_sources S) ps = spec_files S ps.
Proof. exact run_files_exact_partial. Qed.
Print Assumptions C14_named_files_exact_partial.

(* 8. Confinement of the finding that is still listed (q_ignore_cwd_spelling): patterns that look at the file name only
      (the star-suffix forms PSuffix and PAnySuffix) are applied correctly from any working directory and under any spelling of the target. *)
Theorem C14_dir_run_exact_name_only_patterns_partial : forall q recursive abs sp rel t S,
  clear q abs S -> (forall p, In p (all_files recursive rel t) -> name_clear q p) ->
  forallb name_only (spec_pats S) = true -> forallb comp_ok (spelled sp rel) = true ->
  rel_ok rel = true -> target_ok t = true -> tsources_ok S = true ->
  run_dir q recursive abs sp rel t (render_sources S) = spec_dir recursive rel t S.
Proof. exact run_dir_exact_name_only. Qed.
Print Assumptions C14_dir_run_exact_name_only_patterns_partial.

(* 9. The memo of IgnoreDirectiveParser.is_ignored (self._ignore_cache, Model/CollectCache.v: state threaded through the lint_file calls
      of one Orchestrator).  Distinct path objects have distinct strings (key injective on the paths handed to the parser): whatever was
      asked before, a run lints exactly what the memo-free model lints and leaves a sound memo behind; so do several runs one after the
      other; the runs of Model/Collect.v are the runs with a fresh memo.  Shape found in the source: one memo per parser instance, looked
      up and filled under str(file_path).  Keyed by the file name instead, the memo would change what is linted (refutation). *)
Theorem C14_ignore_memo_transparent : forall key q abs pats cp (dom : list string -> Prop) c ps,
  (forall p1 p2, dom p1 -> dom p2 -> key p1 = key p2 -> p1 = p2) ->
  sound key (ign_gate q pats cp) dom c -> Forall dom ps ->
  fst (run_seq_memo key q abs pats cp c ps) = filter (linted q abs pats cp) ps
  /\ sound key (ign_gate q pats cp) dom (snd (run_seq_memo key q abs pats cp c ps)).
Proof. exact memo_transparent. Qed.
Print Assumptions C14_ignore_memo_transparent.

Theorem C14_ignore_memo_across_calls : forall key q abs pats cp (dom : list string -> Prop) calls,
  (forall p1 p2, dom p1 -> dom p2 -> key p1 = key p2 -> p1 = p2) -> Forall (Forall dom) calls ->
  fst (lint_calls key (hard_gate q abs) (ign_gate q pats cp) [] calls) = map (filter (linted q abs pats cp)) calls.
Proof. exact memo_transparent_calls. Qed.
Print Assumptions C14_ignore_memo_across_calls.

Theorem C14_dir_run_with_memo : forall key q recursive abs sp rel t s,
  (forall p1 p2, key p1 = key p2 -> p1 = p2) ->
  fst (run_seq_memo key q abs (load_patterns q s) (chk_dir q sp rel) [] (walk (seq_collect_recursive recursive) rel t)) = run_dir q recursive abs sp rel t s.
Proof. exact run_dir_with_memo. Qed.
Print Assumptions C14_dir_run_with_memo.

Theorem C14_named_files_with_memo : forall key q abs sp s ps,
  (forall p1 p2, key p1 = key p2 -> p1 = p2) ->
  fst (run_seq_memo key q abs (load_patterns q s) (chk_file q sp) [] ps) = run_files q abs sp s ps.
Proof. exact run_files_with_memo. Qed.
Print Assumptions C14_named_files_with_memo.

Theorem C14_absolute_path_strings_injective : forall dirs p1 p2,
  forallb comp_ok dirs = true -> path_ok p1 = true -> path_ok p2 = true -> abs_key dirs p1 = abs_key dirs p2 -> p1 = p2.
Proof. exact abs_key_injective. Qed.
Print Assumptions C14_absolute_path_strings_injective.

(* distinct files of the project have distinct path strings under EVERY spelling of the target (absolute, relative to a directory of the
   project, relative to a directory above it), so the hypothesis of the memo theorems holds for the paths a run hands to lint_file *)
Theorem C14_spelled_path_strings_injective : forall sp p1 p2,
  comps_ok (spelled sp p1) -> comps_ok (spelled sp p2) -> no_dotdot p1 -> no_dotdot p2 ->
  pjoin (spelled sp p1) = pjoin (spelled sp p2) -> p1 = p2.
Proof. exact spelled_key_injective. Qed.
Print Assumptions C14_spelled_path_strings_injective.

Theorem C14_named_files_with_memo_any_spelling : forall q abs sp s ps,
  Forall (fun p => comps_ok (spelled sp p) /\ no_dotdot p) ps ->
  fst (run_seq_memo (fun p => pjoin (spelled sp p)) q abs (load_patterns q s) (chk_file q sp) [] ps) = run_files q abs sp s ps.
Proof. exact run_files_with_memo_spelled. Qed.
Print Assumptions C14_named_files_with_memo_any_spelling.

Theorem C14_ignore_memo_shape : ignore_cache_per_instance = true /\ ignore_cache_keyed_by_path_str = true.
Proof. exact ignore_cache_shape. Qed.
Print Assumptions C14_ignore_memo_shape.

Theorem C14_ignore_memo_keyed_by_name_refuted :
  let key := fun p : list string => last p "" in
  let ign := fun p : list string => String.eqb (hd "" p) "gen" in
  fst (lint_seq key (fun _ => false) ign [] [["gen"; "x.py"]; ["src"; "x.py"]]) = []
  /\ filter (fun p => negb (ign p)) [["gen"; "x.py"]; ["src"; "x.py"]] = [["src"; "x.py"]].
Proof. exact memo_keyed_by_name_refuted. Qed.
Print Assumptions C14_ignore_memo_keyed_by_name_refuted.

(* 10. lint_files_parallel feeds the collected files to the cross-file rules (duplicate code) in the parent, behind the gates
       Gen.par_evidence_gates: these are the gates of lint_file, so the evidence comes from exactly the files that are linted. *)
Theorem C14_parallel_evidence_gates : par_evidence_gates = lint_gates.
Proof. exact par_evidence_gates_spec. Qed.
Print Assumptions C14_parallel_evidence_gates.

Theorem C14_parallel_evidence_exact : forall q recursive abs sp rel t s,
  evidence_files q abs (load_patterns q s) (chk_dir q sp rel) (walk (par_collect_recursive recursive) rel t) = run_dir_par q recursive abs sp rel t s.
Proof. exact evidence_of_parallel_dir_run. Qed.
Print Assumptions C14_parallel_evidence_exact.

(* non-vacuity: an admissible tree, target and source set on which something is excluded, something is
   ignored by every kind of source, and something is linted *)
Definition ex_tree : tree :=
  Dir "" [File "a.py"; File "m.pyc"; Dir "build" [File "gen.py"]; Dir "legacy" [File "old.py"];
          Dir "src" [File "b.py"; File "x_constants.py"; Dir "pkg.egg-info" [File "PKG-INFO"]; Dir "tests" [File "t.py"]]].
Definition ex_sources : tsources := {|
  t_ti := Some [LComment " repo ignores"; LPat 0 1 (PDir "legacy"); LBlank 2; LPat 2 0 (PAnySuffix "_constants.py")];
  t_yaml := Some [PUnder ["src"; "tests"]];
  t_json := None |}.
Example C14_nonvacuous :
  rel_ok [] = true /\ target_ok ex_tree = true /\ tsources_ok ex_sources = true
  /\ spec_dir true [] ex_tree ex_sources = [["a.py"]; ["src"; "b.py"]]
  /\ spec_dir false [] ex_tree ex_sources = [["a.py"]]
  /\ run_dir ideal true ["/"; "w"; "proj"] SAbs [] ex_tree (render_sources ex_sources) = [["a.py"]; ["src"; "b.py"]]
  /\ run_dir collect_actual false [] (SInside ["src"]) ["src"] (Dir "src" [File "b.py"; Dir "tests" [File "t.py"]]) (render_sources ex_sources) = [["src"; "b.py"]].
Proof. vm_compute. repeat split; reflexivity. Qed.
