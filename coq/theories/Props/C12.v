(* Props/C12.v — property C12 (every violation points at a real location of the construct it describes).
   Only statements closed by `exact <lemma>` and their Print Assumptions.

   C12 is only partly a matter of logic.  PROVED here, for all inputs:
     A. the location theory: files as line lists, line_ok / col_ok, text <-> line list (final newline or not);
     B. the conversions the source applies to parser positions, read per violation builder from /repo on every run
        (Gen/LocGen.v): under them 1 <= line <= number of lines whenever the parser-position oracle is within the
        file; a census of every tree-sitter row / lineno / column use; SARIF's column + 1;
     C. the builder model: with every deviation flag off each well-formed construct is reported on its own line, the
        line exists, the column lies within it; for ANY flag vector the same holds for every construct without a
        separate node start (confinement);
     D. for every modelled linter (Model/Nesting.v, Magic.v, Srp.v, RustSafety.v, Dry.v, PrintStmt.v - the models
        whose correspondence with the implementation C01/C02/C16/C17/C03/C19 check) every violation the MODEL emits
        carries the recorded header position of a construct of the right kind of the abstract file;
     D''. the lazy-ignores line scanner (a TEXT scanner: line numbering, triple-quoted regions, column offset - its source shape
        is template-checked): what it reports for any per-line regex oracle, exactly; with the file's own lines the property
        holds; str.splitlines coincides with them on texts whose only line boundary is LF (confinement of the listed deviation);
     E. the renderer bookkeeping scheme and the soundness of the executable judge.
   VALIDATED, not proved (harness/props/c12.py): that CPython / tree-sitter report the recorded positions for the
   rendered text (decorators, multi-line headers, CRLF, no final newline, offsets) - the parser-position oracle. *)
From Coq Require Import ZArith.
From TL Require Import Lib.Base Lib.GenTypes Model.LocTypes Gen.LocGen Model.Loc Model.LocRun Actual.LocActual
     Proofs.LocBase Proofs.LocJudge Proofs.LocRender Proofs.LocNesting Proofs.LocMagic Proofs.LocSrp Proofs.LocRust Proofs.LocDry Proofs.LocPrint
     Gen.LocPatGen Model.LocPat Proofs.LocPat
     Model.LocLazyTypes Gen.LocLazyGen Model.LocLazy Proofs.LocLazy
     Gen.LocTsPatGen Model.LocTsPat Proofs.LocTsPat.
From TL Require Model.Skel Model.Nesting Model.MagicNum Model.Magic Model.SrpTypes Model.Srp Model.RustSafetyTypes Model.RustSafety
     Model.DryPipe Model.Dry Model.Embed Model.PrintStmt.

(* ---------------------------------------------------------------- A. files as line lists *)
Theorem C12_lines_of_rendered_text : forall ls, forallb lf_free ls = true -> lines_of (text_of ls) = ls.
Proof. exact lines_of_text_of. Qed.
Print Assumptions C12_lines_of_rendered_text.

Theorem C12_lines_without_final_newline : forall ls, forallb lf_free ls = true -> last ls "x" <> EmptyString ->
  lines_of (text_no_final ls) = ls.
Proof. exact lines_of_no_final_newline. Qed.
Print Assumptions C12_lines_without_final_newline.

Theorem C12_line_in_range_names_a_line : forall f line, line_ok f line = true -> nth_error f (line - 1) = Some (line_text f line).
Proof. exact line_ok_nth. Qed.
Print Assumptions C12_line_in_range_names_a_line.

(* ---------------------------------------------------------------- B. conversions *)
Theorem C12_conversion_in_range : forall e f row0, conv_ok e = true -> row0 < nlines f ->
  eval_line e row0 = row0 + 1 /\ line_ok f (eval_line e row0) = true.
Proof. exact conv_line_ok. Qed.
Print Assumptions C12_conversion_in_range.

Theorem C12_conversion_must_be_exact : forall e, is_const_line e = false -> conv_ok e = false ->
  exists f row0, row0 < nlines f /\ (line_ok f (eval_line e row0) = false \/ eval_line e row0 <> row0 + 1).
Proof. exact conv_off_by_one_escapes. Qed.
Print Assumptions C12_conversion_must_be_exact.

(* every violation builder found in the source converts (lineno as is, start_point[0] + 1, enumerate(start=1)) or is a
   file-level constant, and passes the parser column on unchanged or reports a constant *)
Theorem C12_every_builder_converts : forall b le ce, builder b = Some (le, ce) ->
  (conv_ok le = true \/ is_const_line le = true) /\ col_plain ce = true.
Proof. exact builder_facts. Qed.
Print Assumptions C12_every_builder_converts.

Theorem C12_named_builders : forall b, In b named -> exists le ce, builder b = Some (le, ce) /\ conv_ok le = true /\ col_plain ce = true.
Proof. exact named_builder_converts. Qed.
Print Assumptions C12_named_builders.

(* census over src/linters, src/analyzers, src/core: a tree-sitter row is either converted with + 1 or used inside
   one of the listed functions that never hand it to a violation; lineno and columns are never shifted *)
Theorem C12_row_census : forall s, In s loc_row_sites -> snd s = UPlus 1 \/ In (fst s) raw_row_allowed.
Proof. exact row_census. Qed.
Print Assumptions C12_row_census.
Theorem C12_lineno_and_column_census : forallb lineno_use_ok loc_lineno_sites = true /\ forallb col_use_ok loc_col_sites = true.
Proof. exact (conj lineno_sites_ok col_sites_ok). Qed.
Print Assumptions C12_lineno_and_column_census.

Theorem C12_sarif_region : forall f line col, line_ok f line = true -> col_ok f line col = true ->
  sarif_line line = line /\ 1 <= sarif_col col <= String.length (line_text f line) + 1.
Proof. exact sarif_region_ok. Qed.
Print Assumptions C12_sarif_region.

(* ---------------------------------------------------------------- C. the builder model *)
Theorem C12_model_reports_the_construct_line : forall q f c,
  q_rs_chain_start q = false -> q_ts_arrow_node_start q = false -> q_ts_console_chain_start q = false ->
  q_fh_header_relative q = false -> q_col_const_unclamped q = false ->
  wf_construct f c = true -> loc_ok f c (model_line q c) (model_col q f c) = true.
Proof. exact model_ideal_ok. Qed.
Print Assumptions C12_model_reports_the_construct_line.

Theorem C12_loc_ok_is_the_property : forall f c line col, loc_ok f c line col = true ->
  line = k_hrow c + 1 /\ 1 <= line <= nlines f /\ col <= String.length (line_text f line).
Proof. exact loc_ok_means. Qed.
Print Assumptions C12_loc_ok_is_the_property.

(* for the builders no deviation flag refers to - SRP on TypeScript among them since the repair of the decorated-class
   line (147bf8d) - the property holds for the faithful model under EVERY quirk vector *)
Theorem C12_flag_free_builders_exact : forall q f c,
  flag_free (k_builder c) = true -> wf_construct f c = true -> const_col_fits f c = true ->
  loc_ok f c (model_line q c) (model_col q f c) = true.
Proof. exact model_flag_free_exact. Qed.
Print Assumptions C12_flag_free_builders_exact.

(* partial (the full statement is the previous theorem): for ANY quirk vector - in particular the one claimed for the
   current tree - the property holds for every construct without a separate node start (no method chain broken over lines, header text starting on line 1) on whose line a constant column fits *)
Theorem C12_model_confined_partial : forall q f c,
  wf_construct f c = true -> plain_construct c = true -> const_col_fits f c = true ->
  loc_ok f c (model_line q c) (model_col q f c) = true.
Proof. exact model_actual_partial. Qed.
Print Assumptions C12_model_confined_partial.

(* ---------------------------------------------------------------- D. the linter models emit recorded positions only *)
Theorem C12_nesting_reports_function_headers : forall l q limit file line col name d,
  In (line, col, name, d) (Nesting.report l q limit file) -> exists t, In t file /\ has_fn line col name t.
Proof. exact nesting_location_is_a_function_node. Qed.
Print Assumptions C12_nesting_reports_function_headers.

Theorem C12_nesting_message_quotes_the_name : forall l line col name d,
  Nesting.message l (line, col, name, d) = sconcat ["Function '"; name; "' has excessive nesting depth ("; show_nat d; ")"].
Proof. exact nesting_message_quotes_name. Qed.
Print Assumptions C12_nesting_message_quotes_the_name.

Theorem C12_magic_reports_literal_lines_and_values : forall l q cfg f r, In r (Magic.report l q cfg f) -> at_site l q f r.
Proof. exact magic_location_recorded. Qed.
Print Assumptions C12_magic_reports_literal_lines_and_values.

Theorem C12_srp_reports_class_headers : forall q c f r, lines_one_based f -> In r (Srp.report q c f) ->
  (exists cl, In cl (SrpTypes.f_classes f) /\ (at_unit (SrpTypes.c_line cl) (SrpTypes.c_col cl) (SrpTypes.c_name cl) r
                                              \/ at_unit (SrpTypes.c_line cl) (SrpTypes.c_col cl) (Srp.ts_class_name cl) r))
  \/ (exists st, In st (SrpTypes.f_structs f) /\ at_unit (SrpTypes.s_line st) (SrpTypes.s_col st) (Srp.rs_struct_name st) r).
Proof. exact srp_location_recorded. Qed.
Print Assumptions C12_srp_reports_class_headers.

Theorem C12_rust_reports_calls : forall q ls c file r, In r (RustSafety.report q ls c file) ->
  exists t k cs, In t file /\ subnode (RustSafetyTypes.N k cs) t /\ at_call q ls k r.
Proof. exact rust_location_recorded. Qed.
Print Assumptions C12_rust_reports_calls.

Theorem C12_rust_reports_the_call_line : forall q ls c file rule line col msg, RustSafety.q_chain_start_line q = false ->
  In (rule, line, col, msg) (RustSafety.report q ls c file) ->
  exists t k cs, In t file /\ subnode (RustSafetyTypes.N k cs) t /\
    match k with
    | RustSafetyTypes.KMethod _ sc ml _ => line = ml + 1 /\ col = sc
    | RustSafetyTypes.KCall sl sc _ => line = sl + 1 /\ col = sc
    | _ => False
    end.
Proof. exact rust_location_is_the_call. Qed.
Print Assumptions C12_rust_reports_the_call_line.

Theorem C12_dry_reports_first_code_line_of_a_block : forall q W k files v, 1 <= W -> In v (Dry.dry_model q W k files) ->
  exists f, nth_error files (DryPipe.v_file v) = Some f /\ is_code_line q f (DryPipe.v_line v) /\ DryPipe.v_col v = 1.
Proof. exact dry_location_recorded. Qed.
Print Assumptions C12_dry_reports_first_code_line_of_a_block.

Theorem C12_print_reports_the_call : forall allow file r, In r (PrintStmt.print_reports allow file) ->
  exists t n, In t file /\ subtree n t /\ Embed.ncls n = EmbedGen.pr_call_cls /\ PrintStmt.is_print_call (PrintStmt.erase n) = true
              /\ r = (Embed.line (Embed.ninfo n), Embed.col (Embed.ninfo n), "", "").
Proof. exact print_location_recorded. Qed.
Print Assumptions C12_print_reports_the_call.

(* ---------------------------------------------------------------- D'. pattern linters *)
(* lbyl, method-property, stateless-class, collection-pipeline, cqs (Python), string-concat-loop and regex-in-loop (Python): whatever the detector selects (the selection is an oracle
   here), the violation carries lineno / col_offset (or the constant column) of a node of the file whose class is the one
   read from the source - an `if` statement, a `def`, a `class`, a `for` loop, an augmented assignment, a call - and quotes that node's name *)
Theorem C12_pattern_linters_report_their_node : forall linter s sel file l c name,
  site_of linter = Some s -> In (l, c, name) (pat_reports s sel file) ->
  exists t n, In t file /\ subtree n t /\ smem (Embed.ncls n) (ps_classes s) = true /\ name = Embed.nsval n
              /\ (1 <= Embed.line (Embed.ninfo n) -> l = Embed.line (Embed.ninfo n))
              /\ (c = Embed.col (Embed.ninfo n) \/ exists k, ps_col s = CConst k /\ c = k).
Proof. exact pat_reports_node_line. Qed.
Print Assumptions C12_pattern_linters_report_their_node.

Theorem C12_pattern_sites :
  map (fun k => option_map (fun s => (ps_classes s, ps_line s, ps_col s)) (site_of k)) ["lbyl"; "method-property"; "stateless-class"; "collection-pipeline"]
  = [Some (["If"], LBase1 0, CNode 0); Some (["FunctionDef"], LBase1 0, CNode 0); Some (["ClassDef"], LBase1 0, CNode 0);
     Some (["For"], LBase1 0, CConst 0)].
Proof. exact pat_sites_fact. Qed.
Print Assumptions C12_pattern_sites.

Theorem C12_pattern_sites_cqs_perf :
  map (fun k => option_map (fun s => (ps_classes s, ps_line s, ps_col s)) (site_of k)) ["cqs"; "perf-concat"; "perf-regex"]
  = [Some (["FunctionDef"; "AsyncFunctionDef"], LBase1 0, CNode 0); Some (["AugAssign"], LBase1 0, CNode 0); Some (["Call"], LBase1 0, CNode 0)].
Proof. exact pat_sites_fact2. Qed.
Print Assumptions C12_pattern_sites_cqs_perf.

Theorem C12_pattern_judge_is_sound : forall s file l c name, pat_hit s file (l, c, name) = true ->
  exists t n, In t file /\ subtree n t /\ smem (Embed.ncls n) (ps_classes s) = true
              /\ l = eval_line (ps_line s) (Embed.line (Embed.ninfo n) - 1) /\ c = eval_col (ps_col s) (Embed.col (Embed.ninfo n))
              /\ (name = "" \/ name = Embed.nsval n).
Proof. exact pat_hit_sound. Qed.
Print Assumptions C12_pattern_judge_is_sound.

(* the TypeScript console detector, modelled in full (its source shape is template-checked by the translator): it reports
   EXACTLY the call_expression nodes whose first member_expression child has `console` as first identifier child and a
   configured method as first property_identifier child - each at (row + 1, 0), quoting that method *)
Theorem C12_console_detector_exact : forall methods root r, In r (console_collect methods root) <->
  exists n m, tsub n root /\ is_console_call methods n m /\ r = (eval_line console_line (trow n), eval_col console_col (tcol n), m).
Proof. exact console_reports_exact. Qed.
Print Assumptions C12_console_detector_exact.

Theorem C12_console_report_position : forall methods root l c m, In (l, c, m) (console_collect methods root) ->
  exists n, tsub n root /\ tty n = "call_expression" /\ l = trow n + 1 /\ c = 0 /\ smem m methods = true.
Proof. exact console_report_position. Qed.
Print Assumptions C12_console_report_position.

(* TypeScript pattern linters (string-concat-in-loop, CQS): whatever the detector selects (an oracle), a report is computed from the
   start row / column of a node of the tree-sitter tree whose type is one of those read from the source - and every selected node of
   such a type is reported *)
Theorem C12_ts_pattern_linters_report_their_node : forall s sel root r, In r (tpat_walk s sel root) ->
  exists n, tsub n root /\ smem (tty n) (ps_classes s) = true /\ sel n = true
            /\ r = (eval_line (ps_line s) (trow n), eval_col (ps_col s) (tcol n)).
Proof. exact tpat_reports_node. Qed.
Print Assumptions C12_ts_pattern_linters_report_their_node.

Theorem C12_ts_pattern_linters_report_every_selected_node : forall s sel root n, tsub n root -> smem (tty n) (ps_classes s) = true -> sel n = true ->
  In (eval_line (ps_line s) (trow n), eval_col (ps_col s) (tcol n)) (tpat_walk s sel root).
Proof. exact tpat_reports_complete. Qed.
Print Assumptions C12_ts_pattern_linters_report_every_selected_node.

Theorem C12_ts_pattern_sites :
  map (fun k => option_map (fun s => (ps_classes s, ps_line s, ps_col s)) (tsite_of k)) ["perf-ts"; "cqs-ts"]
  = [Some (["augmented_assignment_expression"], LBase0 1, CNode 0);
     Some (["function_declaration"; "arrow_function"; "method_definition"; "function"], LBase0 1, CNode 0)].
Proof. exact tpat_sites_fact. Qed.
Print Assumptions C12_ts_pattern_sites.

Theorem C12_ts_pattern_report_position : forall linter s sel root l c, In linter ["perf-ts"; "cqs-ts"] -> tsite_of linter = Some s ->
  In (l, c) (tpat_walk s sel root) ->
  exists n, tsub n root /\ smem (tty n) (ps_classes s) = true /\ l = trow n + 1 /\ c = tcol n.
Proof. exact tpat_report_position. Qed.
Print Assumptions C12_ts_pattern_report_position.

Theorem C12_ts_pattern_judge_is_sound : forall s root l c, tpat_hit s root (l, c) = true ->
  exists n, tsub n root /\ smem (tty n) (ps_classes s) = true /\ l = eval_line (ps_line s) (trow n) /\ c = eval_col (ps_col s) (tcol n).
Proof. exact tpat_hit_sound. Qed.
Print Assumptions C12_ts_pattern_judge_is_sound.

(* ---------------------------------------------------------------- D''. the lazy-ignores line scanner *)
(* PythonIgnoreDetector.find_ignores / TestSkipDetector.find_skips modelled in full except for the per-line regex search
   (`find`, an oracle).  Under either flag value: a report is exactly (index + 1, match start + 1, text) of a hit on a line of the
   list the scanner enumerates that no triple-quoted region covers *)
Theorem C12_lazy_scanner_reports_exactly : forall q find text r, In r (lazy_scan q find text) <->
  exists i l h, nth_error (lazy_lines q text) i = Some l /\ In h (find l) /\ inside_region lazy_quotes (lazy_lines q text) i = false
                /\ r = (i + 1, fst h + 1, snd h).
Proof. exact lazy_faithful_lines. Qed.
Print Assumptions C12_lazy_scanner_reports_exactly.

(* the region state the scanner carries is the parity of the unescaped triple quotes on the lines before *)
Theorem C12_lazy_region_state_is_parity : forall quotes ls,
  state_after quotes (init_state quotes) ls = map (fun q => Nat.odd (total_count q ls)) quotes.
Proof. exact state_after_parity. Qed.
Print Assumptions C12_lazy_region_state_is_parity.

(* flag off (the file's own lines): every report satisfies the property, for every oracle that only returns matches lying on the
   line it was given *)
Theorem C12_lazy_ideal_satisfies_the_property : forall find text r, find_sound find ->
  In r (lazy_scan false find text) -> lrep_ok (lines_of text) r = true.
Proof. exact lazy_ideal_ok. Qed.
Print Assumptions C12_lazy_ideal_satisfies_the_property.

Theorem C12_lazy_report_ok_is_the_property : forall f l c t, lrep_ok f (l, c, t) = true ->
  1 <= l <= nlines f /\ c <= String.length (line_text f l) /\ exists a b, line_text f l = (a ++ t ++ b)%string.
Proof. exact lrep_ok_means. Qed.
Print Assumptions C12_lazy_report_ok_is_the_property.

(* str.splitlines (byte-level image on UTF-8 text) and the lines of the file coincide when LF is the only line boundary *)
Theorem C12_splitlines_agrees_on_lf_only_text : forall s, only_lf s = true -> py_splitlines s = lines_of s.
Proof. exact splitlines_only_lf. Qed.
Print Assumptions C12_splitlines_agrees_on_lf_only_text.

(* partial (the full statement is C12_lazy_ideal_satisfies_the_property): the faithful scanner - whatever splitter the source
   uses - satisfies the property on every text whose only line boundary is LF *)
Theorem C12_lazy_confined_partial : forall find text r, find_sound find -> only_lf text = true ->
  In r (lazy_scan true find text) -> lrep_ok (lines_of text) r = true.
Proof. exact lazy_actual_ok_partial. Qed.
Print Assumptions C12_lazy_confined_partial.

Theorem C12_lazy_orphaned_is_file_level : forall f, f <> [] -> lazy_orphan_ok f = true.
Proof. exact lazy_orphan_position. Qed.
Print Assumptions C12_lazy_orphaned_is_file_level.

Theorem C12_lazy_judge_is_sound : forall tbl text impl b1 b2 b3 b4, judge_lazy tbl text impl = [b1; b2; b3; b4] ->
  (b1 = true -> impl = lazy_scan true (table_find tbl) text)
  /\ (b2 = true -> impl = lazy_scan false (table_find tbl) text)
  /\ (b3 = true -> forall r, In r impl -> lrep_ok (lines_of text) r = true).
Proof. exact judge_lazy_sound. Qed.
Print Assumptions C12_lazy_judge_is_sound.

(* non-vacuity: a module docstring that mentions a directive (not reported), a directive after it (reported at its own line,
   1-based column), a docstring line that closes and reopens nothing; the oracle here finds "# noqa" *)
Definition ex_lazy_text : string := text_of [""""""""; "Use # noqa sparingly."; """"""""; "import os  # noqa"; "x = 1"].
Definition ex_lazy_find : string -> list hit := table_find [("import os  # noqa", [(11, "# noqa")]); ("Use # noqa sparingly.", [(4, "# noqa sparingly.")])].
Example C12_lazy_nonvacuous :
  lazy_scan false ex_lazy_find ex_lazy_text = [(4, 12, "# noqa")]
  /\ lazy_scan true ex_lazy_find ex_lazy_text = [(4, 12, "# noqa")]
  /\ only_lf ex_lazy_text = true
  /\ forallb (lrep_ok (lines_of ex_lazy_text)) (lazy_scan false ex_lazy_find ex_lazy_text) = true.
Proof. vm_compute. repeat split; reflexivity. Qed.

(* ---------------------------------------------------------------- E. renderer bookkeeping, judge *)
Theorem C12_renderer_records_point_at_headers : forall it unit level pre post r,
  In r (rrecs unit level (List.length pre) it) -> points_at (pre ++ rlines unit level it ++ post) r.
Proof. exact render_records_point_at_headers. Qed.
Print Assumptions C12_renderer_records_point_at_headers.

Theorem C12_recorded_positions_satisfy_the_property : forall items unit r,
  In r (rrecs_list unit 0 0 items) ->
  let file := flat_map (rlines unit 0) items in
  let '(line, col, h) := r in
  line_ok file line = true /\ col_ok file line col = true /\ occurs h (line_text file line) = true.
Proof. exact recorded_position_ok. Qed.
Print Assumptions C12_recorded_positions_satisfy_the_property.

Theorem C12_occurs_is_substring : forall n h, occurs n h = true <-> exists a b, h = (a ++ n ++ b)%string.
Proof. exact occurs_spec. Qed.
Print Assumptions C12_occurs_is_substring.

Theorem C12_judge_is_sound : forall f cs r, spec_ok f cs r = true ->
  1 <= r_line r <= nlines f
  /\ r_col r <= String.length (line_text f (r_line r))
  /\ (forall s, In s (r_quoted r) -> exists a b, line_text f (r_line r) = (a ++ s ++ b)%string)
  /\ (r_hdrs r <> [] -> exists h, In h (r_hdrs r) /\ occurs h (line_text f (r_line r)) = true)
  /\ (r_recorded r = true -> exists c, In c cs /\ k_builder c = r_builder r /\ (r_key r = "" \/ k_key c = r_key r) /\ r_line r = k_hrow c + 1).
Proof. exact spec_ok_sound. Qed.
Print Assumptions C12_judge_is_sound.

(* non-vacuity: a three-line TypeScript file with a decorated class and a method; the ideal model reports the class at
   the `class` line and the method at its own position, both inside the file; a report there is accepted by the judge and is
   what the faithful model predicts *)
Definition ex_file : lfile := ["@Dec"; "class DataHandler { m() { if (a) {"; "  b(); } } }"].
Definition ex_cons : list construct := [K "srp.ts" "DataHandler" 1 0 0 0; K "nesting.ts" "m" 1 20 1 20].
Example C12_nonvacuous :
  forallb (wf_construct ex_file) ex_cons = true
  /\ map (fun c => (model_line loc_ideal c, model_col loc_ideal ex_file c)) ex_cons = [(2, 0); (2, 20)]
  /\ judge loc_actual ex_file ex_cons [R "srp.ts" "DataHandler" 2 0 ["DataHandler"] ["class "] true]
     = [[true; true; true; true; true; true; true; true; true]].
Proof. vm_compute. repeat split; reflexivity. Qed.
