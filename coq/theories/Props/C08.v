(* Props/C08.v — property C08 (results depend only on current file contents and config, not on order or history).
   Only statements closed by `exact <lemma>` and their Print Assumptions.
   The model (Model/OrchHist.v) is parametric in the rules: V is the type of violations, perfile what the rules'
   check() returns for a file version, rep_blocks / rep_consts / rep_st the cross-file reports of DRYRule and
   StringlyTypedRule over an evidence list, hard_excl / ignored / in_dir path predicates.  All theorems hold for
   every choice of these parameters. *)
From Coq Require Import Permutation.
From TL Require Import Lib.Base Lib.GenTypes Gen.OrchHistGen Model.OrchHist Model.OrchHistRun
     Proofs.OrchHistBase Proofs.OrchHistMain Model.OrchConsts Proofs.OrchConsts.

(* 1. History independence.  For every quirk vector with the four remaining state flags off (bare lint_file evidence, ignore-parser reuse, and the two
      sticky configurations of DRYRule and FilePlacementRule) (the DRY storage is reset by finalize() since fix 8b82489: read from the source, no flag needed), every initial file system and
      every admissible history of lint calls (file / file list / directory / Linter.lint) interleaved with edits,
      deletions, additions, the construction of a new Linter for the same root in the same process and the reloading of the
      configuration file into the live object: the i-th call
      returns exactly what a fresh object (in a fresh process) returns on the file system as it is at that moment.
      Admissible (hist_synced): configuration is read when an object is built, so no lint call is made between a change
      of the ignore file and the construction of the next Linter, nor between a change of the configuration file and the next
      construction / reload.  Rule behaviour is a function of (path, content, configuration in force when the file was checked). *)
Theorem C08_history_independent :
  forall V perfile perfile_fp rep_blocks rep_consts rep_st hard_excl ignored ign_path cfg_path in_dir q fs0 h,
  q_lintfile_leaves_evidence q = false -> q_ignore_parser_reused q = false ->
  q_fp_config_sticky q = false -> q_dry_config_sticky q = false ->
  hist_synced ign_path cfg_path false false h = true ->
  snd (run V perfile perfile_fp rep_blocks rep_consts rep_st hard_excl ignored ign_path cfg_path in_dir q (mk_init ign_path cfg_path fs0, fs0) h)
  = fresh_run V perfile perfile_fp rep_blocks rep_consts rep_st hard_excl ignored ign_path cfg_path in_dir q fs0 h.
Proof. exact history_independent. Qed.
Print Assumptions C08_history_independent.

(* ... and for EVERY quirk vector, in particular the one claimed for the current tree (partial: the full statement is the
   theorem above): histories without bare Orchestrator.lint_file calls, without rebuilding the Linter in the same
   process and without reloading the configuration of a live object - directory / file-list runs and Linter.lint, as the CLI and the documented API usage make them. *)
Theorem C08_history_independent_faithful_partial :
  forall V perfile perfile_fp rep_blocks rep_consts rep_st hard_excl ignored ign_path cfg_path in_dir q fs0 h,
  forallb (fun o => negb (bare_single q o)) h = true -> forallb (fun o => negb (is_new_linter o)) h = true ->
  forallb (fun o => negb (is_reload o)) h = true ->
  hist_synced ign_path cfg_path false false h = true ->
  snd (run V perfile perfile_fp rep_blocks rep_consts rep_st hard_excl ignored ign_path cfg_path in_dir q (mk_init ign_path cfg_path fs0, fs0) h)
  = fresh_run V perfile perfile_fp rep_blocks rep_consts rep_st hard_excl ignored ign_path cfg_path in_dir q fs0 h.
Proof. exact history_independent_faithful. Qed.
Print Assumptions C08_history_independent_faithful_partial.

(* Linter.lint(file) is no bare single-file call any more (fix f7c62f4: it goes through lint_files) *)
Theorem C08_api_file_call_finalizes : forall q p, bare_single q (ApiLint (TFile p)) = false.
Proof. exact api_file_call_finalizes. Qed.
Print Assumptions C08_api_file_call_finalizes.

(* 2. Order independence.  If the duplicate-code and stringly-typed reports are insensitive to the order of
      their evidence, then permuting the file list of any call and the order in which any directory is walked
      permutes the result of every call of the history (per origin: per-file, blocks, constants, stringly) - for every quirk
      vector: the duplicate-constant report sees its evidence in canonical order since fix 5ce39e3 (read from the source). *)
Theorem C08_order_independent :
  forall V perfile perfile_fp rep_blocks rep_consts rep_st hard_excl ignored ign_path cfg_path in_dir,
  (forall k l l' a a', Permutation l l' -> Permutation a a' -> Permutation (rep_blocks k l a) (rep_blocks k l' a')) ->
  (forall l l', Permutation l l' -> Permutation (rep_st l) (rep_st l')) ->
  forall q fs0 h h',
  Forall2 op_perm h h' ->
  Forall2 (out_perm V)
    (snd (run V perfile perfile_fp rep_blocks rep_consts rep_st hard_excl ignored ign_path cfg_path in_dir q (mk_init ign_path cfg_path fs0, fs0) h))
    (snd (run V perfile perfile_fp rep_blocks rep_consts rep_st hard_excl ignored ign_path cfg_path in_dir q (mk_init ign_path cfg_path fs0, fs0) h')).
Proof. exact order_independent. Qed.
Print Assumptions C08_order_independent.

(* 3. Both together: results are a function of the current file system and the call alone. *)
Theorem C08_results_depend_on_current_state_only :
  forall V perfile perfile_fp rep_blocks rep_consts rep_st hard_excl ignored ign_path cfg_path in_dir,
  (forall k l l' a a', Permutation l l' -> Permutation a a' -> Permutation (rep_blocks k l a) (rep_blocks k l' a')) ->
  (forall l l', Permutation l l' -> Permutation (rep_st l) (rep_st l')) ->
  forall q fs0 h h',
  q_lintfile_leaves_evidence q = false -> q_ignore_parser_reused q = false ->
  q_fp_config_sticky q = false -> q_dry_config_sticky q = false -> hist_synced ign_path cfg_path false false h = true ->
  Forall2 op_perm h h' ->
  Forall2 (out_perm V)
    (snd (run V perfile perfile_fp rep_blocks rep_consts rep_st hard_excl ignored ign_path cfg_path in_dir q (mk_init ign_path cfg_path fs0, fs0) h'))
    (fresh_run V perfile perfile_fp rep_blocks rep_consts rep_st hard_excl ignored ign_path cfg_path in_dir q fs0 h).
Proof. exact results_depend_on_current_state_only. Qed.
Print Assumptions C08_results_depend_on_current_state_only.

Theorem C08_permuted_results_are_permutations : forall V a b, out_perm V a b -> Permutation (out_all a) (out_all b).
Proof. exact out_perm_all. Qed.
Print Assumptions C08_permuted_results_are_permutations.

(* the canonical evidence order used when the constants flag is off is a function of the evidence multiset *)
Theorem C08_canonical_order : forall l l', Permutation l l' -> fv_sort l = fv_sort l' /\ Permutation (fv_sort l) l.
Proof. intros l l' H. split; [exact (fv_sort_perm_eq l l' H)|exact (fv_sort_perm l)]. Qed.
Print Assumptions C08_canonical_order.

(* 5. In the model, lint operations never change the file system (the implementation's freedom from side effects
      is observed by snapshots, not proved). *)
Theorem C08_lint_ops_preserve_fs :
  forall V perfile perfile_fp rep_blocks rep_consts rep_st hard_excl ignored ign_path cfg_path in_dir q st fs o,
  lint_op o = true ->
  snd (fst (step V perfile perfile_fp rep_blocks rep_consts rep_st hard_excl ignored ign_path cfg_path in_dir q (st, fs) o)) = fs.
Proof. exact lint_ops_preserve_fs. Qed.
Print Assumptions C08_lint_ops_preserve_fs.

(* 6. The duplicate-constant report (find_constant_groups: exact groups, then a union-find over every pair of names that
      match - equal, or near-equal by words / edit distance) puts two names into one group exactly when they are connected
      in the match graph, for every list of names, every symmetric match predicate and either direction of union
      (Model/OrchConsts.v transcribes the source statement by statement; its shape and the direction of union are
      regenerated on every run); so the partition into groups does not depend on the order in which the files, hence
      the names, reach the rule - chains A~B~C with A not near C included. *)
Theorem C08_constant_groups_are_match_components :
  forall m names dir, (forall a b, m a b = m b a) ->
  forall a b, In a names -> In b names ->
  (uf_find (uf_run dir m names) a = uf_find (uf_run dir m names) b <-> conn m names a b).
Proof. exact same_root_iff_connected. Qed.
Print Assumptions C08_constant_groups_are_match_components.

Theorem C08_constant_grouping_order_independent :
  forall dir dir' m names names',
  (forall a b, m a b = m b a) -> Permutation names names' ->
  forall a b, In a names -> In b names ->
  (uf_find (uf_run dir m names) a = uf_find (uf_run dir m names) b
   <-> uf_find (uf_run dir' m names') a = uf_find (uf_run dir' m names') b).
Proof. exact grouping_order_independent. Qed.
Print Assumptions C08_constant_grouping_order_independent.

(* ... and the group reported under a root consists of exactly the names with that root, in the order of the names
   (_build_merged_groups; gfind = first group with that key, nonempty l = None for [] and Some l otherwise) *)
Theorem C08_constant_group_members :
  forall dir m names r,
  gfind r (merged_groups dir m names) = nonempty (filter (fun n => uf_find (uf_run dir m names) n =? r) names).
Proof. exact merged_group_members. Qed.
Print Assumptions C08_constant_group_members.

(* non-vacuity: the chain 0 ~ 1 ~ 2 (0 not near 2) with the middle name first, last, and in between: one group of three in
   every order (the root and the member order differ, the partition does not); name 3 stays alone *)
Example C08_constant_chain_grouped_in_every_order :
  const_groups (tbl_match [(0, 1); (1, 2)]) [1; 0; 2; 3] = [(2, [1; 0; 2]); (3, [3])]
  /\ const_groups (tbl_match [(0, 1); (1, 2)]) [0; 2; 3; 1] = [(1, [0; 2; 1]); (3, [3])]
  /\ const_groups (tbl_match [(0, 1); (1, 2)]) [3; 0; 1; 2] = [(3, [3]); (2, [0; 1; 2])].
Proof. vm_compute. repeat split; reflexivity. Qed.

(* non-vacuity: a history with edits and deletions whose calls report cross-file findings (symbolic rule instance) *)
Definition ex_dirs : list (nat * list nat) := [(0, [0; 1; 2; 8; 9]); (1, [2])].
Definition ex_ign : list (nat * list nat) := [(0, []); (5, [1])].    (* version 4 of the ignore file (path 9) ignores path 1 *)
(* path 8 is the configuration file (versions 0 and 1), path 9 the ignore file; a file version is content * 8 + configuration key *)
Definition ex_hist : list op :=
  [ApiLint (TDir 0 [2; 0; 1]); Delete 2; LintFile 0; Add 9 4; NewLinter; Edit 8 1; ReloadConfig; LintFiles [1; 0]].
Example C08_nonvacuous :
  hist_synced 9 8 false false ex_hist = true /\
  map out_all (sym_run [] ex_ign 9 8 ex_dirs ideal [(0, 0); (1, 1); (2, 2); (8, 0)] ex_hist)
  = [ [TPer 2 (Some 17); TFp 2 (Some 17); TPer 0 (Some 1); TFp 0 (Some 1); TPer 1 (Some 9); TFp 1 (Some 9);
       TRep 0 3 1 [(2, 17); (0, 1); (1, 9)]; TRep 1 0 1 [(0, 1); (1, 9); (2, 17)]; TRep 2 0 0 [(2, 17); (0, 1); (1, 9)]];
      []; [TPer 0 (Some 1); TFp 0 (Some 1)]; []; []; []; [];
      [TPer 0 (Some 2); TFp 0 (Some 2); TRep 0 1 2 [(0, 2)]; TRep 1 0 2 [(0, 2)]; TRep 2 0 0 [(0, 2)]] ].
Proof. vm_compute. split; reflexivity. Qed.
