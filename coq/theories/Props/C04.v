(* Props/C04.v — property C04 (suppression directives silence exactly what they name).
   Only statements closed by `exact <lemma>` and their Print Assumptions.
   Model: Model/Ignore.v (should_ignore = IgnoreDirectiveParser.should_ignore_violation over the file's bytes, literals from
   Gen/IgnoreGen.v); specification: Model/IgnoreSpec.v (abstract files, render, spec, the domain predicates). *)
From TL Require Import Lib.Base Lib.GenTypes Gen.IgnoreGen Model.PyStr Model.Ignore Model.IgnoreSpec Model.IgnoreRun
     Actual.IgnoreActual Proofs.IgnoreMain Proofs.IgnoreCor Proofs.IgnoreRules Proofs.IgnorePipes Proofs.IgnoreLines Proofs.IgnoreRegress.
From TL Require Model.CollectStr Model.CollectSpec Model.IgnorePat Actual.IgnorePatActual Proofs.CollectIgnoreStr Proofs.IgnorePatFacts.

(* 1. Main theorem.  For every quirk vector whose two remaining deviating flags are off (flags_off: q_splitlines_unicode,
      q_start_rules_from_code; the other five flags - repaired by the fix: commits b7d1dc0, 71ade39, 9b79df3 - may read the source's own
      tables and fallbacks or the ideal ones), every abstract file of the domain (any number and mix of
      same-line / next-line / block / file-level directives in either comment style, arbitrary code lines not containing the
      word "ignore"), every code line v and every non-empty rule id r: the model suppresses (v, r) iff a directive whose scope
      contains v names r (or the file matches a repository-level pattern). *)
Theorem C04_suppression_exact : forall q repo a v r,
  flags_off q -> file_ok a = true -> target_ok a v = true -> nonempty r = true ->
  should_ignore q repo (render a) v r = spec repo a v r.
Proof. exact exact_off. Qed.
Print Assumptions C04_suppression_exact.

(* 2. Confinement (partial: the full statement is 1).  Under ANY vector - in particular the one claimed for the current tree -
      the same equality holds on every input that avoids the defect class of each flag that is on (Model/IgnoreSpec.v: avoids). *)
Theorem C04_suppression_exact_partial : forall q repo a v r,
  file_ok a = true -> target_ok a v = true -> nonempty r = true -> avoids q a = true ->
  should_ignore q repo (render a) v r = spec repo a v r.
Proof. exact should_ignore_exact. Qed.
Print Assumptions C04_suppression_exact_partial.

(* 2b. The vector claimed for the current tree: exact on every file without str.splitlines' extra boundaries and without a
       bracketed rule list on a block start (the two defects still listed as known). *)
Theorem C04_current_tree_exact : forall repo a v r,
  file_ok a = true -> target_ok a v = true -> nonempty r = true -> avoids ignore_actual a = true ->
  should_ignore ignore_actual repo (render a) v r = spec repo a v r.
Proof. exact (should_ignore_exact ignore_actual). Qed.
Print Assumptions C04_current_tree_exact.

(* 3. Each directive form removes exactly the violations of the named rules in its scope (one directive, other lines plain code). *)
Theorem C04_same_line_exact : forall q pre c st n post v r, flags_off q ->
  forallb is_plain pre = true -> forallb is_plain post = true ->
  file_ok (pre ++ LSame c st n :: post) = true -> target_ok (pre ++ LSame c st n :: post) v = true -> nonempty r = true ->
  should_ignore q false (render (pre ++ LSame c st n :: post)) v r = (v =? S (List.length pre)) && named (bracket_rules n) r.
Proof. exact same_line_exact. Qed.
Print Assumptions C04_same_line_exact.

Theorem C04_next_line_exact : forall q pre ind st n post v r, flags_off q ->
  forallb is_plain pre = true -> forallb is_plain post = true ->
  file_ok (pre ++ LNext ind st n :: post) = true -> target_ok (pre ++ LNext ind st n :: post) v = true -> nonempty r = true ->
  should_ignore q false (render (pre ++ LNext ind st n :: post)) v r = (v =? S (S (List.length pre))) && named (bracket_rules n) r.
Proof. exact next_line_exact. Qed.
Print Assumptions C04_next_line_exact.

Theorem C04_block_exact : forall q pre ind st br n mid ind' st' post v r, flags_off q ->
  forallb is_plain pre = true -> forallb is_plain mid = true -> forallb is_plain post = true ->
  file_ok (pre ++ LStart ind st br n :: mid ++ LEnd ind' st' :: post) = true ->
  target_ok (pre ++ LStart ind st br n :: mid ++ LEnd ind' st' :: post) v = true -> nonempty r = true ->
  should_ignore q false (render (pre ++ LStart ind st br n :: mid ++ LEnd ind' st' :: post)) v r =
  (S (List.length pre) <? v) && (v <=? S (List.length pre) + List.length mid) && named (start_rules br n) r.
Proof. exact block_exact_scope. Qed.
Print Assumptions C04_block_exact.

Theorem C04_file_level_exact : forall q pre st n post v r, flags_off q ->
  forallb is_plain pre = true -> forallb is_plain post = true ->
  file_ok (pre ++ LFile st n :: post) = true -> target_ok (pre ++ LFile st n :: post) v = true -> nonempty r = true ->
  should_ignore q false (render (pre ++ LFile st n :: post)) v r = (List.length pre <? 10) && named (bracket_rules n) r.
Proof. exact file_level_directive_exact. Qed.
Print Assumptions C04_file_level_exact.

(* 4. Directives naming other rules, anywhere, change nothing. *)
Theorem C04_other_rule_noop : forall q a v r, flags_off q -> file_ok a = true -> target_ok a v = true -> nonempty r = true ->
  forallb (fun l => negb (line_names l r)) a = true -> should_ignore q false (render a) v r = false.
Proof. exact unnamed_rule_untouched. Qed.
Print Assumptions C04_other_rule_noop.

(* 5. The # and // comment styles are interchangeable, line by line. *)
Theorem C04_comment_style_interchangeable : forall q f repo a v r,
  q_splitlines_unicode q = false -> q_start_rules_from_code q = false ->
  file_ok a = true -> target_ok a v = true -> nonempty r = true ->
  should_ignore q repo (render (map (restyle f) a)) v r = should_ignore q repo (render a) v r.
Proof. exact style_interchangeable. Qed.
Print Assumptions C04_comment_style_interchangeable.

(* 6. Rule-name spellings: over the registry of rule ids found in the source, every documented spelling of a rule (full id,
      linter prefix, prefix.*, deprecated alias with its prefix forms; lower, upper and mixed case) names it; no spelling of an
      unrelated linter does; matching ignores letter case altogether; "*" names every rule. *)
Theorem C04_rule_spellings_match : forallb (fun r => forallb (rule_matches r) (spellings r)) registry_rule_ids = true.
Proof. exact rule_spellings_match. Qed.
Print Assumptions C04_rule_spellings_match.

Theorem C04_other_linters_do_not_match :
  forallb (fun r => forallb (fun r' => negb (unrelated r r') || forallb (fun x => negb (rule_matches r x)) (spellings r'))
                            registry_rule_ids) registry_rule_ids = true.
Proof. exact other_linters_do_not_match. Qed.
Print Assumptions C04_other_linters_do_not_match.

Theorem C04_alias_names_only_its_rule :
  forallb (fun kv => forallb (fun r => Bool.eqb (rule_matches r (fst kv)) (String.eqb r (snd kv))) registry_rule_ids) rule_id_aliases = true.
Proof. exact alias_names_only_its_rule. Qed.
Print Assumptions C04_alias_names_only_its_rule.

Theorem C04_rule_matches_any_case : forall r r' x x', lower r = lower r' -> lower x = lower x' -> rule_matches r x = rule_matches r' x'.
Proof. exact rule_matches_any_case. Qed.
Print Assumptions C04_rule_matches_any_case.

Theorem C04_star_names_all : forall r, rule_matches r "*" = true.
Proof. exact star_names_all. Qed.
Print Assumptions C04_star_names_all.

(* 7. What the correspondence check evaluates (a fast path that skips lines without the key word) is the model. *)
Theorem C04_judge_evaluates_model : forall c content qs,
  results c content qs = map (fun x : query => let '(v, r, p) := x in suppressed (fst c) (if snd c then p else PShared) content v r) qs.
Proof. exact results_is_model. Qed.
Print Assumptions C04_judge_evaluates_model.

(* 8. The pipeline table claimed per linter agrees with the generated list of packages that reference the shared parser. *)
Theorem C04_pipeline_table_consistent :
  forallb (fun p => smem p linter_packages && negb (smem p shared_parser_users)) (no_inline_support ++ own_line_check_only) = true
  /\ forallb (fun p => smem p shared_parser_users) ["magic_numbers"; "print_statements"; "nesting"; "srp"; "performance"; "collection_pipeline"; "stateless_class"] = true
  /\ forallb (fun p => uses_shared (pipeline_of p "py") && uses_shared (pipeline_of p "ts") && uses_shared (pipeline_of p "rs"))
             ["magic_numbers"; "print_statements"; "nesting"; "srp"; "performance"; "collection_pipeline"; "stateless_class"] = true
  /\ forallb (fun p => negb (uses_shared (pipeline_of p "py"))) (no_inline_support ++ own_line_check_only) = true.
Proof. exact pipeline_table_consistent. Qed.
Print Assumptions C04_pipeline_table_consistent.

(* 9. Regressions: the witnesses of the findings repaired by fix: b7d1dc0, 71ade39, 9b79df3 now meet the specification under the
      vector claimed for the current tree (they were `_refuted` theorems before the repair). *)
Theorem C04_next_line_hash_only_repaired : repaired w_next_slash 2 "magic-numbers.numeric-literal" true.
Proof. exact next_line_hash_only_repaired. Qed.
Print Assumptions C04_next_line_hash_only_repaired.

Theorem C04_file_hash_only_repaired : repaired w_file_slash 2 "nesting.excessive-depth" true.
Proof. exact file_hash_only_repaired. Qed.
Print Assumptions C04_file_hash_only_repaired.

Theorem C04_block_end_before_repaired : repaired w_before_block 1 "magic-numbers.numeric-literal" false.
Proof. exact block_end_before_repaired. Qed.
Print Assumptions C04_block_end_before_repaired.

Theorem C04_bare_line_unsupported_repaired : repaired w_bare_line 1 "nesting.excessive-depth" true.
Proof. exact bare_line_unsupported_repaired. Qed.
Print Assumptions C04_bare_line_unsupported_repaired.

Theorem C04_bare_file_unsupported_repaired : repaired w_bare_file 2 "nesting.excessive-depth" true.
Proof. exact bare_file_unsupported_repaired. Qed.
Print Assumptions C04_bare_file_unsupported_repaired.

(* 10. Linter-level `ignore:` lists (matcher kinds of Model/IgnorePat.v; which linter uses which comes from Gen.linter_matchers):
       a `never` linter honours no pattern; the substring test is contained in the two richer matchers; a substring matcher
       cannot see component boundaries.  (That the matcher models - PurePath.match on top of the fnmatch model - behave like the
       implementation is validated by the pattern stream, not proved.) *)
Theorem C04_never_ignores_nothing : forall path pats, IgnorePat.linter_file_ignored IgnorePat.MNever path pats = false.
Proof. exact IgnorePatFacts.never_ignores_nothing. Qed.
Print Assumptions C04_never_ignores_nothing.

Theorem C04_sub_below_others : forall path pat, IgnorePat.lmatch IgnorePat.MSub path pat = true -> CollectStr.path_norm path = path ->
  IgnorePat.lmatch IgnorePat.MPathOrSub path pat = true /\ IgnorePat.lmatch IgnorePat.MFnmOrSub path pat = true.
Proof. exact IgnorePatFacts.sub_below_others. Qed.
Print Assumptions C04_sub_below_others.

Theorem C04_sub_ignores_boundaries : forall a pat b, IgnorePat.lmatch IgnorePat.MSub (a ++ pat ++ b) pat = true.
Proof. exact IgnorePatFacts.sub_ignores_boundaries. Qed.
Print Assumptions C04_sub_ignores_boundaries.

(* 11. Linters whose suppression is the shared parser and nothing else - nesting, srp, performance and the two cross-file linters
       dry and stringly-typed (whose violation filters the translator shape-checks: Gen.xfile_shared_filters) - suppress exactly what
       the specification says, for every quirk vector, in particular the one claimed for the current tree, on every file of the
       domain that avoids its defect classes.  (dry's own `# dry: ignore-*` comments are C03's subject.) *)
Theorem C04_shared_only_linters_exact : forall q pkg lang a v r, In pkg shared_only ->
  file_ok a = true -> target_ok a v = true -> nonempty r = true -> avoids q a = true ->
  suppressed q (pipeline_of pkg lang) (render a) v r = spec false a v r.
Proof. exact shared_only_linters_exact. Qed.
Print Assumptions C04_shared_only_linters_exact.

Theorem C04_shared_only_table :
  forallb (fun p => smem p shared_parser_users) shared_only = true /\ forallb (fun p => smem p shared_only) xfile_shared_filters = true.
Proof. exact shared_only_table. Qed.
Print Assumptions C04_shared_only_table.

(* 12. file-header.  Violations found in an existing header pass through the shared parser, the linter's own file-level test (the
       shared marker and rule-list functions plus two custom needles) and a custom same-line needle: on every file of the domain
       that is exactly the specification.  The "no header at all" violation bypasses the violation filter: it honours the
       file-level directives of the header window and nothing else, on whatever line it is reported (refuted against the
       specification in Props/C04Known.v). *)
Theorem C04_file_header_filtered_exact : forall q a v r,
  file_ok a = true -> target_ok a v = true -> nonempty r = true -> avoids q a = true ->
  suppressed q (pipeline_of "file_header" "py") (render a) v r = spec false a v r.
Proof. exact (fun q a v r => file_header_filtered_exact q a v r). Qed.
Print Assumptions C04_file_header_filtered_exact.

Theorem C04_file_header_missing_file_level_only : forall q a v r,
  file_ok a = true -> nonempty r = true -> avoids q a = true ->
  suppressed q (pipeline_of "file_header_missing" "py") (render a) v r = spec_file a r.
Proof. exact (fun q a v r => file_header_missing_exact q a v r). Qed.
Print Assumptions C04_file_header_missing_file_level_only.

(* 13. magic-numbers and print-statements in files with `#` comments (.py, .rs): after the shared parser they apply a generic same-line
       test (`# thailint: ignore` not followed by a bracket before the next `#`) or accept `# noqa`.  On every file of the domain that
       does not contain the word "noqa" (the linters' other suppression comment, not a thailint directive) this adds nothing: the
       pipeline suppresses exactly what the specification says.  (The `//` variant of the TypeScript files is validated only.) *)
Theorem C04_generic_hash_pipeline_exact : forall q a v r,
  file_ok a = true -> target_ok a v = true -> nonempty r = true -> avoids q a = true -> noqa_free a = true ->
  suppressed q (PSharedGeneric magic_generic_hash) (render a) v r = spec false a v r.
Proof. exact generic_hash_pipeline_exact. Qed.
Print Assumptions C04_generic_hash_pipeline_exact.

Theorem C04_generic_hash_table : forall lang, String.eqb lang "ts" = false ->
  pipeline_of "magic_numbers" lang = PSharedGeneric magic_generic_hash /\ pipeline_of "print_statements" lang = PSharedGeneric print_generic_hash
  /\ print_generic_hash = magic_generic_hash.
Proof. exact generic_tables. Qed.
Print Assumptions C04_generic_hash_table.

(* 14. collection-pipeline and stateless-class: after the shared parser they run their own file-level test over the header window and
       their own same-line test (both on the lowered text, with their own bracket regex and comma split).  On every file of the
       domain these add nothing: the pipeline suppresses exactly what the specification says.  (Rests on: str.lower commutes with
       strip and split(","), and rule matching ignores letter case.) *)
Theorem C04_tl_pipeline_exact : forall q a v r,
  file_ok a = true -> target_ok a v = true -> nonempty r = true -> avoids q a = true ->
  suppressed q (PSharedTl tl_needles) (render a) v r = spec false a v r.
Proof. exact tl_pipeline_exact. Qed.
Print Assumptions C04_tl_pipeline_exact.

Theorem C04_tl_table : forall lang,
  pipeline_of "collection_pipeline" lang = PSharedTl tl_needles /\ pipeline_of "stateless_class" lang = PSharedTl tl_needles.
Proof. exact tl_table. Qed.
Print Assumptions C04_tl_table.

(* 15. magic-numbers and print-statements in files with `//` comments (.ts): after the shared parser, a needle spelling the linter's own
       name in brackets, the generic test (`// thailint: ignore` not followed by a bracket before the next `//`) or `// noqa`.  For every
       rule the linter's own name names, on noqa-free files of the domain, that is exactly the specification. *)
Theorem C04_magic_ts_pipeline_exact : forall q a v r, rule_matches r "magic-numbers" = true ->
  file_ok a = true -> target_ok a v = true -> nonempty r = true -> avoids q a = true -> noqa_free a = true ->
  suppressed q (pipeline_of "magic_numbers" "ts") (render a) v r = spec false a v r.
Proof. exact magic_ts_pipeline_exact. Qed.
Print Assumptions C04_magic_ts_pipeline_exact.

Theorem C04_print_ts_pipeline_exact : forall q a v r, rule_matches r "print-statements" = true ->
  file_ok a = true -> target_ok a v = true -> nonempty r = true -> avoids q a = true -> noqa_free a = true ->
  suppressed q (pipeline_of "print_statements" "ts") (render a) v r = spec false a v r.
Proof. exact print_ts_pipeline_exact. Qed.
Print Assumptions C04_print_ts_pipeline_exact.

(* 16. The exact extent of the finding own_line_check_only[method_property]: on noqa-free files of the domain method-property honours
       ANY same-line directive, whatever it names, and nothing else (no next-line, block or file-level directive). *)
Theorem C04_method_property_own_line_extent : forall q a v r,
  file_ok a = true -> target_ok a v = true -> avoids q a = true -> noqa_free a = true ->
  suppressed q (pipeline_of "method_property" "py") (render a) v r =
  match nth_error a (v - 1) with Some (LSame _ _ _) => true | _ => false end.
Proof. exact (fun q a v r => own_line_pipeline_exact q a v r). Qed.
Print Assumptions C04_method_property_own_line_extent.

(* 17. `*suffix` patterns (`*.generated.py` ...) in a linter-level `ignore:` list, for every absolute normalised path whose components
       contain no `*` and every suffix of literal characters: the linters whose matcher is `Path.match(pattern) or pattern in str(path)`
       (magic-numbers, print-statements, method-property, collection-pipeline: Gen.linter_matchers) silence exactly the files the
       documented glob semantics names; the substring matchers (srp, unwrap-abuse, clone-abuse, blocking-async) never honour such a
       pattern.  (PurePath.match is the model of Model/IgnorePat.v on top of C14's fnmatch model - validated, not proved about CPython.) *)
Theorem C04_linter_suffix_pattern_exact : forall comps s,
  CollectIgnoreStr.comps_ok comps -> IgnorePatFacts.suffix_ok s -> IgnorePatFacts.star_free comps = true ->
  IgnorePat.lmatch IgnorePat.MPathOrSub (String CollectStr.slash (CollectStr.pjoin comps)) (CollectSpec.render (CollectSpec.PSuffix s))
  = CollectSpec.spec_match (CollectSpec.PSuffix s) comps.
Proof. exact IgnorePatFacts.path_or_sub_suffix_exact. Qed.
Print Assumptions C04_linter_suffix_pattern_exact.

Theorem C04_linter_suffix_pattern_never_for_substring : forall comps s, IgnorePatFacts.star_free comps = true ->
  IgnorePat.lmatch IgnorePat.MSub (String CollectStr.slash (CollectStr.pjoin comps)) (CollectSpec.render (CollectSpec.PSuffix s)) = false.
Proof. exact IgnorePatFacts.sub_suffix_never. Qed.
Print Assumptions C04_linter_suffix_pattern_never_for_substring.

Theorem C04_linter_matcher_kinds :
  forallb (fun p => match IgnorePatActual.matcher_of p with IgnorePat.MPathOrSub => true | _ => false end)
          ["magic_numbers"; "print_statements"; "method_property"; "collection_pipeline"] = true
  /\ forallb (fun p => match IgnorePatActual.matcher_of p with IgnorePat.MSub => true | _ => false end)
             ["srp"; "unwrap_abuse"; "clone_abuse"; "blocking_async"] = true
  /\ forallb (fun p => match IgnorePatActual.matcher_of p with IgnorePat.MNever => true | _ => false end)
             ["nesting"; "performance"; "lbyl"; "stateless_class"] = true.
Proof. exact linter_matcher_kinds. Qed.
Print Assumptions C04_linter_matcher_kinds.

(* 18. The exact extent of the findings no_inline_support[...]: for these linters no text whatsoever suppresses anything. *)
Theorem C04_no_inline_support_extent : forall q pkg lang content v r, In pkg no_inline_support ->
  suppressed q (pipeline_of pkg lang) content v r = false.
Proof. exact no_inline_never. Qed.
Print Assumptions C04_no_inline_support_extent.

(* non-vacuity: a file of the domain with all four forms, both styles, a bare directive and spelled-out rule lists, on which the
   specification suppresses some (line, rule) pairs and not others, and on which the FAITHFUL model (the vector claimed for the current
   tree) computes exactly that *)
Definition ex_file : list aline :=
  [LFile Slashes (Names "DRY"); LPlain "import re"; LNext "" Hash (Names "nesting, srp.*"); LPlain "def f(a):";
   LSame "    return 4242" Hash (Names "Magic-Numbers"); LStart "    " Slashes false (Names "print-statements");
   LPlain "    print(a)"; LEnd "    " Slashes; LPlain "    print(a)"; LSame "x = 1" Slashes Bare].
Example C04_nonvacuous :
  file_ok ex_file = true /\ avoids ideal ex_file = true /\ avoids ignore_actual ex_file = true
  /\ map (fun vr => spec false ex_file (fst vr) (snd vr))
         [(4, "nesting.excessive-depth"); (4, "magic-numbers.numeric-literal"); (5, "magic-numbers.numeric-literal"); (5, "nesting.excessive-depth");
          (7, "improper-logging.print-statement"); (9, "improper-logging.print-statement"); (9, "dry.duplicate-code"); (10, "cqs")]
     = [true; false; true; false; true; false; true; true]
  /\ noqa_free ex_file = true
  /\ map (fun vr => should_ignore ignore_actual false (render ex_file) (fst vr) (snd vr))
         [(4, "nesting.excessive-depth"); (4, "magic-numbers.numeric-literal"); (7, "improper-logging.print-statement"); (9, "improper-logging.print-statement");
          (9, "dry.duplicate-code"); (10, "cqs")]
     = [true; false; true; false; true; true].
Proof. vm_compute. repeat split; reflexivity. Qed.
