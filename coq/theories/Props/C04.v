(* placeholder while the harness is brought up *)
From TL Require Import Lib.Base Gen.IgnoreGen Model.PyStr Model.Ignore Model.IgnoreSpec Model.IgnoreRun Actual.IgnoreActual.
