(* Props/C04KnownPat.v — refutations for the linter-level `ignore:` lists: for each matcher kind found in the tree a documented-form
   pattern and a project-relative path on which the matcher (Model/IgnorePat.v) differs from the documented glob semantics
   (Model/CollectSpec.v: spec_match).  The pattern stream of ./check C04 replays such inputs on the implementation. *)
From TL Require Import Lib.Base Gen.IgnoreGen Model.CollectStr Model.Glob Model.Collect Model.CollectSpec Model.IgnorePat Actual.IgnorePatActual.

(* path_or_sub (magic-numbers, print-statements, method-property): `legacy/**` does not reach below the first level ... *)
Theorem C04_linter_pathmatch_refuted :
  pat_ok (PUnder ["legacy"]) = true /\ spec_match (PUnder ["legacy"]) ["legacy"; "deep"; "case.py"] = true
  /\ forallb (fun p => negb (lmatch (matcher_of p) "/proj/legacy/deep/case.py" (render (PUnder ["legacy"])))) ["magic_numbers"; "print_statements"; "method_property"] = true
  (* ... and a file pattern silences every path that merely contains its text *)
  /\ pat_ok (PExact ["case.py"]) = true /\ spec_match (PExact ["case.py"]) ["src"; "showcase.py"] = false
  /\ forallb (fun p => lmatch (matcher_of p) "/proj/src/showcase.py" (render (PExact ["case.py"]))) ["magic_numbers"; "print_statements"; "method_property"] = true.
Proof. vm_compute. repeat split; reflexivity. Qed.

(* sub (srp, unwrap-abuse, clone-abuse, blocking-async): a glob never matches *)
Theorem C04_linter_substring_refuted :
  pat_ok (PSuffix ".rs") = true /\ spec_match (PSuffix ".rs") ["src"; "case.rs"] = true
  /\ forallb (fun p => negb (lmatch (matcher_of p) "/proj/src/case.rs" (render (PSuffix ".rs")))) ["srp"; "unwrap_abuse"; "clone_abuse"; "blocking_async"] = true.
Proof. vm_compute. repeat split; reflexivity. Qed.

(* never (nesting, performance, lbyl) *)
Theorem C04_linter_never_refuted :
  spec_match (PExact ["case.py"]) ["case.py"] = true
  /\ forallb (fun p => negb (lmatch (matcher_of p) "/proj/case.py" (render (PExact ["case.py"])))) ["nesting"; "performance"; "lbyl"] = true.
Proof. vm_compute. repeat split; reflexivity. Qed.
