(* Props/C10Known.v — refutations for the C10 flags claimed `true` in Actual/OrchHistActual.v (symbolic rule
   instance).  Rendered with real files they are in corpus/C10 and replayed on the implementation on every run. *)
From TL Require Import Lib.Base Lib.GenTypes Gen.OrchHistGen Model.OrchHist Model.OrchHistRun Actual.OrchHistActual.

Definition x_dirs : list (nat * list nat) := [(0, [0; 1; 2; 3]); (1, [0; 1]); (2, [2; 3])].
Definition x_fs : fsys := [(0, 0); (1, 1); (2, 2); (3, 3)].
Definition only_api : oquirks := Build_oquirks false false false false true.
Definition only_dry10 : oquirks := Build_oquirks true false false false false.

(* Linter.lint(file) returns no finalize() findings, `thailint <cmd> file` does *)
Theorem C10_api_file_refuted :
  sym_cli [] [] 9 x_dirs only_api x_fs [0] [] <> [sym_api [] [] 9 x_dirs only_api x_fs (TFile 0)]
  /\ sym_cli [] [] 9 x_dirs orch_actual x_fs [0] [] <> [sym_api [] [] 9 x_dirs orch_actual x_fs (TFile 0)].
Proof. split; vm_compute; discriminate. Qed.

(* two directory arguments: the second finalize() reports the first directory's blocks again, the library API on
   each directory does not *)
Theorem C10_cli_two_dirs_refuted :
  sym_cli [] [] 9 x_dirs only_dry10 x_fs [] [(1, [0; 1]); (2, [2; 3])]
  <> map (sym_api [] [] 9 x_dirs only_dry10 x_fs) [TDir 1 [0; 1]; TDir 2 [2; 3]]
  /\ sym_cli [] [] 9 x_dirs orch_actual x_fs [] [(1, [0; 1]); (2, [2; 3])]
  <> map (sym_api [] [] 9 x_dirs orch_actual x_fs) [TDir 1 [0; 1]; TDir 2 [2; 3]].
Proof. split; vm_compute; discriminate. Qed.
