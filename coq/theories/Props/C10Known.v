(* Props/C10Known.v — both C10 findings were repaired (fix commits f7c62f4 and 8b82489): no refutation is left; the old
   witnesses are kept as REGRESSION examples that now meet the specification under the vector claimed for the current tree
   (symbolic rule instance).  Rendered with real files they are in corpus/C10 and must pass on every run. *)
From TL Require Import Lib.Base Lib.GenTypes Gen.OrchHistGen Model.OrchHist Model.OrchHistRun Actual.OrchHistActual.

Definition x_dirs : list (nat * list nat) := [(0, [0; 1; 2; 3]); (1, [0; 1]); (2, [2; 3])].
Definition x_fs : fsys := [(0, 0); (1, 1); (2, 2); (3, 3)].
Definition only_api : oquirks := Build_oquirks false false false false true false false.
Definition only_dry10 : oquirks := Build_oquirks true false false false false false false.

(* q_api_file_no_finalize: Linter.lint(file) and `thailint <cmd> file` return the same, finalize() findings included *)
Example C10_api_file_regression :
  sym_cli [] [] 9 8 x_dirs orch_actual x_fs [0] [] = [sym_api [] [] 9 8 x_dirs orch_actual x_fs (TFile 0)]
  /\ sym_cli [] [] 9 8 x_dirs only_api x_fs [0] [] = [sym_api [] [] 9 8 x_dirs only_api x_fs (TFile 0)]
  /\ sym_cli [] [] 9 8 x_dirs orch_actual x_fs [0] [] = [Build_out [TPer 0 (Some 0); TFp 0 (Some 0)] [TRep 0 1 0 [(0, 0)]] [TRep 1 0 0 [(0, 0)]] [TRep 2 0 0 [(0, 0)]]].
Proof. repeat split; vm_compute; reflexivity. Qed.

(* q_dry_keeps_storage: two directory arguments are reported like Linter.lint on each directory *)
Example C10_cli_two_dirs_regression :
  sym_cli [] [] 9 8 x_dirs orch_actual x_fs [] [(1, [0; 1]); (2, [2; 3])]
  = map (sym_api [] [] 9 8 x_dirs orch_actual x_fs) [TDir 1 [0; 1]; TDir 2 [2; 3]]
  /\ sym_cli [] [] 9 8 x_dirs only_dry10 x_fs [] [(1, [0; 1]); (2, [2; 3])]
  = map (sym_api [] [] 9 8 x_dirs only_dry10 x_fs) [TDir 1 [0; 1]; TDir 2 [2; 3]].
Proof. split; vm_compute; reflexivity. Qed.
