(* Props/C05.v - property C05 (configuration is honoured identically in every format, key spelling, linter and
   CLI override).  Only statements closed by `exact <lemma>` and their Print Assumptions.
   [q] ranges over quirk vectors; [flags_off q] says no listed defect is switched on ([ideal] is one such vector);
   [case_good] : the unit is a documented one and the command is the unit's; [lang_good] : the language is one
   of python / typescript / javascript / rust.  Documents, values, carriers, CLI option lists and source
   measures are arbitrary. *)
From TL Require Import Lib.Base Lib.GenTypes Model.ConfigTypes Gen.ConfigGen Model.Config
     Proofs.ConfigLemmas Proofs.ConfigMain Proofs.ConfigThms Actual.ConfigActual.
From Coq Require Import ZArith.

(* 0. The model of the code (discovery order, --config, normalisation, CLI overrides written into the dict,
      section lookup by the keys found in the source, from_dict resolution, guards) computes exactly what the
      property demands (precedence, either spelling, CLI > language sub-section > section > default, invalid =>
      exit 2, enabled, ignore lists) - same exit status and same number of violations, for all inputs. *)
Theorem C05_run_exact : forall q c,
  flags_off q -> case_good c = true -> lang_good c = true -> run q c = spec c.
Proof. exact run_exact. Qed.
Print Assumptions C05_run_exact.

(* 1. key spelling: after loading, the rule finds the section under the hyphen and the underscore spelling *)
Theorem C05_key_spelling : forall q u body,
  flags_off q -> In u units ->
  find_section (lookup_row q u) (normalize_top [(u, VMap body)]) = Some body
  /\ find_section (lookup_row q u) (normalize_top [(norm_key u, VMap body)]) = Some body.
Proof. exact both_spellings. Qed.
Print Assumptions C05_key_spelling.

Theorem C05_section_any_document : forall q u raw,
  has q (fl "section_not_read" u) = false -> has q (fl "whole_config_fallback" u) = false ->
  match find_section (lookup_row q u) (normalize_top raw) with Some s => s | None => [] end = section_of u raw.
Proof. exact section_any_spelling. Qed.
Print Assumptions C05_section_any_document.

(* the lookup keys read from the source find the section for every unit outside the listed lookup defects
   (re-proved against the regenerated table on every run) *)
Theorem C05_lookup_table_sound : forall u raw,
  In u units -> smem u lookup_defect_units = false ->
  match find_section (match gen_lookup u with (s, ks, _) => (s, ks, false) end) (normalize_top raw)
  with Some s => s | None => [] end = section_of u raw.
Proof. exact lookup_table_sound. Qed.
Print Assumptions C05_lookup_table_sound.

(* 2. carriers: the same document gives the same run in .thailint.yaml, .thailint.json, pyproject.toml and --config *)
Theorem C05_carrier_equivalence : forall q c d pos suf,
  flags_off q -> case_good c = true -> lang_good c = true -> smem suf doc_valid_suffixes = true ->
  run q (with_proj c (only_yaml d)) = run q (with_proj c (only_json d))
  /\ run q (with_proj c (only_yaml d)) = run q (with_proj c (only_pyproject d))
  /\ run q (with_proj c (only_yaml d)) = run q (with_proj c (only_dash pos suf d)).
Proof. exact carrier_equivalence. Qed.
Print Assumptions C05_carrier_equivalence.

(* precedence: .thailint.yaml, then .thailint.json, then pyproject; --config before all; CLI options before the file *)
Theorem C05_yaml_wins : forall q c dy fj fp,
  flags_off q -> case_good c = true -> lang_good c = true ->
  run q (with_proj c {| p_yaml := Doc dy; p_json := fj; p_pyproject := fp; p_dash := None; p_ignore_file := []; p_subdir := false |})
  = run q (with_proj c (only_yaml dy)).
Proof. exact yaml_wins. Qed.
Print Assumptions C05_yaml_wins.

Theorem C05_json_wins : forall q c dj fp,
  flags_off q -> case_good c = true -> lang_good c = true ->
  run q (with_proj c {| p_yaml := Absent; p_json := Doc dj; p_pyproject := fp; p_dash := None; p_ignore_file := []; p_subdir := false |})
  = run q (with_proj c (only_json dj)).
Proof. exact json_wins. Qed.
Print Assumptions C05_json_wins.

Theorem C05_dash_config_wins : forall q c fy fj fp pos suf dd,
  flags_off q -> case_good c = true -> lang_good c = true -> smem suf doc_valid_suffixes = true ->
  spec_discovered {| p_yaml := fy; p_json := fj; p_pyproject := fp; p_dash := None; p_ignore_file := []; p_subdir := false |} <> LErr ->
  run q (with_proj c {| p_yaml := fy; p_json := fj; p_pyproject := fp;
                        p_dash := Some {| d_pos := pos; d_suffix := suf; d_file := Doc dd |}; p_ignore_file := []; p_subdir := false |})
  = run q (with_proj c (only_dash pos suf dd)).
Proof. exact dash_wins. Qed.
Print Assumptions C05_dash_config_wins.

(* an explicit configuration file that is present but says nothing about the unit (empty, comment-only, `{}`, unrelated
   sections only) means all defaults - it does NOT fall back to the project's own configuration files *)
Theorem C05_explicit_empty_config_is_defaults : forall q c fy fj fp pos suf,
  flags_off q -> case_good c = true -> lang_good c = true -> smem suf doc_valid_suffixes = true ->
  spec_discovered {| p_yaml := fy; p_json := fj; p_pyproject := fp; p_dash := None; p_ignore_file := []; p_subdir := false |} <> LErr ->
  run q (with_proj c {| p_yaml := fy; p_json := fj; p_pyproject := fp;
                        p_dash := Some {| d_pos := pos; d_suffix := suf; d_file := Doc [] |}; p_ignore_file := []; p_subdir := false |})
  = run q (with_proj c no_config).
Proof. exact explicit_empty_config_is_defaults. Qed.
Print Assumptions C05_explicit_empty_config_is_defaults.

Theorem C05_explicit_unrelated_config_is_defaults : forall q c fy fj fp pos suf dd,
  flags_off q -> case_good c = true -> lang_good c = true -> smem suf doc_valid_suffixes = true ->
  spec_discovered {| p_yaml := fy; p_json := fj; p_pyproject := fp; p_dash := None; p_ignore_file := []; p_subdir := false |} <> LErr ->
  section_of (c_unit c) dd = [] -> str_list (get "ignore" dd) = [] ->
  run q (with_proj c {| p_yaml := fy; p_json := fj; p_pyproject := fp;
                        p_dash := Some {| d_pos := pos; d_suffix := suf; d_file := Doc dd |}; p_ignore_file := []; p_subdir := false |})
  = run q (with_proj c no_config).
Proof. exact explicit_unrelated_config_is_defaults. Qed.
Print Assumptions C05_explicit_unrelated_config_is_defaults.

Theorem C05_cli_option_wins : forall q u lopts lang opt ovs cfg z,
  flags_off q -> In u units -> In lang all_languages -> ~ In opt all_languages ->
  spec_cli (cmd_of u) ovs opt = Some z ->
  opt_lookup lopts (as_map (get (norm_key u) (apply_overrides q cli_overrides (cmd_of u) ovs cfg))) lang opt
  = Some (VInt z).
Proof. exact cli_option_wins. Qed.
Print Assumptions C05_cli_option_wins.

(* 3. `enabled: false` in the section (either spelling, any carrier) => no violation from the linter *)
Theorem C05_enabled_false_silences : forall q c k raw,
  flags_off q -> case_good c = true -> lang_good c = true ->
  spec_selected c = LDoc k raw ->
  smem "enabled" (doc_lang_opts (c_unit c)) = false ->
  get "enabled" (section_of (c_unit c) raw) = Some (VBool false) ->
  count_of (run q c) = 0.
Proof. exact enabled_false_silences. Qed.
Print Assumptions C05_enabled_false_silences.

(* 4. monotonicity: changing one limit in its permissive direction never adds a violation *)
Theorem C05_limit_monotone : forall opts probes r1 r2 fname ms o z1 z2 up,
  (forall o', o' <> o -> r1 o' = r2 o') -> has_opt opts o = true ->
  o <> "enabled" -> o <> "ignore" ->
  as_int (r1 o) (default_of opts o) = Some z1 -> as_int (r2 o) (default_of opts o) = Some z2 ->
  Forall (fun p => mentions p o = false \/ limit_dir p o = Some up) probes ->
  (if up then (z1 <= z2)%Z else (z2 <= z1)%Z) ->
  unit_body opts probes r2 fname ms <= unit_body opts probes r1 fname ms.
Proof. exact limit_monotone. Qed.
Print Assumptions C05_limit_monotone.

(* every documented limit of the modelled rules has one permissive direction in every probe that reads it - incl. the
   combined probes of srp (one report per class: methods OR lines) and dry (long enough AND often enough) - so
   C05_limit_monotone applies to each of them *)
Theorem C05_limit_directions :
  forallb (fun t => match t with (u, o, up) =>
    has_opt (doc_opts u) o && negb (String.eqb o "enabled") && negb (String.eqb o "ignore")
    && forallb (fun p => negb (mentions p o) || dir_eqb (limit_dir p o) up) (unit_probes u) end)
    [("nesting", "max_nesting_depth", true); ("srp", "max_methods", true); ("srp", "max_loc", true);
     ("dry", "min_duplicate_lines", true); ("dry", "min_occurrences", true);
     ("magic-numbers", "max_small_integer", true); ("method-property", "max_body_statements", false);
     ("stateless-class", "min_methods", true); ("collection-pipeline", "min_continues", true);
     ("stringly-typed", "min_occurrences", true); ("stringly-typed", "min_values_for_enum", true);
     ("stringly-typed", "max_values_for_enum", false)] = true.
Proof. exact F_limits. Qed.
Print Assumptions C05_limit_directions.

Theorem C05_ran_is_body : forall opts gs probes res top fname ms n,
  unit_outcome opts gs probes false false false true res top fname ms = Ran n -> n = unit_body opts probes res fname ms.
Proof. exact spec_ran_is_body. Qed.
Print Assumptions C05_ran_is_body.

Theorem C05_allowed_list_monotone : forall opts res1 res2 ms m o,
  (forall x, zmem x (as_ints (res1 o) (default_of opts o)) = true -> zmem x (as_ints (res2 o) (default_of opts o)) = true) ->
  fires opts res2 ms (PNotIn m o) = true -> fires opts res1 ms (PNotIn m o) = true.
Proof. exact allowed_list_monotone. Qed.
Print Assumptions C05_allowed_list_monotone.

(* 5. a documented-invalid value or an unparsable / missing / unsupported file => exit 2, never defaults *)
Theorem C05_invalid_value_exit_2 : forall q c k raw o cm b,
  flags_off q -> case_good c = true -> lang_good c = true ->
  spec_selected c = LDoc k raw ->
  existsb (String.eqb (c_fname c)) (p_ignore_file (c_proj c) ++ str_list (get "ignore" raw)) = false ->
  In (o, cm, b) (doc_guards (c_unit c)) ->
  bad_value (spec_res c (section_of (c_unit c) raw) o) cm b
  \/ bad_value (spec_res_top c (section_of (c_unit c) raw) o) cm b ->
  run q c = Exit2.
Proof. exact invalid_value_exit_2. Qed.
Print Assumptions C05_invalid_value_exit_2.

Theorem C05_unparsable_exit_2 : forall q c,
  flags_off q -> case_good c = true -> lang_good c = true -> spec_selected c = LErr -> run q c = Exit2.
Proof. exact unparsable_exit_2. Qed.
Print Assumptions C05_unparsable_exit_2.

Theorem C05_selection_errors : forall c,
  (p_yaml (c_proj c) = Unparsable -> spec_selected c = LErr)
  /\ (p_yaml (c_proj c) = Absent -> p_json (c_proj c) = Unparsable -> spec_selected c = LErr)
  /\ (p_yaml (c_proj c) = Absent -> p_json (c_proj c) = Absent -> p_pyproject (c_proj c) = Unparsable -> spec_selected c = LErr)
  /\ (forall d, p_dash (c_proj c) = Some d ->
        d_file d = Absent \/ d_file d = Unparsable \/ smem (d_suffix d) doc_valid_suffixes = false -> spec_selected c = LErr).
Proof. exact selection_errors. Qed.
Print Assumptions C05_selection_errors.

(* 6. the top-level ignore list of the winning carrier and the patterns of .thailintignore silence the linter on a
      matching file *)
Theorem C05_top_level_ignore : forall q c k raw,
  flags_off q -> case_good c = true -> lang_good c = true ->
  spec_selected c = LDoc k raw -> In (c_fname c) (p_ignore_file (c_proj c) ++ str_list (get "ignore" raw)) ->
  run q c = Ran 0.
Proof. exact top_level_ignore_honoured. Qed.
Print Assumptions C05_top_level_ignore.

Theorem C05_subdirectory_irrelevant : forall q c,
  flags_off q -> case_good c = true -> lang_good c = true ->
  run q (with_subdir c true) = run q (with_subdir c false).
Proof. exact subdirectory_irrelevant. Qed.
Print Assumptions C05_subdirectory_irrelevant.

(* 7. the listed defects are confined: the vector claimed for the current tree meets the specification on every
      project configured through .thailint.yaml / .thailint.json, without CLI threshold options, well-typed limits, no
      non-mapping written where a per-language block is expected, for the units none of whose flags is listed (partial:
      the full statement is 0) *)
Theorem C05_actual_partial : forall c,
  unit_clean (c_unit c) = true -> case_good c = true -> lang_good c = true ->
  p_pyproject (c_proj c) = Absent -> p_dash (c_proj c) = None -> c_overrides c = [] -> p_subdir (c_proj c) = false ->
  (forall k raw, spec_selected c = LDoc k raw ->
     no_type_error (doc_opts (c_unit c)) (doc_guards (c_unit c)) (spec_res c (section_of (c_unit c) raw))) ->
  (forall k raw, spec_selected c = LDoc k raw ->
     guard_status (doc_opts (c_unit c)) (doc_guards (c_unit c)) (spec_res_top c (section_of (c_unit c) raw)) = StOk) ->
  (forall k raw, spec_selected c = LDoc k raw -> forall l, nonmap (get l (section_of (c_unit c) raw)) = false) ->
  run config_actual c = spec c.
Proof. exact actual_partial. Qed.
Print Assumptions C05_actual_partial.

(* 8. what the generated layer must say for the above to be about the current source (each re-checked by
      computation on every run): discovery order, normalised characters, suffixes, ignore sources, CLI option
      rows, defaults incl. `enabled`, guards, per-language options, exit codes *)
Theorem C05_generated_layer :
  discovery_order = [".thailint.yaml"; ".thailint.json"] /\ pyproject_name = "pyproject.toml"
  /\ pyproject_table = ["tool"; "thailint"] /\ pyproject_error_swallowed = false
  /\ root_markers = [".git"; ".thailint.yaml"; "pyproject.toml"]
  /\ (global_config_missing_exits = true /\ global_config_invalid_exits = true)
  /\ repo_ignore_files = [".thailintignore"; ".thailint.yaml"; ".thailint.json"] /\ (norm_from = "-" /\ norm_to = "_")
  /\ (file_parser_normalises = true /\ pyproject_parser_normalises = true) /\ retry_exceptions = ["TypeError"]
  /\ valid_suffixes = doc_valid_suffixes /\ map row_proj cli_overrides = doc_cli_opts
  /\ (value_error_reraised = true /\ error_exit_code = 2 /\ exit_with_violations = 1 /\ exit_clean = 0)
  /\ (forall u, In u units -> with_enabled (gen_opts u) = doc_opts u)
  /\ (forall u, In u units -> guards_of guards u = doc_guards u)
  /\ (forall u, In u units -> gen_lang_opts u ++ doc_extra_lang_opts u = doc_lang_opts u).
Proof.
  exact (conj F_discovery (conj F_pyname (conj F_pytable (conj F_py_swallow (conj F_markers (conj F_global_checks (conj F_repo_files (conj F_norm (conj F_parsers (conj F_retry (conj F_suffixes (conj F_cli (conj F_errors
        (conj F_opts (conj F_guards F_lang))))))))))))))).
Qed.
Print Assumptions C05_generated_layer.

(* where the rules call .get on an entry without testing that it is a mapping, and whose language-block values no
   validation looks at (these decide the listed defects non_mapping_* and language_block_value_not_validated) *)
Theorem C05_type_checks :
  lang_block_unchecked_own = ["nesting"; "srp"; "magic-numbers"; "print-statements"; "improper-logging"; "stringly-typed"]
  /\ lang_block_unchecked_fixed = [("dry", ["python"; "typescript"; "javascript"])]
  /\ lang_values_unvalidated = ["dry"] /\ section_type_unchecked = ["stateless-class"; "collection-pipeline"].
Proof. exact F_type_checks. Qed.
Print Assumptions C05_type_checks.

(* --max-depth reaches every language sub-section (repaired: rust included); the other options reach no language
   sub-section (listed defect for srp; dry/pipeline have none) *)
Theorem C05_cli_override_rows : map row_langs cli_overrides =
  [("nesting", "--max-depth", ["python"; "typescript"; "javascript"; "rust"]); ("srp", "--max-methods", []); ("srp", "--max-loc", []);
   ("dry", "--min-lines", []); ("pipeline", "--min-continues", [])].
Proof. exact F_override_langs. Qed.
Print Assumptions C05_cli_override_rows.

(* non-vacuity: a concrete admissible case with competing carriers, a per-language sub-section and a CLI option;
   and the ideal vector satisfies flags_off *)
Definition ex_case : case :=
  {| c_proj := {| p_yaml := Doc [("nesting", VMap [("max_nesting_depth", VInt 2%Z); ("rust", VMap [("max_nesting_depth", VInt 1%Z)])])];
                  p_json := Doc [("nesting", VMap [("enabled", VBool false)])]; p_pyproject := Absent; p_dash := None; p_ignore_file := []; p_subdir := false |};
     c_cmd := "nesting"; c_unit := "nesting"; c_lang := "rust"; c_fname := "case_src.rs";
     c_overrides := [("--max-depth", 5%Z)]; c_metrics := [("depth", 4%Z)] |}.
Example C05_nonvacuous :
  flags_off ideal /\ case_good ex_case = true /\ lang_good ex_case = true
  /\ spec ex_case = Ran 0 /\ run ideal ex_case = Ran 0
  /\ spec (with_proj ex_case (only_yaml [("nesting", VMap [("max_nesting_depth", VInt 3%Z)])])) = Ran 0
  /\ run config_actual ex_case = Ran 0.
Proof. split; [exact ideal_off|]. vm_compute. repeat split; reflexivity. Qed.
