(* Props/C01.v — property C01 (nesting: exact depth, off-by-one boundary, cross-language agreement).
   Only statements closed by `exact <lemma>` and their Print Assumptions. *)
From TL Require Import Lib.Base Lib.GenTypes Gen.NestingGen Model.Skel Model.Nesting
     Proofs.NestingTs Proofs.NestingPy Proofs.NestingMain.

(* 1. For every quirk vector whose language flags are off, every limit and every admissible file
      (any number of functions / methods / arrow functions, any mix and shape of constructs):
      the linter model reports exactly the functions whose documented depth exceeds the limit,
      each once, at its header position, stating that depth. *)
Theorem C01_ts_report_exact : forall q limit file,
  q_ts_elseif_nests q = false -> file_good Ts file = true ->
  report Ts q limit file = spec_report limit file.
Proof. intros q limit file H G. exact (ts_report_exact q H limit file G). Qed.
Print Assumptions C01_ts_report_exact.

Theorem C01_rs_report_exact : forall q limit file,
  q_rs_elseif_nests q = false -> file_good Rs file = true ->
  report Rs q limit file = spec_report limit file.
Proof. intros q limit file H1 G. exact (rs_report_exact q H1 limit file G). Qed.
Print Assumptions C01_rs_report_exact.

Theorem C01_py_report_exact : forall q limit file,
  q_py_start_from_code q = false ->
  1 <= limit -> file_good Py file = true ->
  report Py q limit file = spec_report limit file.
Proof. intros q limit file H1 L G. exact (py_report_exact q H1 limit file L G). Qed.
Print Assumptions C01_py_report_exact.

(* 2. The same skeleton gets the same depth and verdict in every language. *)
Theorem C01_cross_language : forall q limit file,
  q_py_start_from_code q = false -> q_ts_elseif_nests q = false -> q_rs_elseif_nests q = false ->
  1 <= limit -> file_good Py file = true -> file_good Ts file = true -> file_good Rs file = true ->
  report Py q limit file = report Ts q limit file /\ report Ts q limit file = report Rs q limit file.
Proof. exact cross_language. Qed.
Print Assumptions C01_cross_language.

(* 3. Wrapping the deepest statement in one more control structure raises the depth by exactly
      one, and the verdict flips at exactly one value of the limit. *)
Theorem C01_wrap_plus_one : forall k body, counts k = true -> doc_depth (wrap_body k body) = S (doc_depth body).
Proof. exact doc_depth_wrap. Qed.
Print Assumptions C01_wrap_plus_one.

Theorem C01_verdict_flips_once : forall body, exists! m, forall limit, (limit <? doc_depth body) = (limit <? m).
Proof. exact verdict_flips_once. Qed.
Print Assumptions C01_verdict_flips_once.

(* 4. The message format found in the source states the depth. *)
Theorem C01_message_states_depth : forall l line col name d,
  message l (line, col, name, d) = sconcat ["Function '"; name; "' has excessive nesting depth ("; show_nat d; ")"].
Proof. exact message_states_depth. Qed.
Print Assumptions C01_message_states_depth.

(* 5. The faithful Python model (start depth as found in the source, whichever table variant) is exact up
      to the constant offset on EVERY admissible function (partial: the full statement is 1). *)
Theorem C01_py_actual_offset_partial : forall q f,
  q_py_start_from_code q = true -> fn_good Py f ->
  py_calc q (fn_body f) + (1 - py_start_depth) = doc_depth (fn_body f)
  \/ (maxl (map nest (fn_body f)) = 0 /\ py_calc q (fn_body f) = 0).
Proof. intros q f H1 G. exact (py_calc_actual_offset q H1 f G). Qed.
Print Assumptions C01_py_actual_offset_partial.

(* non-vacuity: an admissible file in all three languages with functions on both sides of a limit *)
Definition ex_file : list tree :=
  [T (KFn FDef "f" 1 0) [T KFor [T KIf [T KSimple []; T KElif [T KWhile [T KSimple []]]; T KElse [T KSimple []]]]];
   T KClass [T (KFn FMethod "m" 9 4) [T KSimple []]]].
Example C01_nonvacuous :
  file_good Py ex_file = true /\ file_good Ts ex_file = true /\ file_good Rs ex_file = true
  /\ spec_report 3 ex_file = [(1, 0, "f", 4)] /\ spec_report 4 ex_file = [].
Proof. vm_compute. repeat split; reflexivity. Qed.
