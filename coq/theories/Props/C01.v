From TL Require Import Lib.Base Model.Skel Model.Nesting Model.NestingRun Actual.NestingActual.
Theorem placeholder : True. Proof. exact I. Qed.
Print Assumptions placeholder.
