(* Props/C01.v — property C01 (nesting: exact depth, off-by-one boundary, cross-language agreement).
   Only statements closed by `exact <lemma>` and their Print Assumptions. *)
From TL Require Import Lib.Base Lib.GenTypes Gen.NestingGen Model.Skel Model.Nesting Model.NestingDisc
     Proofs.NestingTs Proofs.NestingPy Proofs.NestingMain Proofs.NestingDisc.
Require Import Permutation.

(* 1. For every quirk vector whose language flags are off, every limit and every admissible file
      (any number of functions / methods / arrow functions, any mix and shape of constructs):
      the linter model reports exactly the functions whose documented depth exceeds the limit,
      each once, at its header position, stating that depth. *)
Theorem C01_ts_report_exact : forall q limit file,
  q_ts_elseif_nests q = false -> q_ts_fn_types_from_code q = false -> file_good Ts file = true ->
  report Ts q limit file = spec_report limit file.
Proof. intros q limit file H H2 G. exact (ts_report_exact q H limit file H2 G). Qed.
Print Assumptions C01_ts_report_exact.

(* confinement of q_ts_fn_types_from_code (the extractor's node-type list as found in the source): whatever the
   flag, exact on every admissible file without function expressions / generator functions (partial) *)
Theorem C01_ts_report_listed_partial : forall q limit file,
  q_ts_elseif_nests q = false -> file_good Ts file = true -> forallb ts_listed (file_functions file) = true ->
  report Ts q limit file = spec_report limit file.
Proof. intros q limit file H G L. exact (ts_report_exact_listed q H limit file G L). Qed.
Print Assumptions C01_ts_report_listed_partial.

Theorem C01_rs_report_exact : forall q limit file,
  q_rs_elseif_nests q = false -> file_good Rs file = true ->
  report Rs q limit file = spec_report limit file.
Proof. intros q limit file H1 G. exact (rs_report_exact q H1 limit file G). Qed.
Print Assumptions C01_rs_report_exact.

Theorem C01_py_report_exact : forall q limit file,
  q_py_start_from_code q = false ->
  1 <= limit -> file_good Py file = true ->
  report Py q limit file = spec_report limit file.
Proof. intros q limit file H1 L G. exact (py_report_exact q H1 limit file L G). Qed.
Print Assumptions C01_py_report_exact.

(* 2. The same skeleton gets the same depth and verdict in every language. *)
Theorem C01_cross_language : forall q limit file,
  q_py_start_from_code q = false -> q_ts_elseif_nests q = false -> q_rs_elseif_nests q = false ->
  1 <= limit -> file_good Py file = true -> file_good Ts file = true -> file_good Rs file = true ->
  report Py q limit file = report Ts q limit file /\ report Ts q limit file = report Rs q limit file.
Proof. exact cross_language. Qed.
Print Assumptions C01_cross_language.

(* 3. Wrapping the deepest statement in one more control structure raises the depth by exactly
      one, and the verdict flips at exactly one value of the limit. *)
Theorem C01_wrap_plus_one : forall k body, counts k = true -> doc_depth (wrap_body k body) = S (doc_depth body).
Proof. exact doc_depth_wrap. Qed.
Print Assumptions C01_wrap_plus_one.

Theorem C01_verdict_flips_once : forall body, exists! m, forall limit, (limit <? doc_depth body) = (limit <? m).
Proof. exact verdict_flips_once. Qed.
Print Assumptions C01_verdict_flips_once.

(* 4. The message format found in the source states the depth. *)
Theorem C01_message_states_depth : forall l line col name d,
  message l (line, col, name, d) = sconcat ["Function '"; name; "' has excessive nesting depth ("; show_nat d; ")"].
Proof. exact message_states_depth. Qed.
Print Assumptions C01_message_states_depth.

(* 5. The faithful Python model (start depth as found in the source, whichever table variant) is exact up
      to the constant offset on EVERY admissible function (partial: the full statement is 1). *)
Theorem C01_py_actual_offset_partial : forall q f,
  q_py_start_from_code q = true -> fn_good Py f ->
  py_calc q (fn_body f) + (1 - py_start_depth) = doc_depth (fn_body f)
  \/ (maxl (map nest (fn_body f)) = 0 /\ py_calc q (fn_body f) = 0).
Proof. intros q f H1 G. exact (py_calc_actual_offset q H1 f G). Qed.
Print Assumptions C01_py_actual_offset_partial.

(* 6. Function discovery.  The linter gets ONE parse tree per file and finds the function nodes itself (Python:
      ast.walk, breadth first; TS/JS and Rust: pre-order over all children, node type tested against the source's
      list).  The report computed that way from the whole-file tree - each found node judged by
      calculate_max_depth on ITS subtree - is a permutation of the per-function report of items 1-5, for every
      quirk vector, limit and admissible file; and every function-like node is found exactly once. *)
Theorem C01_discovery_report : forall l q limit file,
  file_good l file = true -> Permutation (report_d l q limit file) (report l q limit file).
Proof. exact report_d_perm. Qed.
Print Assumptions C01_discovery_report.

Theorem C01_py_every_function_once : forall file,
  forallb ifs_ok file = true ->
  Permutation (tagged_ids (map py_dtag (py_find_all (py_module file))))
              (map fn_ident (filter (fun f => smem (py_fn_cls (fn_kind f)) py_function_types) (file_functions file))).
Proof. exact py_every_function_once. Qed.
Print Assumptions C01_py_every_function_once.

Theorem C01_ts_rs_every_function_once : forall nm ftypes file,
  forallb ifs_ok file = true ->
  Permutation (tagged_ids (map dtag (flat_map (ts_collect ftypes) (map (to_tsd nm) file))))
              (map fn_ident (filter (fun f => smem (n_of nm (KFn (fn_kind f) (fn_name f) (fn_line f) (fn_col f))) ftypes)
                                    (file_functions file))).
Proof. exact ts_every_function_once. Qed.
Print Assumptions C01_ts_rs_every_function_once.

Theorem C01_py_tree_report_exact : forall q limit file,
  q_py_start_from_code q = false -> 1 <= limit -> file_good Py file = true ->
  Permutation (report_d Py q limit file) (spec_report limit file).
Proof. exact py_report_d_exact. Qed.
Print Assumptions C01_py_tree_report_exact.

Theorem C01_ts_tree_report_exact : forall q limit file,
  q_ts_elseif_nests q = false -> q_ts_fn_types_from_code q = false -> file_good Ts file = true ->
  Permutation (report_d Ts q limit file) (spec_report limit file).
Proof. exact ts_report_d_exact. Qed.
Print Assumptions C01_ts_tree_report_exact.

Theorem C01_rs_tree_report_exact : forall q limit file,
  q_rs_elseif_nests q = false -> file_good Rs file = true ->
  Permutation (report_d Rs q limit file) (spec_report limit file).
Proof. exact rs_report_d_exact. Qed.
Print Assumptions C01_rs_tree_report_exact.

(* 7. The limit that applies to a file: NestingConfig.from_dict after the --max-depth override has the documented
      precedence (command line > the language's block > top-level key > default) for every section, every
      command-line value and every documented language; with 1-6: configuration in, documented report out. *)
Theorem C01_limit_precedence : forall s cli language,
  In language nesting_languages -> effective_limit s cli language = spec_limit s cli language.
Proof. exact limit_precedence. Qed.
Print Assumptions C01_limit_precedence.

Theorem C01_configured_report_exact : forall l lname q s cli file,
  In lname nesting_languages ->
  q_py_start_from_code q = false -> q_ts_elseif_nests q = false -> q_ts_fn_types_from_code q = false -> q_rs_elseif_nests q = false ->
  1 <= spec_limit s cli lname -> file_good l file = true ->
  Permutation (report_d l q (effective_limit s cli lname) file) (spec_report (spec_limit s cli lname) file).
Proof. exact configured_report_exact. Qed.
Print Assumptions C01_configured_report_exact.

(* non-vacuity: an admissible file in all three languages with functions on both sides of a limit *)
Definition ex_file : list tree :=
  [T (KFn FDef "f" 1 0) [T KFor [T KIf [T KSimple []; T KElif [T KWhile [T KSimple []]]; T KElse [T KSimple []]]]];
   T KClass [T (KFn FMethod "m" 9 4) [T KSimple []]]].
Example C01_nonvacuous :
  file_good Py ex_file = true /\ file_good Ts ex_file = true /\ file_good Rs ex_file = true
  /\ spec_report 3 ex_file = [(1, 0, "f", 4)] /\ spec_report 4 ex_file = [].
Proof. vm_compute. repeat split; reflexivity. Qed.

(* non-vacuity of 6 and 7: nested functions, a method and a curried arrow are all found; a language block beats the
   top-level key and the command line beats both *)
Definition ex_nested : list tree :=
  [T (KFn FDef "outer" 1 0) [T KIf [T (KFn FDef "inner" 3 8) [T KFor [T KSimple []]]; T KElse [T (KFn FDef "late" 6 8) [T KSimple []]]]];
   T KClass [T (KFn FMethod "m" 9 4) [T KWhile [T KSimple []]]]].
Example C01_discovery_nonvacuous :
  file_good Py ex_nested = true /\ file_good Ts ex_nested = true /\ file_good Rs ex_nested = true
  /\ map fst (map fst (map fst (report_d Py ideal 1 ex_nested))) = [1; 9; 3]
  /\ map fst (map fst (map fst (report_d Ts ideal 1 ex_nested))) = [1; 3; 9]
  /\ effective_limit {| s_top := Some 5; s_langs := [("rust", Some 2); ("python", None)] |} None "rust" = 2
  /\ effective_limit {| s_top := Some 5; s_langs := [("rust", Some 2); ("python", None)] |} None "python" = 5
  /\ effective_limit {| s_top := Some 5; s_langs := [("rust", Some 2)] |} (Some 7) "rust" = 7.
Proof. vm_compute. repeat split; reflexivity. Qed.
