(* Props/C17Known.v — refutations: for each flag claimed `true` in Actual/RustSafetyActual.v and listed as known in
   known.d/C17.json a concrete Rust file (with the source lines of its call rows, and a configuration) on which the
   faithful model differs from the specification, while the faithful model with just that flag switched off agrees
   with it (closed by vm_compute).  Every blocking-async report differs by its message (q_blocking_msg_line): the
   other blocking witnesses are stated over the faithful model with that flag off.  The same files are in corpus/C17
   and are replayed on the implementation on every run.  GENERATED from corpus/C17 by the snippet in selftest/C17/RESULTS.txt. *)
From TL Require Import Lib.Base Model.RustSafetyTypes Model.RustSafetySpec Model.RustSafety Model.RustSafetyRun Actual.RustSafetyActual.

Definition refutes_from (base : rquirks) (i : nat) (ls : srclines) (c : config) (w : list node) : Prop :=
  report base ls c w <> spec_report ls c w /\ report (set_flag i false base) ls c w = spec_report ls c w.
Definition refutes := refutes_from rust_actual.
Definition refutes_b := refutes_from (set_flag 9 false rust_actual).
Ltac refute := split; [vm_compute; discriminate|vm_compute; reflexivity].

(*
async fn f() {
    fs::read_to_string(v0);
}
*)
Definition w_blocking_msg_line : list node := [N (KFn [] true "f") [N KStmt [N (KCall 1 4 ["fs"; "read_to_string"]) [N (KId "v0") []]]]].
Definition l_blocking_msg_line : srclines := [(1, "    fs::read_to_string(v0);")].
Theorem C17_blocking_msg_line_refuted : refutes 9 l_blocking_msg_line (mkcfg [] [] []) w_blocking_msg_line.
Proof. refute. Qed.

(*
#[cfg(all(test, feature = "slow"))]
mod tests1 {
    fn f() {
        v0.unwrap();
    }
}
*)
Definition w_cfg_test_literal : list node := [N (KMod [SAttr "#[cfg(all(test, feature = ""slow""))]"]) [N (KFn [] false "f") [N KStmt [N (KMethod 3 8 3 "unwrap") [N (KId "v0") []]]]]].
Definition l_cfg_test_literal : srclines := [(3, "        v0.unwrap();")].
Theorem C17_cfg_test_literal_refuted : refutes 2 l_cfg_test_literal (mkcfg [] [] []) w_cfg_test_literal.
Proof. refute. Qed.

(*
fn f() {
    fs::read(v0)
        .unwrap();
}
*)
Definition w_chain_start_line : list node := [N (KFn [] false "f") [N KStmt [N (KMethod 1 4 2 "unwrap") [N (KCall 1 4 ["fs"; "read"]) [N (KId "v0") []]]]]].
Definition l_chain_start_line : srclines := [(1, "    fs::read(v0)"); (2, "        .unwrap();")].
Theorem C17_chain_start_line_refuted : refutes 4 l_chain_start_line (mkcfg [] [] []) w_chain_start_line.
Proof. refute. Qed.

(*
fn f() {
    loop {
        v1.clone().clone();
    }
}
*)
Definition w_clone_first_pattern : list node := [N (KFn [] false "f") [N KStmt [N (KLoop LLoop "") [N KStmt [N (KMethod 2 8 2 "clone") [N (KMethod 2 8 2 "clone") [N (KId "v1") []]]]]]]].
Definition l_clone_first_pattern : srclines := [(2, "        v1.clone().clone();")].
Theorem C17_clone_first_pattern_refuted : refutes 6 l_clone_first_pattern (mkcfg [] [("detect_clone_chain", false)] []) w_clone_first_pattern.
Proof. refute. Qed.

(*
fn f() {
    for i in v0.clone() {
        v1;
    }
    v0;
}
*)
Definition w_for_header_in_loop : list node := [N (KFn [] false "f") [N KStmt [N (KLoop LFor "i") [N (KMethod 1 13 1 "clone") [N (KId "v0") []]; N KStmt [N (KId "v1") []]]]; N KStmt [N (KId "v0") []]]].
Definition l_for_header_in_loop : srclines := [(1, "    for i in v0.clone() {")].
Theorem C17_for_header_in_loop_refuted : refutes 5 l_for_header_in_loop (mkcfg [] [] []) w_for_header_in_loop.
Proof. refute. Qed.

(*
fn f() {
    println!("{}", v0.unwrap());
}
*)
Definition w_macro_opaque : list node := [N (KFn [] false "f") [N KStmt [N (KMacro "println") [N (KMethod 1 19 1 "unwrap") [N (KId "v0") []]]]]].
Definition l_macro_opaque : srclines := [(1, "    println!(""{}"", v0.unwrap());")].
Theorem C17_macro_opaque_refuted : refutes 0 l_macro_opaque (mkcfg [] [] []) w_macro_opaque.
Proof. refute. Qed.

(*
async fn f() {
    TcpStream::connect(v0);
}
*)
Definition w_net_bare_type : list node := [N (KFn [] true "f") [N KStmt [N (KCall 1 4 ["TcpStream"; "connect"]) [N (KId "v0") []]]]].
Definition l_net_bare_type : srclines := [(1, "    TcpStream::connect(v0);")].
Theorem C17_net_bare_type_refuted : refutes_b 7 l_net_bare_type (mkcfg [] [] []) w_net_bare_type.
Proof. refute. Qed.

(*
#[cfg(not(test))]
fn f() {
    v0.unwrap();
}
*)
Definition w_test_attr_substring : list node := [N (KFn [SAttr "#[cfg(not(test))]"] false "f") [N KStmt [N (KMethod 2 4 2 "unwrap") [N (KId "v0") []]]]].
Definition l_test_attr_substring : srclines := [(2, "    v0.unwrap();")].
Theorem C17_test_attr_substring_refuted : refutes 1 l_test_attr_substring (mkcfg [] [] []) w_test_attr_substring.
Proof. refute. Qed.

(*
async fn f() {
    rt.spawn_blocking(|| fs::read(v0));
}
*)
Definition w_wrapper_method_form : list node := [N (KFn [] true "f") [N KStmt [N (KMethod 1 4 1 "spawn_blocking") [N (KId "rt") []; N (KClosure "") [N (KCall 1 25 ["fs"; "read"]) [N (KId "v0") []]]]]]].
Definition l_wrapper_method_form : srclines := [(1, "    rt.spawn_blocking(|| fs::read(v0));")].
Theorem C17_wrapper_method_form_refuted : refutes_b 8 l_wrapper_method_form (mkcfg [] [] []) w_wrapper_method_form.
Proof. refute. Qed.

(* further members of the two attribute classes, read by the specification from the attribute text
#[cfg( all(unix, any(test)) )]
mod tests1 {
    fn f() {
        v0.unwrap();
    }
}
*)
Definition w_cfg_test_predicate : list node := [N (KMod [SAttr "#[cfg( all(unix, any(test)) )]"]) [N (KFn [] false "f") [N KStmt [N (KMethod 3 8 3 "unwrap") [N (KId "v0") []]]]]].
Theorem C17_cfg_test_predicate_refuted : refutes 2 l_cfg_test_literal (mkcfg [] [] []) w_cfg_test_predicate.
Proof. refute. Qed.

(*
#[cfg_attr(test, allow(unused))]
fn f() {
    v0.unwrap();
}
*)
Definition w_cfg_attr_lookalike : list node := [N (KFn [SAttr "#[cfg_attr(test, allow(unused))]"] false "f") [N KStmt [N (KMethod 2 4 2 "unwrap") [N (KId "v0") []]]]].
Theorem C17_cfg_attr_lookalike_refuted : refutes 1 l_test_attr_substring (mkcfg [] [] []) w_cfg_attr_lookalike.
Proof. refute. Qed.
