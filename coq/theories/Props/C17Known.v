(* Props/C17Known.v — refutations: for each flag claimed `true` in Actual/RustSafetyActual.v a concrete Rust
   file (and configuration) on which the faithful model differs from the specification, while the
   faithful model with just that flag switched off agrees with it (closed by vm_compute).  The same
   files are in corpus/C17 and are replayed on the implementation on every run. *)
From TL Require Import Lib.Base Model.RustSafetyTypes Model.RustSafetySpec Model.RustSafety Model.RustSafetyRun Actual.RustSafetyActual.

Definition refutes (i : nat) (c : config) (w : list node) : Prop :=
  report rust_actual c w <> spec_report c w /\ report (set_flag i false rust_actual) c w = spec_report c w.
Ltac refute := split; [vm_compute; discriminate|vm_compute; reflexivity].

(* fn f() { println!("{}", v0.unwrap()); } *)
Definition w_macro_opaque : list node := [N (KFn [] false "f") [N KStmt [N (KMacro "println") [N (KMethod 1 19 1 "unwrap") [N (KId "v0") []]]]]].
Theorem C17_macro_opaque_refuted : refutes 0 (mkcfg [] [] []) w_macro_opaque.
Proof. refute. Qed.

(* #[cfg(not(test))] fn f() { v0.unwrap(); } *)
Definition w_test_attr_substring : list node := [N (KFn [SAttr "#[cfg(not(test))]"] false "f") [N KStmt [N (KMethod 2 4 2 "unwrap") [N (KId "v0") []]]]].
Theorem C17_test_attr_substring_refuted : refutes 1 (mkcfg [] [] []) w_test_attr_substring.
Proof. refute. Qed.

(* #[cfg(all(test, feature = "slow"))] mod tests1 { fn f() { v0.unwrap(); } } *)
Definition w_cfg_test_literal : list node := [N (KMod [SAttr "#[cfg(all(test, feature = ""slow""))]"]) [N (KFn [] false "f") [N KStmt [N (KMethod 3 8 3 "unwrap") [N (KId "v0") []]]]]].
Theorem C17_cfg_test_literal_refuted : refutes 2 (mkcfg [] [] []) w_cfg_test_literal.
Proof. refute. Qed.

(* fn f() { fs::read(v0) <newline> .unwrap(); } *)
Definition w_chain_start_line : list node := [N (KFn [] false "f") [N KStmt [N (KMethod 1 4 2 "unwrap") [N (KCall 1 4 ["fs"; "read"]) [N (KId "v0") []]]]]].
Theorem C17_chain_start_line_refuted : refutes 4 (mkcfg [] [] []) w_chain_start_line.
Proof. refute. Qed.

(* fn f() { for i in v0.clone() { v1; } v0; } *)
Definition w_for_header_in_loop : list node := [N (KFn [] false "f") [N KStmt [N (KLoop LFor "i") [N (KMethod 1 13 1 "clone") [N (KId "v0") []]; N KStmt [N (KId "v1") []]]]; N KStmt [N (KId "v0") []]]].
Theorem C17_for_header_in_loop_refuted : refutes 5 (mkcfg [] [] []) w_for_header_in_loop.
Proof. refute. Qed.

(* fn f() { loop { v1.clone().clone(); } }  with clone-abuse: {detect_clone_chain: false} *)
Definition w_clone_first_pattern : list node := [N (KFn [] false "f") [N KStmt [N (KLoop LLoop "") [N KStmt [N (KMethod 2 8 2 "clone") [N (KMethod 2 8 2 "clone") [N (KId "v1") []]]]]]]].
Theorem C17_clone_first_pattern_refuted : refutes 6 (mkcfg [] [("detect_clone_chain", false)] []) w_clone_first_pattern.
Proof. refute. Qed.

(* async fn f() { TcpStream::connect(v0); }   (a fix, e1a1fd7, was tried and undone by a07d81a) *)
Definition w_net_bare_type : list node := [N (KFn [] true "f") [N KStmt [N (KCall 1 4 ["TcpStream"; "connect"]) [N (KId "v0") []]]]].
Theorem C17_net_bare_type_refuted : refutes 7 (mkcfg [] [] []) w_net_bare_type.
Proof. refute. Qed.
