(* Props/C15.v - property C15 (each command reports only its own rules; rules fire only on their languages).
   Only statements closed by `exact <lemma>` and their Print Assumptions. *)
From TL Require Import Lib.Base Model.DispatchTypes Gen.DispatchGen Model.Dispatch
     Proofs.DispatchStr Proofs.DispatchMain Proofs.DispatchFiles.
From Coq Require Import Permutation.

(* 1. Filter exactness, over the registry found in the source: for every command (and --rule variant)
      and every rule id any linter package can emit, the command's predicate accepts the id iff the id
      belongs to the command's own linter. *)
Theorem C15_filter_exact : forall cmd atoms pkg rid,
  In (cmd, atoms) cli_filters -> In (pkg, rid) registry_rule_ids ->
  passes atoms rid = owns cmd pkg rid.
Proof. exact filter_exact. Qed.
Print Assumptions C15_filter_exact.

Theorem C15_every_command_filtered : forall cmd,
  is_command cmd = true -> exists atoms, lookup cmd cli_filters = Some atoms.
Proof. exact command_has_filter. Qed.
Print Assumptions C15_every_command_filtered.

(* 2. Language detection, string level: every mapped extension, every non-empty stem, every case variant. *)
Theorem C15_detect_by_extension : forall q ext lang stem variant head ne rd,
  In (ext, lang) extension_map -> lower variant = ext -> stem <> EmptyString ->
  detect q (mk_file (stem ++ variant) head ne rd) = lang.
Proof. exact detect_by_extension. Qed.
Print Assumptions C15_detect_by_extension.

Theorem C15_detect_unmapped : forall q f,
  lookup (lower (py_suffix (f_name f))) extension_map = None ->
  detect q f = if ((q_shebang_any_ext q && shebang_guard_any_ext) || String.eqb (py_suffix (f_name f)) "")
                  && f_nonempty f && f_readable f && is_shebang (first_line (f_head f))
               then shebang_lang else unknown_lang.
Proof. exact detect_unmapped. Qed.
Print Assumptions C15_detect_unmapped.

(* detection is the property's classification of the file (Python / TypeScript / JavaScript / Rust by
   extension, case-insensitively; extensionless scripts by a python shebang; everything else unrecognised).
   Since fix 2639201 this holds for the faithful model under every quirk vector: the guard found in the source
   (Gen.shebang_guard_any_ext = false) confines the shebang fallback to extensionless names. *)
Theorem C15_detect_is_spec : forall q f, spec_class f = lang_class (detect q f).
Proof. exact detect_spec_faithful. Qed.
Print Assumptions C15_detect_is_spec.

(* 2b. Locality of language detection.  In one invocation on several paths every path is analysed as the language of its
       OWN name and first line, whatever was linted before or after it and - for a name that is a symbolic link - whatever
       the name of the file it points to (Gen.detect_arg_resolved = false, Gen.detect_stateless: translator item
       detect_locality, re-read from language_detector.py and Orchestrator.lint_file on every run). *)
Theorem C15_language_is_local : forall q pre e post,
  nth_error (run_langs q (pre ++ e :: post)) (List.length pre) = Some (detect q (e_file e)).
Proof. exact language_is_local. Qed.
Print Assumptions C15_language_is_local.

Theorem C15_link_target_irrelevant : forall q cmd c f tg1 tg2 t,
  entry_lang q (mk_entry f tg1 t) = entry_lang q (mk_entry f tg2 t)
  /\ run_entry q cmd c (mk_entry f tg1 t) = run_entry q cmd c (mk_entry f tg2 t).
Proof. exact link_target_irrelevant. Qed.
Print Assumptions C15_link_target_irrelevant.

(* a run over several paths prints exactly the per-file specification; the order of the paths only permutes the findings *)
Theorem C15_run_files_exact : forall q cmd c es,
  q_name_exemption_ext_case q = false ->
  is_command cmd = true -> cfg_clean c = true ->
  forallb (fun e => atab_good (e_tab e)) es = true ->
  run_files q cmd c es = Ok (spec_files cmd es).
Proof. exact run_files_exact. Qed.
Print Assumptions C15_run_files_exact.

Theorem C15_run_files_order_irrelevant : forall q cmd c es es' vs vs',
  Permutation es es' -> run_files q cmd c es = Ok vs -> run_files q cmd c es' = Ok vs' -> Permutation vs vs'.
Proof. exact run_files_order. Qed.
Print Assumptions C15_run_files_order_irrelevant.

(* 3. Main theorem, full strength: for every quirk vector whose name-exemption flag is off (no hypothesis on the
      shebang flag: the source confines the fallback), every command, every configuration of the domain (every
      section valid: a value a linter rejects must end the run with exit code 2 by property C05), every file and
      every well-formed analysis oracle, the command prints exactly the findings of its own linter's rules for the
      file's language. *)
Theorem C15_command_output_exact : forall q cmd c t f,
  q_name_exemption_ext_case q = false ->
  is_command cmd = true -> atab_good t = true -> cfg_clean c = true ->
  run_cmd q cmd c t f = Ok (spec_out cmd t f).
Proof. exact run_cmd_exact_flag_off. Qed.
Print Assumptions C15_command_output_exact.

(* the same with both flags off: independent of the guard shape in the source (stays provable if fix 2639201 is reverted) *)
Theorem C15_command_output_exact_flags_off : forall q cmd c t f,
  q_shebang_any_ext q = false -> exemption_inert q f = true ->
  is_command cmd = true -> atab_good t = true -> cfg_clean c = true ->
  run_cmd q cmd c t f = Ok (spec_out cmd t f).
Proof. exact run_cmd_exact. Qed.
Print Assumptions C15_command_output_exact_flags_off.

(* confinement of the listed defect q_name_exemption_ext_case (partial: the full statement is the theorem above):
   under ANY quirk vector the faithful model meets the specification on every file whose extension is spelled
   in lower case *)
Theorem C15_actual_exact_for_lowercase_extensions_partial : forall q cmd c t f,
  String.eqb (canon_name (f_name f)) (f_name f) = true ->
  is_command cmd = true -> atab_good t = true -> cfg_clean c = true ->
  run_cmd q cmd c t f = Ok (spec_out cmd t f).
Proof. exact run_cmd_partial_lowercase. Qed.
Print Assumptions C15_actual_exact_for_lowercase_extensions_partial.

(* name-based exemptions (test files) are language-independent facts: evaluated on the name with its extension
   lower-cased they give the same answer for every case variant of the extension, and so does every rule *)
Theorem C15_exemptions_case_independent : forall r l stem v1 v2,
  stem <> EmptyString -> ext_shape v1 = true -> ext_shape v2 = true -> lower v1 = lower v2 ->
  exempt r l (canon_name (stem ++ v1)) = exempt r l (canon_name (stem ++ v2)).
Proof. exact exempt_case_independent. Qed.
Print Assumptions C15_exemptions_case_independent.

Theorem C15_only_own_rules : forall q cmd c t f vs v,
  exemption_inert q f = true -> is_command cmd = true -> atab_good t = true ->
  run_cmd q cmd c t f = Ok vs -> In v vs ->
  exists r, In r rule_table /\ owns cmd (r_pkg r) (fst v) = true.
Proof. exact only_own_rules_faithful. Qed.
Print Assumptions C15_only_own_rules.

(* 4. Language dispatch: a rule's guard lets a detected language through only if its linter is documented
      for that language; a file of an unrecognised type reaches only the path-based linter. *)
Theorem C15_guard_within_documented_languages : forall q f r,
  In r rule_table -> guard r (detect q f) = true -> allowed (r_pkg r) (lang_class (detect q f)) = true.
Proof. exact guard_within_docs. Qed.
Print Assumptions C15_guard_within_documented_languages.

Theorem C15_unrecognised_type_yields_no_source_analysis : forall q cmd c t f vs,
  exemption_inert q f = true -> is_command cmd = true -> atab_good t = true ->
  spec_class f = LOther -> run_cmd q cmd c t f = Ok vs ->
  forall v, In v vs -> exists r, In r rule_table /\ lookup (r_pkg r) doc_langs = Some None.
Proof. exact unrecognised_yields_nothing_faithful. Qed.
Print Assumptions C15_unrecognised_type_yields_no_source_analysis.

(* and conversely every documented language of a linter is dispatched to one of its rules *)
Theorem C15_documented_languages_dispatched : forall pkg ls l,
  In (pkg, Some ls) doc_langs -> In l (must_langs pkg ls) ->
  exists r, In r rule_table /\ r_pkg r = pkg /\ guard r l = true.
Proof. exact documented_languages_dispatched. Qed.
Print Assumptions C15_documented_languages_dispatched.

(* 5. Configuring other linters never changes a command's result: within the domain the configuration does
      not enter the result (a linter's own settings act through its analysis, i.e. through the oracle). *)
Theorem C15_other_sections_irrelevant : forall q cmd c1 c2 t f,
  cfg_clean c1 = true -> cfg_clean c2 = true ->
  run_cmd q cmd c1 t f = run_cmd q cmd c2 t f.
Proof. exact other_sections_irrelevant. Qed.
Print Assumptions C15_other_sections_irrelevant.

(* outside the domain, for the record (C05): a rejected section loaded by some rule ends the run *)
Theorem C15_rejected_section_aborts_out_of_domain : forall q cmd c t f r,
  In r rule_table -> loads r f (detect q f) = true -> rejected r c (detect q f) = true ->
  run_cmd q cmd c t f = Aborted.
Proof. exact rejected_section_aborts. Qed.
Print Assumptions C15_rejected_section_aborts_out_of_domain.

(* the two non-ASCII spellings CPython lower-cases to ASCII letters are covered by `lower` (hence by theorem 2):
   ".\u212aS" (KELVIN SIGN) lower-cases to ".ks", ".\u0130" to ".i" + U+0307; other non-ASCII bytes are left alone *)
Example C15_lower_special_code_points :
  lower (bytes_to_string [46; 226; 132; 170; 83]) = ".ks"
  /\ lower (bytes_to_string [46; 196; 176]) = bytes_to_string [46; 105; 204; 135]
  /\ lower (bytes_to_string [46; 80; 195; 137]) = bytes_to_string [46; 112; 195; 137]
  /\ lower ".TsX" = ".tsx".
Proof. vm_compute. repeat split; reflexivity. Qed.

Definition dispatch_ideal_q : quirks := ideal.

(* non-vacuity: a python file in upper case, a TS oracle entry that must not leak, two commands *)
Definition ex_tab : atab :=
  [(("nesting.excessive-depth", "python"), [("nesting.excessive-depth", 1)]);
   (("lbyl", "python"), [("lbyl.dict-key-check", 2); ("lbyl.syntax-error", 3)]);
   (("nesting.excessive-depth", "typescript"), [("nesting.excessive-depth", 4)]);
   (("file-placement", "*"), [("file-placement", 5)])].
Definition ex_file : file := mk_file "Mod_a.PY" "import os" true true.
Example C15_nonvacuous :
  atab_good ex_tab = true /\ cfg_clean [mk_section "srp" []; mk_section "dry" []] = true
  /\ spec_class ex_file = LPy
  /\ spec_out "lbyl" ex_tab ex_file = [("lbyl.dict-key-check", 2); ("lbyl.syntax-error", 3)]
  /\ spec_out "nesting" ex_tab ex_file = [("nesting.excessive-depth", 1)]
  /\ spec_out "file-placement" ex_tab (mk_file "notes.txt" "x" true true) = [("file-placement", 5)]
  /\ spec_out "nesting" ex_tab (mk_file "notes.txt" "#!/usr/bin/python" true true) = [].
Proof. vm_compute. repeat split; reflexivity. Qed.

(* non-vacuity of 2b: a plain extension-less file, then a python-shebang script, then notes.txt -> real.py, in one run *)
Example C15_run_files_nonvacuous :
  let es := [mk_entry (mk_file "notes" "# plain" true true) None ex_tab;
             mk_entry (mk_file "script" "#!/usr/bin/env python3" true true) None ex_tab;
             mk_entry (mk_file "notes.txt" "import os" true true) (Some "real.py") ex_tab] in
  run_langs dispatch_ideal_q es = ["unknown"; "python"; "unknown"]
  /\ run_files dispatch_ideal_q "nesting" [] es = Ok [("nesting.excessive-depth", 1)]
  /\ run_files dispatch_ideal_q "nesting" [] (rev es) = Ok [("nesting.excessive-depth", 1)].
Proof. vm_compute. repeat split; reflexivity. Qed.
