(* Props/C14Known.v — one refutation (the flag still claimed in Actual/CollectActual.v) and regressions.  The other seven
   flags describe defects that have been repaired in /repo (b20520c, 27377de, 9c8f928, bbae54e).  For each former
   witness: the claimed vector (which runs the functions generated from the current source) now meets the
   specification on it, and the model with that one flag switched on still reproduces the old defect (so the
   flag keeps its meaning).  The same projects are in corpus/C14 and must pass on the implementation. *)
From TL Require Import Lib.Base Model.CollectStr Model.Glob Gen.CollectGen Model.Collect Model.CollectSpec Model.CollectRun Actual.CollectActual.

Definition no_sources : tsources := Build_tsources None (Some []) None.
Definition root_abs : list string := ["/"; "w"; "proj"].

(* a project that lives under a directory called build *)
Definition w_above : tree := Dir "" [File "a.py"].
Theorem C14_excl_above_root_regression :
  run_dir collect_actual true ["/"; "w"; "build"; "proj"] SAbs [] w_above (render_sources no_sources) = spec_dir true [] w_above no_sources
  /\ run_dir (with_flag 0 collect_actual) true ["/"; "w"; "build"; "proj"] SAbs [] w_above (render_sources no_sources) <> spec_dir true [] w_above no_sources.
Proof. vm_compute. split; [reflexivity|discriminate]. Qed.

(* a regular file called build *)
Definition w_fname : tree := Dir "" [File "build"; File "a.py"].
Theorem C14_excl_filename_regression :
  run_dir collect_actual true root_abs SAbs [] w_fname (render_sources no_sources) = spec_dir true [] w_fname no_sources
  /\ run_files collect_actual root_abs SAbs (render_sources no_sources) [["build"]] = spec_files no_sources [["build"]]
  /\ run_dir (with_flag 1 collect_actual) true root_abs SAbs [] w_fname (render_sources no_sources) <> spec_dir true [] w_fname no_sources.
Proof. vm_compute. repeat split; try reflexivity; discriminate. Qed.

(* "legacy/" next to legacy2/e.py and legacy_x.py *)
Definition w_prefix : tree := Dir "" [Dir "legacy" [File "d.py"]; Dir "legacy2" [File "e.py"]; File "legacy_x.py"; File "a.py"].
Definition s_prefix : tsources := Build_tsources (Some [LPat 0 0 (PDir "legacy")]) (Some []) None.
Theorem C14_dirpat_prefix_regression :
  run_dir collect_actual true root_abs SAbs [] w_prefix (render_sources s_prefix) = spec_dir true [] w_prefix s_prefix
  /\ run_dir (with_flag 2 collect_actual) true root_abs SAbs [] w_prefix (render_sources s_prefix) <> spec_dir true [] w_prefix s_prefix.
Proof. vm_compute. split; [reflexivity|discriminate]. Qed.

(* "vendor/" and a regular file called vendor *)
Definition w_dfile : tree := Dir "" [Dir "src" [File "vendor"; File "a.py"]].
Definition s_dfile : tsources := Build_tsources None (Some [PDir "vendor"]) None.
Theorem C14_dirpat_filename_regression :
  run_dir collect_actual true root_abs SAbs [] w_dfile (render_sources s_dfile) = spec_dir true [] w_dfile s_dfile
  /\ run_dir (with_flag 3 collect_actual) true root_abs SAbs [] w_dfile (render_sources s_dfile) <> spec_dir true [] w_dfile s_dfile.
Proof. vm_compute. split; [reflexivity|discriminate]. Qed.

(* "**/*_constants.py" and "**/gen/" at the top level *)
Definition w_dstar : tree := Dir "" [File "my_constants.py"; Dir "src" [File "t_constants.py"]; Dir "gen" [File "g.py"]; File "a.py"].
Definition s_dstar : tsources := Build_tsources (Some [LPat 0 0 (PAnySuffix "_constants.py"); LPat 0 0 (PAnyDir "gen")]) (Some []) None.
Theorem C14_doublestar_regression :
  run_dir collect_actual true root_abs SAbs [] w_dstar (render_sources s_dstar) = spec_dir true [] w_dstar s_dstar
  /\ run_dir (with_flag 4 collect_actual) true root_abs SAbs [] w_dstar (render_sources s_dstar) <> spec_dir true [] w_dstar s_dstar.
Proof. vm_compute. split; [reflexivity|discriminate]. Qed.

(* a .thailintignore next to a config ignore list *)
Definition w_both : tree := Dir "" [File "a.py"; File "b.txt"; File "c.md"].
Definition s_both : tsources := Build_tsources (Some [LPat 0 0 (PSuffix ".txt")]) (Some [PSuffix ".py"]) None.
Theorem C14_ti_shadows_config_regression :
  run_dir collect_actual true root_abs SAbs [] w_both (render_sources s_both) = spec_dir true [] w_both s_both
  /\ run_dir (with_flag 5 collect_actual) true root_abs SAbs [] w_both (render_sources s_both) <> spec_dir true [] w_both s_both.
Proof. vm_compute. split; [reflexivity|discriminate]. Qed.

(* the ignore list of .thailint.json *)
Definition s_json : tsources := Build_tsources None None (Some [PSuffix ".py"]).
Theorem C14_json_ignore_unused_regression :
  run_dir collect_actual true root_abs SAbs [] w_both (render_sources s_json) = spec_dir true [] w_both s_json
  /\ run_dir (with_flag 6 collect_actual) true root_abs SAbs [] w_both (render_sources s_json) <> spec_dir true [] w_both s_json.
Proof. vm_compute. split; [reflexivity|discriminate]. Qed.

(* STILL PRESENT.  Working directory proj/sub, target "." : the config ignores "sub/deep/" and "other/**", but the files are
   matched in their cwd-relative spelling (deep/y.py), so sub/deep/y.py is linted; likewise ../other from there.
   With the flag switched off the model meets the specification. *)
Definition w_spell : tree := Dir "" [File "a.py"; Dir "sub" [File "x.py"; Dir "deep" [File "y.py"]]; Dir "other" [File "z.py"]].
Definition w_spell_sub : tree := Dir "sub" [File "x.py"; Dir "deep" [File "y.py"]].
Definition s_spell : tsources := Build_tsources None (Some [PDirPath ["sub"; "deep"]; PUnder ["other"]]) None.
Theorem C14_ignore_cwd_spelling_refuted :
  run_dir collect_actual true [] (SInside ["sub"]) ["sub"] w_spell_sub (render_sources s_spell) <> spec_dir true ["sub"] w_spell_sub s_spell
  /\ run_dir collect_actual true [] (SInside ["sub"]) ["other"] (Dir "other" [File "z.py"]) (render_sources s_spell) <> spec_dir true ["other"] (Dir "other" [File "z.py"]) s_spell
  /\ run_dir collect_actual true ["proj"] (SAbove ["proj"]) [] w_spell (render_sources s_spell) <> spec_dir true [] w_spell s_spell
  /\ run_dir (with_flag 7 collect_actual) true [] (SInside ["sub"]) ["sub"] w_spell_sub (render_sources s_spell) = spec_dir true ["sub"] w_spell_sub s_spell
  /\ run_dir collect_actual true [] (SInside []) ["sub"] w_spell_sub (render_sources s_spell) = spec_dir true ["sub"] w_spell_sub s_spell.
Proof. vm_compute. repeat split; try discriminate; reflexivity. Qed.
