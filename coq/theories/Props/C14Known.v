(* Props/C14Known.v — refutations: for each flag claimed `true` in Actual/CollectActual.v a concrete
   project on which the faithful model differs from the specification while the model with that single
   flag switched off agrees with it (closed by vm_compute).  The same projects are in corpus/C14 and
   are replayed on the implementation on every run. *)
From TL Require Import Lib.Base Model.CollectStr Model.Glob Gen.CollectGen Model.Collect Model.CollectSpec Model.CollectRun Actual.CollectActual.

Definition no_sources : tsources := Build_tsources None (Some []) None.
Definition root_abs : list string := ["/"; "w"; "proj"].
Definition outs (l : list (list string)) : list string := map pjoin l.

(* a project that lives under a directory called build: nothing is linted *)
Definition w_above : tree := Dir "" [File "a.py"].
Theorem C14_excl_above_root_refuted :
  run_dir collect_actual true ["/"; "w"; "build"; "proj"] [] w_above (render_sources no_sources) <> spec_dir true [] w_above no_sources
  /\ run_dir (with_flag 0 collect_actual) true ["/"; "w"; "build"; "proj"] [] w_above (render_sources no_sources) = spec_dir true [] w_above no_sources.
Proof. vm_compute. split; [discriminate|reflexivity]. Qed.

(* a regular file called build (or dist, venv, x.egg-info ...) is skipped *)
Definition w_fname : tree := Dir "" [File "build"; File "a.py"].
Theorem C14_excl_filename_refuted :
  run_dir collect_actual true root_abs [] w_fname (render_sources no_sources) <> spec_dir true [] w_fname no_sources
  /\ run_dir (with_flag 1 collect_actual) true root_abs [] w_fname (render_sources no_sources) = spec_dir true [] w_fname no_sources
  /\ run_files collect_actual root_abs (render_sources no_sources) [["build"]] <> spec_files no_sources [["build"]].
Proof. vm_compute. repeat split; try discriminate; reflexivity. Qed.

(* "legacy/" also ignores legacy2/e.py and legacy_x.py *)
Definition w_prefix : tree := Dir "" [Dir "legacy" [File "d.py"]; Dir "legacy2" [File "e.py"]; File "legacy_x.py"; File "a.py"].
Definition s_prefix : tsources := Build_tsources (Some [LPat 0 0 (PDir "legacy")]) (Some []) None.
Theorem C14_dirpat_prefix_refuted :
  run_dir collect_actual true root_abs [] w_prefix (render_sources s_prefix) <> spec_dir true [] w_prefix s_prefix
  /\ run_dir (with_flag 2 collect_actual) true root_abs [] w_prefix (render_sources s_prefix) = spec_dir true [] w_prefix s_prefix.
Proof. vm_compute. split; [discriminate|reflexivity]. Qed.

(* "vendor/" ignores a regular file called vendor *)
Definition w_dfile : tree := Dir "" [Dir "src" [File "vendor"; File "a.py"]].
Definition s_dfile : tsources := Build_tsources None (Some [PDir "vendor"]) None.
Theorem C14_dirpat_filename_refuted :
  run_dir collect_actual true root_abs [] w_dfile (render_sources s_dfile) <> spec_dir true [] w_dfile s_dfile
  /\ run_dir (with_flag 3 collect_actual) true root_abs [] w_dfile (render_sources s_dfile) = spec_dir true [] w_dfile s_dfile.
Proof. vm_compute. split; [discriminate|reflexivity]. Qed.

(* "**/*_constants.py" does not cover a file at the top level; "**/gen/" does not cover a top-level gen/ *)
Definition w_dstar : tree := Dir "" [File "my_constants.py"; Dir "src" [File "t_constants.py"]; Dir "gen" [File "g.py"]; File "a.py"].
Definition s_dstar : tsources := Build_tsources (Some [LPat 0 0 (PAnySuffix "_constants.py"); LPat 0 0 (PAnyDir "gen")]) (Some []) None.
Theorem C14_doublestar_refuted :
  run_dir collect_actual true root_abs [] w_dstar (render_sources s_dstar) <> spec_dir true [] w_dstar s_dstar
  /\ run_dir (with_flag 4 collect_actual) true root_abs [] w_dstar (render_sources s_dstar) = spec_dir true [] w_dstar s_dstar.
Proof. vm_compute. split; [discriminate|reflexivity]. Qed.

(* with a .thailintignore present the config's ignore list is dropped *)
Definition w_both : tree := Dir "" [File "a.py"; File "b.txt"; File "c.md"].
Definition s_both : tsources := Build_tsources (Some [LPat 0 0 (PSuffix ".txt")]) (Some [PSuffix ".py"]) None.
Theorem C14_ti_shadows_config_refuted :
  run_dir collect_actual true root_abs [] w_both (render_sources s_both) <> spec_dir true [] w_both s_both
  /\ run_dir (with_flag 5 collect_actual) true root_abs [] w_both (render_sources s_both) = spec_dir true [] w_both s_both.
Proof. vm_compute. split; [discriminate|reflexivity]. Qed.

(* the ignore list of .thailint.json is never read *)
Definition s_json : tsources := Build_tsources None None (Some [PSuffix ".py"]).
Theorem C14_json_ignore_unused_refuted :
  run_dir collect_actual true root_abs [] w_both (render_sources s_json) <> spec_dir true [] w_both s_json
  /\ run_dir (with_flag 6 collect_actual) true root_abs [] w_both (render_sources s_json) = spec_dir true [] w_both s_json.
Proof. vm_compute. split; [discriminate|reflexivity]. Qed.
